"""C03 integer stream: exact correspondence data for the Coq model (Model/Mp.v, Model/Qn.v).

stdin: {"seed": int, "ncases": int}
Builds sector-respecting states with Mps.random, replaces every non-zero entry by a small (Gaussian) integer (the
label structure stays the implementation's own), integer operators via Mpo(model, terms), moves the centres with
move_qnidx to random sites (no canonicalisation: integers would be lost), runs random operation sequences of
length 1..6 and exports, for every step, the operands before the call and the operands / result after it.
RESULT {"steps": [...], "stats": {...}}"""
import json
import random
import sys
import traceback

import numpy as np

import c03_gen as G
from renormalizer import Mps, Mpo
from renormalizer.mps import MpDm

MAXBOND = 12


class NotInteger(Exception):
    pass


def ints(arr):
    """nested list of ints (real) or of [re, im] pairs (complex with a non-zero imaginary part somewhere)"""
    a = np.asarray(arr)
    re, im = np.real(a), np.imag(a)
    if not (np.all(re == np.round(re)) and np.all(im == np.round(im))) or np.max(np.abs(a), initial=0) > 2 ** 50:
        raise NotInteger()
    if np.any(im != 0):
        return {"c": True, "v": np.stack([re, im], axis=-1).astype(np.int64).tolist()}
    return {"c": False, "v": re.astype(np.int64).tolist()}


def scal(x):
    x = complex(x)
    if x.real != round(x.real) or x.imag != round(x.imag) or abs(x) > 2 ** 50:
        raise NotInteger()
    return [int(round(x.real)), int(round(x.imag))]


def export(mp, kind):
    d = {"kind": kind,
         "tensors": [ints(mt.array) for mt in mp],
         "shapes": [list(mt.shape) for mt in mp],
         "qn": [np.asarray(q).astype(int).reshape(len(q), -1).tolist() for q in mp.qn],
         "qnidx": int(mp.qnidx), "qntot": [int(x) for x in np.asarray(mp.qntot).reshape(-1)],
         "to_right": bool(mp.to_right),
         "coeff": scal(getattr(mp, "coeff", 1)) if kind != "mpo" else [1, 0]}
    return d


def integerise(mp, rng, cplx):
    if cplx:
        mp = mp.to_complex()
    for i in range(len(mp)):
        a = np.array(mp[i].array)
        mask = np.abs(a) > 1e-13
        n = int(mask.sum())
        vals = np.array([rng.choice([-3, -2, -1, 1, 2, 3]) for _ in range(n)], dtype=float)
        if cplx:
            vals = vals + 1j * np.array([rng.choice([-2, -1, 0, 0, 1, 2]) for _ in range(n)], dtype=float)
        new = np.zeros(a.shape, dtype=complex if cplx else float)
        new[mask] = vals
        mp[i] = new
    return mp


def run_case(case_seed, steps, stats):
    rng = random.Random(case_seed)
    np.random.seed(case_seed % (2 ** 31))
    nsite = rng.choice([2, 2, 3, 3, 3, 4, 4, 5])
    ncomp = rng.choice([1, 1, 2])
    trivial = rng.random() < 0.1
    model, sites = G.build_model(random.Random(rng.randrange(10 ** 9)), nsite, ncomp, trivial)
    pdims = [s["nbas"] for s in sites]
    sigmas = [s["sigmaqn"] for s in sites]
    q0, _ = G.random_sector(rng, sites, rng.choice(["any", "any", "any", "full", "empty", "adjacent"]))
    case_cplx = rng.random() < 0.35

    states, ops, dms = [], [], []     # entries: (mp, sector tuple)

    def new_state():
        for _ in range(4):
            try:
                mp = Mps.random(model, np.array(q0), rng.randint(2, 3), percent=1.0)
                break
            except FloatingPointError:
                stats["random_fpe"] = stats.get("random_fpe", 0) + 1
                mp = None
            except ValueError:
                stats["random_fpe"] = stats.get("random_fpe", 0) + 1
                mp = None
        if mp is None:
            return None
        mp = integerise(mp, rng, case_cplx and rng.random() < 0.7)
        co = rng.choice([1, 1, 2, -1, 3])
        if case_cplx and rng.random() < 0.6:
            co = complex(co, rng.choice([1, -1, 2]))      # also on REAL tensors (integerise made them complex only with p = 0.7)
        mp.coeff = co
        mp.move_qnidx(rng.randrange(nsite))
        mp.to_right = rng.random() < 0.5
        return mp

    def new_op():
        for _ in range(5):
            terms, ch, desc = G.random_terms(random.Random(rng.randrange(10 ** 9)), sites, True, case_cplx and rng.random() < 0.5,
                                             want_charge=None if rng.random() < 0.6 else [0] * ncomp)
            if not terms or np.linalg.norm(G.dense_of_terms(sites, desc)) < 1e-12:
                continue
            mpo = Mpo(model, terms)
            try:
                export(mpo, "mpo")
            except NotInteger:
                stats["mpo_nonint"] = stats.get("mpo_nonint", 0) + 1
                continue
            mpo.move_qnidx(rng.randrange(nsite))
            mpo.to_right = rng.random() < 0.5
            return mpo, tuple(ch)
        return None

    for _ in range(rng.randint(2, 3)):
        s = new_state()
        if s is not None:
            states.append((s, tuple(int(x) for x in q0)))
    for _ in range(rng.randint(1, 3)):
        o = new_op()
        if o is not None:
            ops.append(o)
    if not states:
        return
    stats["cases"] = stats.get("cases", 0) + 1

    def bmax(mp):
        return max(mp.bond_dims)

    def kind_of(mp):
        return "mpdm" if isinstance(mp, MpDm) else ("mps" if isinstance(mp, Mps) else "mpo")

    # every live object with the export taken when it was last legitimately produced / changed
    live = {}

    def snapshot_all():
        for pool in (states, ops, dms):
            for (mp, _) in pool:
                if id(mp) not in live:
                    live[id(mp)] = (mp, export(mp, kind_of(mp)))

    def changed_live(allowed):
        """objects whose tensors / coeff / qn / qnidx / qntot / to_right differ from their recorded export although the
        operation was not allowed to touch them (allowed: ids of operands that Mps.add / distance may fold in place)"""
        out = []
        for key, (mp, exp0) in list(live.items()):
            try:
                now = export(mp, kind_of(mp))
            except NotInteger:
                now = {"nonint": True}
            if now != exp0:
                if key in allowed:
                    live[key] = (mp, now)
                else:
                    out.append({"kind": kind_of(mp), "before": exp0, "after": now})
                    live[key] = (mp, now)
        return out

    snapshot_all()

    nops = rng.randint(1, 6)
    done = 0
    tries = 0
    while done < nops and tries < 40:
        tries += 1
        opk = rng.choice(["add", "add", "add", "scale", "conj", "apply", "apply", "opop", "opadd", "conj_trans", "opscale",
                          "opconj", "dot", "opdot", "move", "dm", "dm", "dmadd", "dmadd", "dmapply_l", "dmapply_r", "dmdot", "distance"])
        rec = {"op": opk, "case": case_seed, "nsite": nsite, "ncomp": ncomp, "pdims": pdims, "sigma": sigmas}
        try:
            if opk == "add":
                a, qa = rng.choice(states)
                cands = [x for x in states if x[1] == qa and x[0] is not a]
                if not cands or nsite < 2:
                    continue
                b, _ = rng.choice(cands)
                if bmax(a) + bmax(b) > MAXBOND:
                    continue
                rec["same"] = bool(np.allclose(a.coeff, b.coeff))
                rec["_fold_ok"] = [id(a), id(b)]
                rec["in"] = [export(a, "mps"), export(b, "mps")]
                rec["_operands"] = [a, b]
                r = a.add(b)
                rec["out"] = [export(r, "mps"), export(a, "mps"), export(b, "mps")]
                states.append((r, qa))
                rec["nontrivial"] = bool(rec["in"][0]["qnidx"] != rec["in"][1]["qnidx"])
            elif opk == "distance":
                a, qa = rng.choice(states)
                cands = [x for x in states if x[1] == qa and x[0] is not a]
                if not cands:
                    continue
                b, _ = rng.choice(cands)
                rec["same"] = bool(np.allclose(a.coeff, b.coeff))
                rec["_fold_ok"] = [id(a), id(b)]
                rec["in"] = [export(a, "mps"), export(b, "mps")]
                rec["_operands"] = [a, b]
                rec["fval"] = float(a.distance(b))          # a float (sqrt); compared with the model's exact square
                rec["out"] = [export(a, "mps"), export(b, "mps")]
            elif opk in ("scale", "opscale"):
                pool = states if opk == "scale" else ops
                if not pool:
                    continue
                a, qa = rng.choice(pool)
                v = rng.choice([2, -1, 3, -2])
                if case_cplx and rng.random() < 0.5:
                    v = complex(v, rng.choice([1, -1, 2]))
                kind = "mps" if opk == "scale" else "mpo"
                rec["val"] = scal(v)
                rec["in"] = [export(a, kind)]
                rec["_operands"] = [a]
                r = a.scale(v)
                rec["out"] = [export(r, kind)]
                pool.append((r, qa))
            elif opk in ("conj", "opconj"):
                pool = states if opk == "conj" else ops
                if not pool:
                    continue
                a, qa = rng.choice(pool)
                kind = "mps" if opk == "conj" else "mpo"
                rec["in"] = [export(a, kind)]
                rec["_operands"] = [a]
                r = a.conj()
                rec["out"] = [export(r, kind)]
                pool.append((r, qa))
            elif opk == "conj_trans":
                if not ops:
                    continue
                a, qa = rng.choice(ops)
                rec["in"] = [export(a, "mpo")]
                rec["_operands"] = [a]
                r = a.conj_trans()
                rec["out"] = [export(r, "mpo")]
                ops.append((r, tuple(-x for x in qa)))
                rec["nontrivial"] = bool(any(qa))
            elif opk == "apply":
                if not ops:
                    continue
                o, qo = rng.choice(ops)
                a, qa = rng.choice(states)
                if bmax(o) * bmax(a) > MAXBOND:
                    continue
                rec["in"] = [export(o, "mpo"), export(a, "mps")]
                rec["_operands"] = [o, a]
                r = o.apply(a)
                rec["out"] = [export(r, "mps")]
                if all(np.asarray(mt.array).any() for mt in r):
                    states.append((r, tuple(x + y for x, y in zip(qa, qo))))
                rec["nontrivial"] = bool(any(qo) or rec["in"][0]["qnidx"] != rec["in"][1]["qnidx"])
            elif opk == "opop":
                if not ops:
                    continue
                o, qo = rng.choice(ops)
                b, qb = rng.choice(ops)
                if bmax(o) * bmax(b) > MAXBOND:
                    continue
                rec["in"] = [export(o, "mpo"), export(b, "mpo")]
                rec["_operands"] = [o, b]
                r = o.apply(b)
                rec["out"] = [export(r, "mpo")]
                if all(np.asarray(mt.array).any() for mt in r):
                    ops.append((r, tuple(x + y for x, y in zip(qb, qo))))
                rec["nontrivial"] = bool(any(qo) or any(qb))
            elif opk == "opadd":
                if not ops:
                    continue
                a, qa = rng.choice(ops)
                cands = [x for x in ops if x[1] == qa and x[0] is not a]
                if not cands:
                    continue
                b, _ = rng.choice(cands)
                if bmax(a) + bmax(b) > MAXBOND:
                    continue
                rec["in"] = [export(a, "mpo"), export(b, "mpo")]
                rec["_operands"] = [a, b]
                r = a.add(b)
                rec["out"] = [export(r, "mpo")]
                ops.append((r, qa))
                rec["nontrivial"] = bool(rec["in"][0]["qnidx"] != rec["in"][1]["qnidx"])
            elif opk in ("dot", "opdot", "dmdot"):
                pool = {"dot": states, "opdot": ops, "dmdot": dms}[opk]
                kind = {"dot": "mps", "opdot": "mpo", "dmdot": "mpdm"}[opk]
                if not pool:
                    continue
                a, qa = rng.choice(pool)
                b, qb = rng.choice(pool)
                rec["in"] = [export(a, kind), export(b, kind)]
                rec["_operands"] = [a, b]
                rec["val"] = scal(a.dot(b))
                rec["out"] = []
            elif opk == "move":
                pool = rng.choice([states, ops])
                if not pool:
                    continue
                a, qa = rng.choice(pool)
                kind = "mps" if pool is states else "mpo"
                a = a.copy()
                rec["in"] = [export(a, kind)]
                rec["_operands"] = []
                rec["dst"] = rng.randrange(nsite)
                a.move_qnidx(rec["dst"])
                rec["out"] = [export(a, kind)]
            elif opk == "dm":
                # MpDm.from_mps of real AND complex states (complex tensors, complex prefactor): an exact step of its own
                a, qa = rng.choice(states)
                rec["in"] = [export(a, "mps")]
                rec["_operands"] = [a]
                d = MpDm.from_mps(a)      # shares a.qntot (the live-object scan notices if anything writes through it)
                rec["out"] = [export(d, "mpdm")]
                rec["complex_source"] = bool(a.is_complex)
                rec["dtype_ok"] = bool((not a.is_complex) or (d.is_complex and all(np.iscomplexobj(np.asarray(mt.array)) for mt in d)))
                dms.append((d, qa))
            elif opk == "dmadd":
                if len(dms) < 2:
                    continue
                a, qa = rng.choice(dms)
                cands = [x for x in dms if x[1] == qa and x[0] is not a]
                if not cands:
                    continue
                b, _ = rng.choice(cands)
                if bmax(a) + bmax(b) > MAXBOND:
                    continue
                rec["same"] = bool(np.allclose(a.coeff, b.coeff))
                rec["_fold_ok"] = [id(a), id(b)]
                rec["in"] = [export(a, "mpdm"), export(b, "mpdm")]
                rec["_operands"] = [a, b]
                r = a.add(b)
                rec["out"] = [export(r, "mpdm"), export(a, "mpdm"), export(b, "mpdm")]
                dms.append((r, qa))
                rec["nontrivial"] = bool(rec["in"][0]["qnidx"] != rec["in"][1]["qnidx"])
            elif opk == "dmapply_l":
                if not dms or not ops:
                    continue
                o, qo = rng.choice(ops)
                d, qd = rng.choice(dms)
                if bmax(o) * bmax(d) > MAXBOND:
                    continue
                rec["in"] = [export(o, "mpo"), export(d, "mpdm")]
                rec["_operands"] = [o, d]
                r = o.apply(d)
                rec["out"] = [export(r, "mpdm")]
                if all(np.asarray(mt.array).any() for mt in r):
                    dms.append((r, tuple(x + y for x, y in zip(qd, qo))))
                rec["nontrivial"] = bool(any(qo))
            elif opk == "dmapply_r":
                if not dms or not ops:
                    continue
                o, qo = rng.choice(ops)
                d, qd = rng.choice(dms)
                if bmax(o) * bmax(d) > MAXBOND:
                    continue
                rec["in"] = [export(d, "mpdm"), export(o, "mpo")]
                rec["_operands"] = [d, o]
                r = d.apply(o)
                rec["out"] = [export(r, "mpdm")]
                if all(np.asarray(mt.array).any() for mt in r):
                    dms.append((r, qd))
                rec["nontrivial"] = bool(any(qo))
            else:
                continue
        except NotInteger:
            stats["nonint"] = stats.get("nonint", 0) + 1
            continue
        except Exception as ex:
            rec.pop("_operands", None)
            rec.pop("_fold_ok", None)
            rec["exception"] = repr(ex)
            rec["tb"] = traceback.format_exc()[-800:]
            rec.pop("out", None)
            steps.append(rec)
            return
        # operands AFTER the call (they must be unchanged except for the documented prefactor folding of Mps.add /
        # Mps.distance) and every other live object
        try:
            rec["after"] = [export(x, d["kind"]) for x, d in zip(rec.pop("_operands", []), rec["in"])]
        except NotInteger:
            rec["after"] = None
        allowed = set(rec.pop("_fold_ok", []))
        rec["live_changed"] = changed_live(allowed)
        snapshot_all()
        steps.append(rec)
        done += 1
        stats.setdefault("ops", {})
        stats["ops"][opk] = stats["ops"].get(opk, 0) + 1


def main():
    payload = json.loads(sys.stdin.read() or "{}")
    seed = int(payload.get("seed", 0))
    ncases = int(payload.get("ncases", 40))
    steps, stats = [], {}
    for k in range(ncases):
        try:
            run_case(seed * 1000003 + k, steps, stats)
        except Exception as ex:
            steps.append({"op": "generator", "exception": repr(ex), "tb": traceback.format_exc()[-800:], "case": seed * 1000003 + k})
    res = {"steps": steps, "stats": stats}
    if payload.get("out"):
        # large results go through a file: the harness reads the pipe only after exit (64 kB pipe buffer)
        with open(payload["out"], "w") as f:
            json.dump(res, f)
        print("RESULT " + json.dumps({"file": payload["out"]}))
    else:
        print("RESULT " + json.dumps(res))


main()
