"""C07 correspondence data: integer / Gaussian-integer states and operators, exact arithmetic on both sides.

stdin: {"seed": int, "start": int, "count": int}
stdout: RESULT {"file": path}; the file holds {"cases": [...], "errors": [...]}, one entry per case:
   {"idx", "cplx", "ps", "bra": [[dr, table]...], "ket": [...], "ops": [[ [hash, dl, dr, table]... ] ...],
    "impl": {"one": [...], "fast": [...], "slow": [...],               values as [re, im] integers
             "planL": [[h,..],..], "planR": [...],                     keys of the two dictionaries in insertion order
             "split": [[l_idx, r_idx], ...],                           what _get_freq_environ returns per operator
             "envL": [[da,db,dc, flat entries...], ...], "envR": [...],  cached environments in plan order
             "rdm1": [...],                                             calc_1site_rdm of the ket, all sites, row-major
             "rdm2": [...]}                                             calc_2site_rdm, pairs (i,j) i<j in order, row-major
   }
A table is the nested list of the array with every entry given as an integer (real case) or [re, im] (complex case).
"""
import json
import random
import sys

from renormalizer import Mps, Mpo, Model, Op
from renormalizer.model.basis import BasisHalfSpin, BasisSHO, BasisSimpleElectron
from renormalizer.mps.mps import _construct_freq_environ, _get_freq_environ
import numpy as np


def is_int_array(a):
    a = np.asarray(a)
    return np.all(a.real == np.round(a.real)) and np.all(a.imag == np.round(a.imag)) and np.abs(a).max(initial=0) < 2 ** 20


def table(a, cplx):
    a = np.asarray(a)
    if cplx:
        f = np.vectorize(lambda z: None, otypes=[object])
        out = np.empty(a.shape, dtype=object)
        for ix in np.ndindex(a.shape):
            out[ix] = [int(round(a[ix].real)), int(round(a[ix].imag))]
        return out.tolist()
    return np.round(a.real).astype(int).tolist()


def val(z):
    z = complex(z)
    return [z.real, z.imag]


def symbols(b, cplx):
    if isinstance(b, BasisHalfSpin):
        s = [("sigma_x", [b.dof]), ("sigma_z", [b.dof]), ("sigma_+", [b.dof]), ("sigma_-", [b.dof])]
        if cplx:
            s += [("sigma_y", [b.dof])] * 2
        return s
    if isinstance(b, BasisSHO):
        return [(r"b^\dagger b", [b.dof, b.dof])]
    return [(r"a^\dagger a", [b.dof, b.dof]), (r"a^\dagger", [b.dof]), ("a", [b.dof])]


def rand_term(rng, model, cplx, maxbody=3):
    nb = rng.randint(1, min(maxbody, model.nsite))
    sites = sorted(rng.sample(range(model.nsite), nb))
    sym, dofs = [], []
    for i in sites:
        s, d = rng.choice(symbols(model.basis[i], cplx))
        sym.append(s)
        dofs += d
    f = rng.choice([1.0, -1.0, 2.0, 3.0])
    if cplx:
        f = complex(f, rng.choice([0.0, 1.0, -2.0]))
    return Op(" ".join(sym), dofs, f)


def op_list(rng, model, cplx):
    n = model.nsite
    style = rng.choice(["onsite", "pairs", "repeat", "random", "long", "onediff", "mixed"] + (["weaknh", "weaknh"] if cplx else []))
    one = (1.0 + 0j) if cplx else 1.0
    ops = []
    if style == "weaknh":
        # factor F + i g with |g/F| between 1e-6 and 1e-5: the imaginary part of every value is tiny RELATIVE to the
        # real part but an exact non-zero integer; the model (Gaussian integers) returns the full complex value
        for _ in range(rng.randint(2, 5)):
            nb = rng.randint(1, min(2, n))
            sites = sorted(rng.sample(range(n), nb))
            sym, dofs = [], []
            for i in sites:
                s_, d_ = rng.choice([x for x in symbols(model.basis[i], False) if x[0] in ("sigma_z", "sigma_x", r"b^\dagger b", r"a^\dagger a")] or symbols(model.basis[i], False))
                sym.append(s_)
                dofs += d_
            f = complex(rng.choice([150000.0, 400000.0, -250000.0, 900000.0]), rng.choice([1.0, -1.0, 2.0]))
            ops.append(Op(" ".join(sym), dofs, f))
        ops.append(rand_term(rng, model, cplx))
    elif style == "onsite":
        for i in range(n):
            s, d = rng.choice(symbols(model.basis[i], cplx))
            ops.append(Op(s, d, one))
    elif style == "pairs":
        for i in range(n - 1):
            s1, d1 = rng.choice(symbols(model.basis[i], cplx))
            s2, d2 = rng.choice(symbols(model.basis[i + 1], cplx))
            ops.append(Op(s1 + " " + s2, d1 + d2, one))
        ops = ops or [rand_term(rng, model, cplx)]
    elif style == "repeat":
        a, b = rand_term(rng, model, cplx), rand_term(rng, model, cplx)
        ops = [a, b, a, a, b][: rng.randint(2, 5)]
    elif style == "onediff":
        i = rng.randrange(n)
        rest = []
        for j in range(n):
            if j != i and rng.random() < 0.5:
                s, d = rng.choice(symbols(model.basis[j], cplx))
                rest.append((j, s, d))
        for s, d in symbols(model.basis[i], cplx):
            parts = sorted(rest + [(i, s, d)])
            ops.append(Op(" ".join(p[1] for p in parts), sum((p[2] for p in parts), []), one))
    elif style == "long":
        for _ in range(rng.randint(2 * n + 3, 3 * n + 5)):
            ops.append(rand_term(rng, model, cplx, maxbody=2))
    else:
        for _ in range(rng.randint(2, 6)):
            t = rand_term(rng, model, cplx)
            if rng.random() < 0.4:
                t = t + rand_term(rng, model, cplx)
            ops.append(t)
        if style == "mixed":
            for i in range(n):
                s, d = rng.choice(symbols(model.basis[i], cplx))
                ops.append(Op(s, d, one))
    rng.shuffle(ops)
    return style, ops


def int_state(rng, nprng, model, qn, cplx):
    st = np.random.get_state()
    np.random.seed(int(nprng.integers(0, 2 ** 31 - 1)))
    try:
        for attempt in range(6):
            try:
                mps = Mps.random(model, qn, rng.randint(1, 3) + attempt, percent=1.0)
                break
            except FloatingPointError:
                if attempt == 5:
                    raise
    finally:
        np.random.set_state(st)
    if cplx:
        mps = mps.to_complex()
    for i in range(len(mps)):
        a = np.array(mps[i].array)
        mask = a != 0
        new = nprng.integers(1, 3, size=a.shape) * nprng.choice([-1, 1], size=a.shape)
        if cplx:
            new = new + 1j * nprng.integers(-2, 3, size=a.shape)
        mps[i] = np.where(mask, new, 0).astype(complex if cplx else float)
    return mps


def make_case(seed, idx):
    rng = random.Random("c07tie-%d-%d" % (seed, idx))
    nprng = np.random.default_rng([seed, idx, 77])
    n = rng.randint(1, 4)
    kind = rng.choice(["free", "free", "elec"])
    basis = []
    for i in range(n):
        if kind == "free":
            basis.append(BasisHalfSpin(i) if rng.random() < 0.7 else BasisSHO(i, 1.0, rng.randint(2, 3)))
        else:
            basis.append(BasisSimpleElectron(i) if (rng.random() < 0.7 or i == 0) else BasisSHO(i, 1.0, 2))
    model = Model(basis, [])
    cplx = rng.random() < 0.4
    ne = sum(isinstance(b, BasisSimpleElectron) for b in basis)
    qn = 0 if kind == "free" else rng.randint(0, ne)
    ket = int_state(rng, nprng, model, qn, cplx)
    bra_mode = rng.choice(["default", "other"])
    if bra_mode == "default":
        bra = ket.conj()
    else:
        qn_b = qn if kind == "free" or rng.random() < 0.5 else rng.randint(0, ne)
        bra = int_state(rng, nprng, model, qn_b, cplx)
    style, ops = op_list(rng, model, cplx)
    mpos = []
    skipped = 0
    for o in ops:
        try:
            m = Mpo(model, o)
        except Exception:
            skipped += 1
            continue
        if all(is_int_array(x.array) for x in m):
            mpos.append(m)
        else:
            skipped += 1
    if not mpos:
        return None
    # ---- implementation
    one = [val(ket.expectation(m, self_conj=bra)) for m in mpos]
    fast = [val(v) for v in ket.expectations(mpos, self_conj=bra)]
    slow = [val(v) for v in ket.expectations(mpos, self_conj=bra, opt=False)]
    # the planning functions called directly with the same hash lists
    hash_to_obj = {}
    mpos_hash = []
    for m in mpos:
        hs = []
        for x in m:
            h = hash(x)
            hash_to_obj.setdefault(h, x)
            hs.append(h)
        mpos_hash.append(hs)
    ld = _construct_freq_environ(mpos_hash, hash_to_obj, ket, "L", bra)
    rd = _construct_freq_environ(mpos_hash, hash_to_obj, ket, "R", bra)
    split = []
    for m in mpos:
        _, li = _get_freq_environ(ld, m, "L", np.inf)
        _, ri = _get_freq_environ(rd, m, "R", len(m) - li - 1)
        split.append([int(li), int(ri)])

    def envs(d):
        out = []
        for k, v in d.items():
            if k == ():
                continue
            a = np.asarray(v)
            flat = [val(z) for z in a.ravel()]
            out.append({"shape": list(a.shape), "flat": flat})
        return out
    # density-operator (rank-4) form: integer MpDm with a non-trivial ancilla, single expectations and the fast path
    dm = None
    if kind == "free" and rng.random() < 0.5:
        from renormalizer.mps import MpDm

        def int_mpdm(src):
            import warnings
            with warnings.catch_warnings():
                warnings.simplefilter("ignore")      # from_mps builds real sites; every entry is overwritten below
                d = MpDm.from_mps(src)
            if cplx:
                d = d.to_complex()
            for i in range(len(d)):
                sh = (src[i].shape[0], src[i].shape[1], src[i].shape[1], src[i].shape[2])
                new = nprng.integers(-2, 3, size=sh).astype(float)
                if cplx:
                    new = new + 1j * nprng.integers(-1, 2, size=sh)
                d[i] = new
            return d
        dket = int_mpdm(ket)
        dbra = dket.conj() if bra_mode == "default" else int_mpdm(bra)
        sub = mpos[:4]
        d1 = dket.calc_1site_rdm()
        d2 = dket.calc_2site_rdm()
        drdm1, drdm2 = [], []
        for i in range(n):
            drdm1 += [val(z) for z in np.asarray(d1[i]).ravel()]
            for j in range(i + 1, n):
                drdm2 += [val(z) for z in np.asarray(d2[(i, j)]).ravel()]
        dm = {"bra": [[int(x.shape[-1]), table(x.array, cplx)] for x in dbra],
              "ket": [[int(x.shape[-1]), table(x.array, cplx)] for x in dket],
              "nops": len(sub),
              "one": [val(dket.expectation(m, self_conj=dbra)) for m in sub],
              "fast": [val(v) for v in dket.expectations(sub, self_conj=dbra)],
              "rdm1": drdm1, "rdm2": drdm2}
    # occupations: values and the number-operator MPOs the code built and cached for them
    occ = None
    if not any(isinstance(b, BasisHalfSpin) for b in basis) or kind == "free":
        vals, sites, tabs = [], [], []
        try:
            if model.n_edofs > 0:
                ev = np.atleast_1d(ket.e_occupations)
                for dof, v, m in zip(model.e_dofs, ev, ket.model.mpos["e_occupations"]):
                    if all(is_int_array(x.array) for x in m):
                        vals.append(val(v)); sites.append(int(model.dof_to_siteidx[dof]))
                        tabs.append([[int(x.shape[0]), int(x.shape[-1]), table(x.array, cplx)] for x in m])
            if len(model.v_dofs) > 0:
                pv = np.atleast_1d(ket.ph_occupations)
                for dof, v, m in zip(model.v_dofs, pv, ket.model.mpos["ph_occupations"]):
                    if all(is_int_array(x.array) for x in m):
                        vals.append(val(v)); sites.append(int(model.dof_to_siteidx[dof]))
                        tabs.append([[int(x.shape[0]), int(x.shape[-1]), table(x.array, cplx)] for x in m])
        except Exception as e:
            occ = {"error": repr(e)}
        if occ is None and vals:
            occ = {"values": vals, "sites": sites, "mpos": tabs}
    r1 = ket.calc_1site_rdm()
    rdm1 = []
    for i in range(n):
        rdm1 += [val(z) for z in np.asarray(r1[i]).ravel()]
    r2 = ket.calc_2site_rdm()
    rdm2 = []
    for i in range(n):
        for j in range(i + 1, n):
            rdm2 += [val(z) for z in np.asarray(r2[(i, j)]).ravel()]
    case = {
        "idx": idx, "cplx": cplx, "style": style, "bra_mode": bra_mode, "skipped_ops": skipped, "n": n,
        "ps": [int(p) for p in ket.pbond_list],
        "bra": [[int(x.shape[-1]), table(x.array, cplx)] for x in bra],
        "ket": [[int(x.shape[-1]), table(x.array, cplx)] for x in ket],
        "ops": [[[int(hash(x)), int(x.shape[0]), int(x.shape[-1]), table(x.array, cplx)] for x in m] for m in mpos],
        "impl": {"one": one, "fast": fast, "slow": slow,
                 "planL": [list(map(int, k)) for k in ld if k != ()], "planR": [list(map(int, k)) for k in rd if k != ()],
                 "split": split, "envL": envs(ld), "envR": envs(rd), "rdm1": rdm1, "rdm2": rdm2},
        "dm": dm, "occ": occ,
    }
    return case


def main():
    pl = json.loads(sys.stdin.read() or "{}")
    seed, start, count = int(pl.get("seed", 0)), int(pl.get("start", 0)), int(pl.get("count", 10))
    cases = []
    errors = []
    for idx in range(start, start + count):
        try:
            c = make_case(seed, idx)
        except Exception as e:
            import traceback
            errors.append({"idx": idx, "error": repr(e), "tb": traceback.format_exc()[-1200:]})
            continue
        if c is not None:
            cases.append(c)
    # the result can be far larger than a pipe buffer (the caller reads the pipe only after exit): hand over a file
    import os
    import tempfile
    fd, path = tempfile.mkstemp(prefix="c07_tie_%d_%d_" % (seed, start), suffix=".json", dir="/tmp")
    with os.fdopen(fd, "w") as f:
        json.dump({"cases": cases, "errors": errors}, f)
    print("RESULT " + json.dumps({"file": path, "n": len(cases)}))


if __name__ == "__main__":
    main()
