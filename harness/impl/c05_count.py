"""C05 correspondence: run CompressConfig.compute_m_trunc of the real code on generated cases.

stdin : {"cases": [{"crit": "threshold|fixed|both", "thr": [p, q], "M": int, "max_dims": [ints] | null,
                    "length": int, "sigma": [[p, q], ...], "idx": int, "left": bool}, ...]}
stdout: RESULT {"m": [int | {"error": "IndexError"} ...]}
`max_dims` null means: no per-bond list, the config's set_bonddim(length) is called (global limit M).
"""
import json
import sys

import numpy as np

from renormalizer.utils import CompressConfig, CompressCriteria


def run(case):
    try:
        cc = CompressConfig(getattr(CompressCriteria, case["crit"]), threshold=case["thr"][0] / case["thr"][1],
                            max_bonddim=case["M"])
    except Exception as e:
        return {"error": type(e).__name__, "stage": "config"}
    if case["max_dims"] is not None:
        cc.max_dims = np.array(case["max_dims"], dtype=int)
    elif cc.bonddim_should_set:
        cc.set_bonddim(case["length"])
    sigma = np.array([p / q for p, q in case["sigma"]], dtype=float)
    if case.get("norm") is not None:
        # exact-tie cases are meaningful only if the floating-point norm is the exact rational norm
        import scipy.linalg
        if float(scipy.linalg.norm(sigma)) != case["norm"][0] / case["norm"][1]:
            return {"skip": "float norm inexact"}
    try:
        with np.errstate(all="ignore"):
            m = cc.compute_m_trunc(sigma, case["idx"], case["left"])
    except Exception as e:
        return {"error": type(e).__name__, "stage": "compute"}
    if not float(m).is_integer():
        return {"error": "non-integer result %r" % (m,), "stage": "compute"}
    return int(m)


def replay(case):
    """exit status 1 while the kept count violates the property's invariants for this input"""
    from fractions import Fraction
    m = run(case)
    print("compute_m_trunc ->", m)
    if not isinstance(m, int):
        return 1
    sig = [Fraction(p, q) for p, q in case["sigma"]]
    thr = Fraction(*case["thr"])
    n2 = sum(x * x for x in sig)
    bad = []
    bond = case["idx"] + 1 if case["left"] else case["idx"]
    lim = case["max_dims"][bond] if case["max_dims"] is not None else case["M"]
    if sig and not (0 <= m <= len(sig)):
        bad.append("m outside [0, len]")
    if sig and lim >= 1 and m < 1:
        bad.append("no state kept")
    if case["crit"] != "threshold" and m > lim:
        bad.append("m exceeds the limit of the cut bond")
    if case["crit"] in ("threshold", "both") and sorted(sig, reverse=True) == sig:
        if any(x * x < thr * thr * n2 for x in sig[1:m]):
            bad.append("kept a value below the threshold")
        binding = case["crit"] == "both" and m >= lim
        if not binding and any(x * x > thr * thr * n2 for x in sig[max(m, 0):]):
            bad.append("discarded a value above the threshold")
    print("violations:", bad)
    return 1 if bad else 0


if __name__ == "__main__":
    payload = json.load(sys.stdin)
    print("RESULT " + json.dumps({"m": [run(c) for c in payload["cases"]]}))
