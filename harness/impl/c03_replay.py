"""Replay of one exported C03 step on the real code, judged by an independent dense NumPy reference.

replay(step) -> 0 if the implementation's result represents the dense result of the operation both as returned
and after ensure_left_canonical() / ensure_right_canonical() (which exercise the stored labels), else 1.
Used by harness/c03.py to turn a correspondence mismatch into a concrete failing input."""
import json
import sys

import numpy as np

from renormalizer import Model, Mps, Mpo, BasisMultiElectron
from renormalizer.mps import MpDm
from renormalizer.mps.backend import backend


def arr(t):
    v = np.array(t["v"], dtype=float)
    if t["c"]:
        return v[..., 0] + 1j * v[..., 1]
    return v


def build_model(step):
    basis = []
    for i, sq in enumerate(step["sigma"]):
        dofs = ["d%d_%d" % (i, k) for k in range(len(sq))]
        basis.append(BasisMultiElectron(dofs, [list(x) if len(x) > 1 else int(x[0]) for x in sq]))
    return Model(basis, [])


def build(model, d):
    cls = {"mps": Mps, "mpo": Mpo, "mpdm": MpDm}[d["kind"]]
    mp = cls()
    mp.model = model
    arrays = [arr(t) for t in d["tensors"]]
    co = complex(d["coeff"][0], d["coeff"][1])
    if any(np.iscomplexobj(a) for a in arrays) or co.imag != 0:
        mp.dtype = backend.complex_dtype
    for a in arrays:
        mp.append(a)
    mp.qn = [np.array(q, dtype=int).reshape(len(q), -1) for q in d["qn"]]
    mp.qnidx = d["qnidx"]
    mp.qntot = np.array(d["qntot"], dtype=int)
    mp.to_right = d["to_right"]
    if d["kind"] != "mpo":
        mp.coeff = co if co.imag != 0 else co.real
    return mp


def dense(mp):
    c = getattr(mp, "coeff", 1) if not isinstance(mp, Mpo) or isinstance(mp, MpDm) else 1
    if mp[0].ndim == 3:
        res = np.ones((1, 1))
        for mt in mp:
            a = np.asarray(mt.array)
            res = np.einsum("xl,lpr->xpr", res, a).reshape(-1, a.shape[2])
        return res[:, 0] * c
    res = np.ones((1, 1, 1))
    for mt in mp:
        a = np.asarray(mt.array)
        res = np.einsum("uvl,lpqr->upvqr", res, a)
        res = res.reshape(res.shape[0] * res.shape[1], res.shape[2] * res.shape[3], a.shape[3])
    return res[:, :, 0] * c


def operands_untouched(step, ins, refs, verbose):
    """after the call every operand must still represent the same object with the same labels (Mps.add / distance may
    fold the prefactor into the tensors: coeff * tensors is what must be unchanged)"""
    bad = 0
    if step["op"] == "move":
        return 0
    for i, (x, d) in enumerate(zip(ins, step["in"])):
        meta_now = ([np.asarray(q).reshape(len(q), -1).tolist() for q in x.qn], int(x.qnidx), [int(v) for v in np.asarray(x.qntot).reshape(-1)], bool(x.to_right))
        meta_was = (d["qn"], d["qnidx"], d["qntot"], d["to_right"])
        if meta_now != meta_was:
            bad = 1
            if verbose:
                print("operand %d: labels changed by the call: qntot %s -> %s, qnidx %s -> %s" % (i, meta_was[2], meta_now[2], meta_was[1], meta_now[1]))
        e = float(np.linalg.norm(dense(x) - refs[i]) / (np.linalg.norm(refs[i]) or 1.0))
        if not e <= 1e-9:
            bad = 1
            if verbose:
                print("operand %d: represented object changed by the call, relative error %.3e" % (i, e))
        try:
            y = x.copy()
            y.ensure_left_canonical()
            e = float(np.linalg.norm(dense(y) - refs[i]) / (np.linalg.norm(refs[i]) or 1.0))
            if not e <= 1e-9:
                bad = 1
                if verbose:
                    print("operand %d after the call + ensure_left_canonical(): relative error %.3e" % (i, e))
        except Exception as ex:
            bad = 1
            if verbose:
                print("operand %d after the call: ensure_left_canonical() raised %r" % (i, ex))
    return bad


def replay(step, verbose=True):
    model = build_model(step)
    ins = [build(model, d) for d in step["in"]]
    refs = [dense(x) for x in ins]
    op = step["op"]
    # a step exported from a run in which an EARLIER operation had already corrupted an operand is not a witness:
    # the operands must be valid inputs (their own labels describe them) before the call
    for i, x in enumerate(ins):
        try:
            y = x.copy()
            y.ensure_left_canonical()
            ok_in = float(np.linalg.norm(dense(y) - refs[i]) / (np.linalg.norm(refs[i]) or 1.0)) <= 1e-9
        except Exception:
            ok_in = False
        if not ok_in:
            if verbose:
                print("operand %d is not a valid input (its labels do not describe it before the call): step is not a witness" % i)
            return 0
    val = complex(*step["val"]) if "val" in step and step["val"] is not None else None
    if op in ("add", "opadd", "dmadd"):
        r = ins[0].add(ins[1]); ref = refs[0] + refs[1]
    elif op in ("scale", "opscale"):
        v = val if val.imag != 0 else val.real
        r = ins[0].scale(v); ref = refs[0] * v
    elif op in ("conj", "opconj"):
        r = ins[0].conj(); ref = refs[0].conj()
    elif op == "conj_trans":
        r = ins[0].conj_trans(); ref = refs[0].conj().T
    elif op in ("apply", "opop", "dmapply_l", "dmapply_r"):
        r = ins[0].apply(ins[1]); ref = refs[0] @ refs[1]
    elif op == "dm":
        r = MpDm.from_mps(ins[0]); ref = np.diag(refs[0])
        if ins[0].is_complex and not (r.is_complex and all(np.iscomplexobj(np.asarray(mt.array)) for mt in r)):
            if verbose:
                print("MpDm.from_mps of a complex state has dtype", r.dtype, "/ tensor dtype", np.asarray(r[0].array).dtype)
            return 1
    elif op == "move":
        ins[0].move_qnidx(step["dst"]); r = ins[0]; ref = refs[0]
    elif op == "distance":
        got = ins[0].distance(ins[1])
        exp = float(np.linalg.norm(refs[0] - refs[1]))
        if verbose:
            print("distance", got, "expected", exp)
        return 1 if (operands_untouched(step, ins, refs, verbose) or not abs(got - exp) <= 1e-7 * float(np.linalg.norm(refs[0]) + np.linalg.norm(refs[1]))) else 0
    elif op in ("dot", "opdot", "dmdot"):
        got = ins[0].dot(ins[1])
        c0 = getattr(ins[0], "coeff", 1) if step["in"][0]["kind"] != "mpo" else 1
        c1 = getattr(ins[1], "coeff", 1) if step["in"][1]["kind"] != "mpo" else 1
        exp = np.sum((refs[0] / c0) * (refs[1] / c1))
        ok = abs(got - exp) <= 1e-9 * float(np.linalg.norm(refs[0] / c0) * np.linalg.norm(refs[1] / c1))
        if verbose:
            print("dot", got, "expected", exp)
        return 1 if (operands_untouched(step, ins, refs, verbose) or not ok) else 0
    else:
        print("unknown op", op)
        return 0
    bad = operands_untouched(step, ins, refs, verbose)
    # relative to the magnitudes of the operands (sums may cancel); no absolute floor
    scale_ = float(sum(np.linalg.norm(x) for x in refs)) if op in ("add", "opadd", "dmadd") else float(np.linalg.norm(ref))
    scale_ = scale_ or 1.0
    # a result with an all-zero site tensor (e.g. the operator annihilates the state) cannot be canonicalised by the
    # code (assert mt.any()): it is only compared as returned
    zero_site = not all(np.asarray(mt.array).any() for mt in r)
    for how in (("",) if zero_site else ("", "L", "R")):
        try:
            x = r.copy()
            if how == "L":
                x.ensure_left_canonical()
            elif how == "R":
                x.ensure_right_canonical()
            e = float(np.linalg.norm(dense(x) - ref) / scale_)
            if verbose:
                print("after %r: relative error %.3e" % (how or "nothing", e))
            if not e <= 1e-9:
                bad = 1
        except Exception as ex:
            if verbose:
                print("after %r: raised %r" % (how or "nothing", ex))
            bad = 1
    # the labels of an operator result are also exercised by applying it to nothing else: canonicalise above
    return bad


if __name__ == "__main__":
    payload = json.loads(sys.stdin.read())
    out = []
    for st in payload["steps"]:
        try:
            out.append(replay(st, verbose=False))
        except Exception as ex:
            out.append(2)
    print("RESULT " + json.dumps({"codes": out}))
