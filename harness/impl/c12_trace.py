"""C12 event-trace logger: runs TTNS.evolve with the projector-splitting schemes on the given trees with
the local kernels, gauge moves and environment builders wrapped, and prints the logged event sequence.
Also logs the chain implementation's local-propagator calls (Mps._evolve_tdvp_ps) for linear trees.

event encoding (5 integers each):  [code, a, b, c, t]
  0 Evolve0 (a = child id of the bond, t = step in units of tau/2)   1 Evolve1 (a = node)   2 Evolve2 (a = child, b = parent)
  3 QRUp (a = child, b = parent)      4 AbsorbUp (a = child, b = parent)
  5 QRDown (a = parent, b = ichild, c = child)   6 AbsorbDown (a = parent, b = ichild, c = child)
  7 EnvChild (a = node)               8 EnvParent (a = parent, b = ichild, c = child)
  9 Split2 (a = child, b = parent, c = 1 if cano_parent)
"""
import json
import sys
import warnings

warnings.filterwarnings("ignore")   # scipy.stats.describe on identical Krylov step counts

import c12_lib as L   # imports renormalizer before numpy
import numpy as np
import renormalizer.tn.time_evolution as te
import renormalizer.tn.tree as tr
import renormalizer.mps.mps as mm
from renormalizer.mps import Mps, Mpo
from renormalizer.model import Model
from renormalizer.utils import EvolveConfig, EvolveMethod

LOG = {"ev": None, "ttns": None, "step": None, "in_init": False, "bad": [], "coeffs": set(), "pending": None}


def _idx(node):
    return int(LOG["ttns"].node_idx[node])


def _unit(tau):
    x = 2.0 * float(tau) / LOG["step"]
    r = round(x)
    if abs(x - r) > 1e-12:
        LOG["bad"].append("non-half step fraction %r" % x)
    return int(r)


def _emit(e):
    if LOG["ev"] is not None and not LOG["in_init"]:
        LOG["ev"].append([int(x) for x in e])


_orig = {}


def install():
    for name, code in (("evolve_0site", 0), ("evolve_1site", 1), ("evolve_2site", 2)):
        f = getattr(te, name)
        _orig[name] = f

        def wrap(*args, _f=f, _code=code):
            if _code == 0:
                ms, snode, ttns, ttno, ttne, coeff, tau = args
            else:
                snode, ttns, ttno, ttne, coeff, tau = args
            if LOG["ev"] is not None:
                LOG["coeffs"].add(complex(coeff))
                _emit([_code, _idx(snode), _idx(snode.parent) if _code == 2 else 0, 0, _unit(tau)])
                LOG["pending"] = complex(coeff) * tau
            return _f(*args)

        setattr(te, name, wrap)
    ek = te.expm_krylov
    _orig["expm_krylov"] = ek

    def ek_wrap(A, dt, v, *a, **k):
        if LOG["ev"] is not None:
            p = LOG["pending"]
            if p is None or abs(complex(dt) - p) > 1e-15 * max(1.0, abs(p)):
                LOG["bad"].append("expm_krylov dt %r differs from coeff*tau %r" % (dt, p))
            LOG["pending"] = None
        return ek(A, dt, v, *a, **k)

    te.expm_krylov = ek_wrap
    T = tr.TTNS

    def w_dtp(self, node, _f=T.decompose_to_parent):
        if self is LOG["ttns"]:
            _emit([3, _idx(node), _idx(node.parent), 0, 0])
        return _f(self, node)

    def w_mtp(self, node, v, _f=T.merge_to_parent):
        if self is LOG["ttns"]:
            _emit([4, _idx(node), _idx(node.parent), 0, 0])
        return _f(self, node, v)

    def w_dtc(self, node, ichild, _f=T.decompose_to_child):
        if self is LOG["ttns"]:
            _emit([5, _idx(node), ichild, _idx(node.children[ichild]), 0])
        return _f(self, node, ichild)

    def w_mtc(self, node, ichild, v, _f=T.merge_to_child):
        if self is LOG["ttns"]:
            _emit([6, _idx(node), ichild, _idx(node.children[ichild]), 0])
        return _f(self, node, ichild, v)

    from renormalizer.utils.configs import CompressConfig as _CC
    _cmt = _CC.compute_m_trunc

    def cmt_wrap(self, sigma, idx, left, _f=_cmt):
        if LOG.get("mtrunc") is not None:
            LOG["mtrunc"].append((int(idx), bool(left)))
        return _f(self, sigma, idx, left)

    _CC.compute_m_trunc = cmt_wrap

    def w_u2(self, node, tensor, m=None, percent=0, cano_parent=True, _f=T.update_2site):
        mine = self is LOG["ttns"]
        if mine:
            _emit([9, _idx(node), _idx(node.parent), 1 if cano_parent else 0, 0])
            LOG["mtrunc"] = []
        try:
            return _f(self, node, tensor, m, percent, cano_parent)
        finally:
            if mine:
                # the bond (node, parent) is governed by the limit stored at the NODE's index (bond_idx = idx, left=False)
                if m is None and LOG["mtrunc"] != [(_idx(node), False)]:
                    LOG["bad"].append("update_2site read a bond limit that is not the one of its own bond: node %d read %r" % (_idx(node), LOG["mtrunc"]))
                LOG["mtrunc"] = None

    T.decompose_to_parent, T.merge_to_parent, T.decompose_to_child, T.merge_to_child, T.update_2site = w_dtp, w_mtp, w_dtc, w_mtc, w_u2
    E = tr.TTNEnviron

    def w_init(self, ttns, ttno, build_environ=True, _f=E.__init__):
        mine = ttns is LOG["ttns"]
        if mine:
            LOG["in_init"] = True
        try:
            return _f(self, ttns, ttno, build_environ)
        finally:
            if mine:
                LOG["in_init"] = False

    def w_bc(self, snode, ttns, ttno, _f=E.build_children_environ_node):
        if ttns is LOG["ttns"]:
            _emit([7, _idx(snode), 0, 0, 0])
        return _f(self, snode, ttns, ttno)

    def w_bp(self, snode, ichild, ttns, ttno, _f=E.build_parent_environ_node):
        if ttns is LOG["ttns"]:
            _emit([8, _idx(snode), ichild, _idx(snode.children[ichild]), 0])
        return _f(self, snode, ichild, ttns, ttno)

    E.__init__, E.build_children_environ_node, E.build_parent_environ_node = w_init, w_bc, w_bp
    # the scheme functions receive the working copy: hook them to learn its identity
    for meth, name in ((EvolveMethod.tdvp_ps, "evolve_tdvp_ps"), (EvolveMethod.tdvp_ps2, "evolve_tdvp_ps2")):
        f = tr.EVOLVE_METHODS[meth]

        def wrap(ttns, ttno, coeff, tau, _f=f):
            LOG["ttns"] = ttns
            LOG["step"] = float(tau)
            LOG["ev"] = []
            LOG["coeffs"] = set()
            LOG["entry_coeff"] = complex(coeff)
            try:
                return _f(ttns, ttno, coeff, tau)
            finally:
                LOG["done"] = LOG["ev"]
                LOG["ev"] = None

        tr.EVOLVE_METHODS[meth] = wrap
    # chain: local propagator calls of Mps._evolve_tdvp_ps
    ekm = mm.expm_krylov

    def ekm_wrap(A, dt, v, *a, **k):
        if LOG.get("chain") is not None:
            fr = sys._getframe(1)
            loc = fr.f_locals
            if fr.f_code.co_name == "_evolve_tdvp_ps" and "imps" in loc:
                key = (loc["i"], loc["imps"])
                first = LOG["chain_seen"].get(key, 0) == 0
                LOG["chain_seen"][key] = LOG["chain_seen"].get(key, 0) + 1
                x = complex(dt) / (-1j * LOG["chain_dt"] / 2)
                if abs(x.imag) > 1e-12 or abs(x.real - round(x.real)) > 1e-12:
                    LOG["bad"].append("chain dt %r" % (dt,))
                to_right = bool(loc["mps"].to_right)
                LOG["chain"].append([1 if first else 0, int(loc["imps"]), 1 if to_right else 0, 0, int(round(x.real))])
        return ekm(A, dt, v, *a, **k)

    mm.expm_krylov = ekm_wrap


def run_tree_case(case, rng):
    bt, order = L.build_basis(case["tree"])
    ttno = L.TTNO(bt, L.build_terms(case["terms"]))
    np_seed = int(rng.integers(0, 2**31 - 1))
    LOG["np_seed"] = np_seed
    np.random.seed(np_seed)
    # purified state: the state lives on the tree with auxiliary space, the operator on the physical tree
    bts = bt.add_auxiliary_space() if case.get("aux") else bt
    ttns = L.random_state(bts, case.get("qntot", 0), int(case.get("m", 3)))
    L.config(ttns, case["method"], m=case.get("m", 3))
    tau = complex(case["tau"][0], case["tau"][1]) if case["tau"][1] != 0 else float(case["tau"][0])
    LOG["bad"] = []
    LOG["done"] = None
    new = ttns.evolve(ttno, tau)
    ok_coeff = True
    want = 1 + 0j if np.iscomplex(tau) else -1j
    for c in LOG["coeffs"] | {LOG["entry_coeff"]}:
        if abs(c - want) > 0:
            ok_coeff = False
    parents, _ = L.parent_table(case["tree"])
    impl_par = [(-1 if n.parent is None else int(new.node_idx[n.parent])) for n in new.node_list]
    return {"events": LOG["done"], "coeff_ok": ok_coeff, "bad": LOG["bad"][:5], "ids_ok": impl_par == parents,
            "step": LOG["step"], "n": len(parents)}


def run_chain_case(case, rng):
    """linear tree of n two-level sites vs Mps on the reversed site order (tree node k <-> chain site n-1-k)"""
    n = int(case["n"])
    kinds = case["kinds"]
    basis = [L.make_basis_set(kinds[i], i) for i in range(n)]
    terms = L.build_terms(case["terms"])
    model = Model(basis, terms)
    mpo = Mpo(model)
    np.random.seed(int(rng.integers(0, 2**31 - 1)))
    mps = Mps.random(model, int(case.get("qntot", 0)), int(case.get("m", 4)), percent=1.0)
    mps = mps.canonicalise().canonicalise()   # centre at site 0 or n-1
    if case.get("centre", "left") == "left":
        mps.ensure_right_canonical()
    else:
        mps.ensure_left_canonical()
    mps = mps.normalize("mps_and_coeff")
    mps.evolve_config = EvolveConfig(EvolveMethod.tdvp_ps)
    mps.evolve_config.ivp_solver = case.get("solver", "krylov")
    dt = float(case["dt"])
    qnidx0, to_right0 = int(mps.qnidx), bool(mps.to_right)
    LOG["chain"] = []
    LOG["chain_seen"] = {}
    LOG["chain_dt"] = dt
    LOG["bad"] = []
    new_mps = mps.evolve(mpo, dt)
    chain_ev = LOG["chain"]
    LOG["chain"] = None
    # the same state as a linear tree (from_mps reverses the site order)
    bt, ttns, ttno = tr.from_mps(mps)
    ttns.coeff = mps.coeff
    L.config(ttns, "ps", m=case.get("m", 4))
    bad_chain = list(LOG["bad"])
    LOG["bad"] = []
    LOG["done"] = None
    new_t = ttns.evolve(ttno, dt)
    order = list(model.basis)
    v_tree = np.asarray(new_t.todense(order)).ravel() * new_t.coeff
    v_chain = np.asarray(new_mps.todense()).ravel() * new_mps.coeff if hasattr(new_mps, "todense") else None
    diff = None if v_chain is None else float(np.linalg.norm(v_tree - v_chain))
    return {"chain_events": chain_ev, "tree_events": LOG["done"], "bad": (bad_chain + LOG["bad"])[:5], "n": n,
            "qnidx0": qnidx0, "to_right0": to_right0, "state_diff": diff, "bonds": [int(x) for x in new_mps.bond_dims]}


def main():
    payload = json.load(sys.stdin)
    rng = np.random.default_rng(int(payload.get("seed", 0)))
    install()
    out = {"tree": [], "chain": []}
    for case in payload.get("cases", []):
        try:
            out["tree"].append(run_tree_case(case, rng))
        except Exception as e:  # an exception on an input the API accepts is reported, not swallowed
            import traceback
            out["tree"].append({"error": repr(e), "tb": traceback.format_exc()[-1500:], "np_seed": LOG.get("np_seed")})
            LOG["ev"] = None
    for case in payload.get("chain_cases", []):
        try:
            out["chain"].append(run_chain_case(case, rng))
        except Exception as e:
            import traceback
            out["chain"].append({"error": repr(e), "tb": traceback.format_exc()[-1500:]})
            LOG["ev"] = None
            LOG["chain"] = None
    print("RESULT " + json.dumps(out))


main()
