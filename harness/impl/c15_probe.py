"""C15: re-observes, on every run, the input classes that the check excludes by decision, so that the
evidence states their current behaviour instead of silently omitting them.  Never raises an alarm."""
import json
import sys

import numpy as np

from renormalizer.model import Op, OpSum, Model
from renormalizer.model import basis as ba
from renormalizer.mps import Mpo


def obs(f):
    try:
        return repr(f())[:160]
    except Exception as e:  # noqa: BLE001
        return "raises %s: %s" % (type(e).__name__, str(e)[:100])


json.load(sys.stdin)
x, y, z = Op("X", 0, 1.0), Op("Y", 1, 1.0), Op("Z", 0, 1.0)
m = Model([ba.BasisHalfSpin("s0"), ba.BasisHalfSpin("s1")], [])
a = Op("X", "s0", 3.0)
out = {
    "B_list_times_negative_int_in_OpSum.product": obs(lambda: OpSum.product([[x, y], -3, z])),
    "B_same_with_OpSum_first": obs(lambda: OpSum.product([OpSum([x, y]), -3, z])),
    "A_Mpo_of_exactly_cancelling_terms": obs(lambda: float(np.linalg.norm(Mpo(m, [a, -a]).todense()))),
    "Op_div_scalar": obs(lambda: x / 2),
    "OpSum.product_empty": obs(lambda: OpSum.product([])),
}
print("RESULT " + json.dumps(out))
