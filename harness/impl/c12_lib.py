"""Shared helpers of the C12 implementation-side scripts (run under /venv/bin/python on /repo).

Tree description (JSON): {"b": [kind, ...], "c": [child, ...]}; kind in "s" (half spin), "e" (two-level
number-carrying site, quantum number 1 when occupied), "p2"/"p3" (harmonic mode with 2/3 levels);
"b": [] is a dummy node.  Degrees of freedom are numbered 0,1,... in pre-order; node ids are the pre-order
index (= ttns.node_idx).  Hamiltonian terms: [symbol, [dofs], factor].
"""
from renormalizer import Op, BasisHalfSpin, BasisSimpleElectron, BasisSHO   # before numpy (RENO_NUM_THREADS)
import numpy as np
import scipy.linalg

from renormalizer.model.basis import BasisDummy
from renormalizer.tn import BasisTree, TTNO, TTNS, TreeNodeBasis
from renormalizer.utils import EvolveConfig, EvolveMethod, CompressConfig, CompressCriteria

METHODS = {
    "vmf": EvolveMethod.tdvp_vmf,
    "pc": EvolveMethod.prop_and_compress_tdrk4,
    "ps": EvolveMethod.tdvp_ps,
    "ps2": EvolveMethod.tdvp_ps2,
}


def make_basis_set(kind, dof):
    if kind == "s":
        return BasisHalfSpin(dof)
    if kind == "e":
        return BasisSimpleElectron(dof)
    if kind == "p2":
        return BasisSHO(dof, omega=1.0, nbas=2)
    if kind == "p3":
        return BasisSHO(dof, omega=1.0, nbas=3)
    raise ValueError(kind)


def build_basis(desc):
    """-> (BasisTree, list of non-dummy basis sets in pre-order)"""
    counter = [0]

    def rec(d):
        sets = []
        for k in d["b"]:
            sets.append(make_basis_set(k, counter[0]))
            counter[0] += 1
        node = TreeNodeBasis(sets if sets else None)
        for c in d["c"]:
            node.add_child(rec(c))
        return node

    bt = BasisTree(rec(desc))
    order = [b for b in bt.basis_list if not isinstance(b, BasisDummy)]
    return bt, order


def build_terms(terms):
    return [Op(sym, dofs if len(dofs) > 1 else dofs[0], float(f)) for sym, dofs, f in terms]


def config(ttns, method, m=None, rtol=1e-10, atol=1e-12):
    ttns.evolve_config = EvolveConfig(METHODS[method], ivp_rtol=rtol, ivp_atol=atol, force_ovlp=False)
    if m is None:
        ttns.compress_config = CompressConfig(CompressCriteria.fixed, max_bonddim=4096)
    else:
        ttns.compress_config = CompressConfig(CompressCriteria.fixed, max_bonddim=int(m))
    return ttns


def dense(ttns, order):
    return np.asarray(ttns.todense(order)).ravel() * ttns.coeff


def exact(H, psi, tau):
    """reference of TTNS.evolve(ttno, tau): real tau -> exp(-i tau H) psi; complex tau -> normalised exp(Im(tau) H) psi"""
    if np.iscomplex(tau):
        v = scipy.linalg.expm(complex(tau).imag * H) @ psi
        return v / np.linalg.norm(v)
    return scipy.linalg.expm(-1j * tau * H) @ psi


def parent_table(desc):
    """pre-order ids: -> (parents list, children lists)"""
    parents, children = [], []

    def rec(d, p):
        i = len(parents)
        parents.append(p)
        children.append([])
        if p >= 0:
            children[p].append(i)
        for c in d["c"]:
            rec(c, i)

    rec(desc, -1)
    return parents, children


def random_state(bt, qntot, m):
    """TTNS.random(bt, qntot, m); with a small bond limit and a quantum-number constraint the generator can select bond
    states that leave no admissible root block (0/0 -> FloatingPointError): that is a limitation of the random generator,
    not of the evolution, so fall back to truncating a full random state"""
    try:
        return TTNS.random(bt, int(qntot), m)
    except FloatingPointError:
        ttns = TTNS.random(bt, int(qntot), 256)
        ttns.compress_config = CompressConfig(CompressCriteria.fixed, max_bonddim=int(m))
        ttns.canonicalise()
        ttns.compress()
        ttns.normalize("ttns_and_coeff")
        return ttns
