"""C18 implementation runner for expm_krylov (runs under /venv/bin/python against the repo on PYTHONPATH).

stdin : {"seed": int, "tol": float, "cases": [{"id","n","bs","spec","mat","vec","phase":[re,im],"target":float,"vdtype"}, ...]}
stdout: RESULT {"results":[{id, exit, it, calls, lens, err, relerr, ortho, lanczos, error}, ...]}

`_expm_krylov` is wrapped: each call records the caller's loop index, buffer lengths and which of the three call
sites of the source it came from (by line number: 1st = full space, 2nd = breakdown, 3rd = convergence test).
Reference: exp(dt*A) v from the eigendecomposition A was built from (independent of the Lanczos code), cross-checked
with scipy.linalg.expm.  Error measure: ||res - ref|| / (||v|| * max_k |exp(dt*w_k)|)  (the forward error that a
backward-stable method can achieve; equals the plain relative error for imaginary dt).
"""
import inspect
import json
import re
import sys
import warnings

import renormalizer  # noqa: F401
import numpy as np
import scipy.linalg
from renormalizer.lib.krylov import krylov as K

SRC, START = inspect.getsourcelines(K.expm_krylov)
CALL_LINES = [START + i for i, l in enumerate(SRC) if re.search(r"\b_expm_krylov\(", l)]
REAL = K._expm_krylov
CALLS = []


def wrapped(alpha, beta, V, v_norm, dt):
    f = sys._getframe(1)
    loc = f.f_locals
    site = CALL_LINES.index(f.f_lineno) if f.f_lineno in CALL_LINES else -1
    CALLS.append({"site": site, "j": int(loc["j"]), "lenV": int(len(loc["V"])), "lenA": int(len(loc["alpha"])),
                  "lenB": int(len(loc["beta"])), "res_none": loc["res"] is None,
                  "alpha": np.array(alpha, copy=True), "beta": np.array(beta, copy=True), "V": np.array(V, copy=True),
                  "sl": [int(len(alpha)), int(len(beta)), int(V.shape[1])]})
    return REAL(alpha, beta, V, v_norm, dt)


K._expm_krylov = wrapped


def spectrum(rng, kind, n):
    if kind == "rand":
        return rng.standard_normal(n)
    if kind == "degenerate":
        return rng.integers(-2, 3, size=n).astype(float)
    if kind == "rankdef":
        return rng.standard_normal(n) * (rng.random(n) < 0.3)
    if kind == "twolevel":
        return np.where(rng.random(n) < 0.5, 1.0, -1.0)
    if kind == "zero":
        return np.zeros(n)
    if kind == "clustered":
        return np.round(rng.standard_normal(n), 1) + 1e-9 * rng.standard_normal(n)
    if kind == "wide":
        return np.linspace(-1, 1, n) ** 3
    raise ValueError(kind)


REAL_TRIDIAG = K.eigh_tridiagonal
FAULT = {"hits": 0}


def failing_tridiag(*a, **k):
    """injected fault: LAPACK non-convergence of eigh_tridiagonal -> the dense np.linalg.eigh fallback of _expm_krylov"""
    FAULT["hits"] += 1
    raise np.linalg.LinAlgError("injected: eigh_tridiagonal did not converge")


def run(case, seed):
    K.eigh_tridiagonal = failing_tridiag if case.get("fault") else REAL_TRIDIAG
    h0 = FAULT["hits"]
    try:
        out = run_inner(case, seed)
    finally:
        K.eigh_tridiagonal = REAL_TRIDIAG
    out["fault_hits"] = FAULT["hits"] - h0
    return out


def run_inner(case, seed):
    rng = np.random.default_rng([seed, case["id"]])
    n, bs = case["n"], case["bs"]
    w = spectrum(rng, case["spec"], n)
    if case["mat"] == "diag":
        Q = np.eye(n)
    elif case["mat"] == "real":
        Q, _ = np.linalg.qr(rng.standard_normal((n, n)))
    elif case["mat"] == "blockdiag":                       # small invariant subspaces: direct sum of <=3-dim blocks
        Q = np.zeros((n, n), dtype=complex)
        i = 0
        while i < n:
            k = min(int(rng.integers(1, 4)), n - i)
            q, _ = np.linalg.qr(rng.standard_normal((k, k)) + 1j * rng.standard_normal((k, k)))
            Q[i:i + k, i:i + k] = q
            i += k
    else:
        Q, _ = np.linalg.qr(rng.standard_normal((n, n)) + 1j * rng.standard_normal((n, n)))
    A = (Q * w) @ Q.conj().T
    A = (A + A.conj().T) / 2
    ev, evec = np.linalg.eigh(A)
    nrm = max(float(np.abs(ev).max()), 1e-300)
    scale = case["target"] / nrm if nrm > 1e-200 else 1.0
    dt = complex(case["phase"][0], case["phase"][1]) * scale
    vk = case["vec"]
    if vk == "rand":
        v = rng.standard_normal(n) + 1j * rng.standard_normal(n)
    elif vk == "eigvec":
        v = evec[:, int(rng.integers(0, n))].astype(complex)
    elif vk == "e0":
        v = np.zeros(n, dtype=complex); v[int(rng.integers(0, n))] = 1
    elif vk == "small":
        k = int(rng.integers(1, min(n, 3) + 1))
        v = evec[:, rng.choice(n, k, replace=False)] @ (rng.standard_normal(k) + 1j * rng.standard_normal(k))
    elif vk == "tiny":
        v = 1e-150 * (rng.standard_normal(n) + 1j * rng.standard_normal(n))
    elif vk == "huge":
        v = 1e150 * (rng.standard_normal(n) + 1j * rng.standard_normal(n))
    else:
        raise ValueError(vk)
    if case["vdtype"] == "real":
        v = np.ascontiguousarray(v.real if np.linalg.norm(v.real) > 0 else np.abs(v))
    v = np.asarray(v) * float(case.get("scale", 1.0))
    vhat, cfac = None, None
    if case.get("normval") is not None:
        # NORM stream: a unit vector vhat and the start vector c * vhat with |c| = normval (complex phase for complex data)
        vhat = v / np.linalg.norm(v)
        vhat = vhat / np.linalg.norm(vhat)
        cfac = float(case["normval"]) * (np.exp(1j * float(case.get("theta", 0.0))) if np.iscomplexobj(vhat) else 1.0)
        v = cfac * vhat
    amp = float(np.exp(np.max((dt * ev).real)))
    ref = evec @ (np.exp(dt * ev) * (evec.conj().T @ v))
    ref2 = scipy.linalg.expm(dt * A) @ v
    out = {"id": case["id"], "error": None, "warn": []}
    refgap = float(np.linalg.norm(ref - ref2) / (np.linalg.norm(v) * amp))
    out["refgap"] = refgap
    CALLS.clear()
    dt_arg = dt if dt.imag != 0 else float(dt.real)
    if case.get("dtform") == "complex0" and dt.imag == 0:
        dt_arg = complex(dt.real, 0.0)
    vin = v.copy()                      # the caller's array: handed to the routine as it is, must come back untouched
    with warnings.catch_warnings(record=True) as wl:
        warnings.simplefilter("always")
        try:
            res, it = K.expm_krylov(lambda x: A @ x, dt_arg, vin, bs)
        except Exception as e:                                  # noqa
            out["error"] = type(e).__name__ + ": " + str(e)[:100]
            return out
    out["input_unchanged"] = bool(vin.dtype == v.dtype and vin.shape == v.shape and vin.tobytes() == v.tobytes())
    first_calls = list(CALLS)
    # the same (unnormalised) array used again: a second call must give the same answer
    out["second_call_err"] = None
    try:
        with warnings.catch_warnings():
            warnings.simplefilter("ignore")
            res2, it2 = K.expm_krylov(lambda x: A @ x, dt_arg, vin, bs)
        out["second_call_err"] = float(np.linalg.norm(np.asarray(res2) - ref) / (np.linalg.norm(v) * amp))
        out["second_call_it"] = int(it2)
    except Exception as e:                                      # noqa
        out["second_call_err"] = "raised " + type(e).__name__
    # homogeneity (NORM stream): kernel(c * vhat) = c * kernel(vhat), purely relative
    out["homog"] = None
    if vhat is not None:
        try:
            with warnings.catch_warnings():
                warnings.simplefilter("ignore")
                ru, itu = K.expm_krylov(lambda x: A @ x, dt_arg, vhat.copy(), bs)
            ru = np.asarray(ru)
            out["homog"] = float(np.linalg.norm(np.asarray(res) - cfac * ru) / (abs(cfac) * np.linalg.norm(ru)))
            out["unit_it"] = int(itu)
        except Exception as e:                                      # noqa
            out["homog"] = "raised " + type(e).__name__
    CALLS[:] = first_calls
    out["warn"] = sorted(set(x.category.__name__ for x in wl))
    last = CALLS[-1]
    out["exit"] = last["site"]
    out["it"] = int(it)
    out["calls"] = [c["j"] for c in CALLS]
    out["sites"] = [c["site"] for c in CALLS]
    out["lens"] = [last["lenV"], last["lenA"], last["lenB"]]
    out["slices_ok"] = all(c["sl"] == [c["j"] + 1, c["j"], c["j"] + 1] for c in CALLS)
    res = np.asarray(res)
    out["err"] = float(np.linalg.norm(res - ref) / (np.linalg.norm(v) * amp))
    out["relerr"] = float(np.linalg.norm(res - ref) / np.linalg.norm(ref)) if np.linalg.norm(ref) > 0 else None
    # Lanczos relations on the logged alpha, beta, V of the exit call:  A V = V T + beta_m v_{m+1} e_m^T,  V^dagger V = I
    al, be, V = last["alpha"], last["beta"], last["V"]
    mm = len(al)
    T = np.diag(al) + np.diag(be, 1) + np.diag(be, -1)
    Rm = A @ V - V @ T
    sc = max(1.0, float(np.abs(ev).max()))
    out["lanczos_inner"] = float(np.abs(Rm[:, :mm - 1]).max() / sc) if mm > 1 else 0.0   # all but the last column vanish identically
    out["lanczos_last"] = float(np.linalg.norm(Rm[:, mm - 1]) / sc)                        # ~0 exactly in the breakdown exit
    out["ortho"] = float(np.abs(V.conj().T @ V - np.eye(mm)).max())
    # the returned vector is ||v|| * V * exp(dt*T) * e1 for the logged (alpha, beta, V)  (Model/Krylov.v: ret_vec)
    rv = float(np.linalg.norm(v)) * (V @ scipy.linalg.expm(dt * T)[:, 0])
    out["ret_gap"] = float(np.linalg.norm(res - rv) / (np.linalg.norm(v) * max(amp, float(np.exp(np.max((dt * al).real))) if mm else amp)))
    # hypotheses of krylov_return_fullspace on the logged V (orthonormal and complete) when that exit was taken
    out["complete"] = float(np.abs(V @ V.conj().T - np.eye(n)).max()) if (last["site"] == 0 and mm == n) else None
    return out


def emit(payload, obj):
    """large results go through a file (the parent reads the pipe only after exit: a full pipe would block)"""
    if payload.get("out"):
        with open(payload["out"], "w") as f:
            json.dump(obj, f)
        print("RESULT " + json.dumps({"file": payload["out"]}))
    else:
        print("RESULT " + json.dumps(obj))


def main():
    payload = json.loads(sys.stdin.read())
    out = [run(c, payload["seed"]) for c in payload["cases"]]
    emit(payload, {"results": out, "call_lines": CALL_LINES})


main()
