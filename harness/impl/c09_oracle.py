"""C09 dense oracle (the failing-input search; runs on every invocation).

Reference: scipy.linalg.expm(-i H t) psi with an independently built dense H (c09_lib).  For every evolution
scheme of Mps.evolve, on small models with a bond limit sufficient to hold the result:
  order      one-step error e(dt) for dt over more than two decades; schemes of order p must show
             e(dt)/e(dt/2) >= 2^(p+1-0.7) wherever the error is well above rounding and ||H||dt <= 0.5, and
             e <= 10 (||H|| dt)^(p+1); schemes that are exact at sufficient bond dimension (PS, PS2, VMF) must
             stay below the local solver's tolerance
  solver     krylov vs RK45 local solver give the same result (within the ODE tolerance)
  adaptive   adaptive stepping (incl. runs that start with a rejected step) stays within 10 x rtol x (#sub-steps) of exact
  split      a sequence of calls switching scheme and step vs exact, error <= sum of the per-call bounds
  gauge      right/left canonical, over-complete bonds (Mps.random raw), expanded, operator-applied, complex, MpDm form
  ps1        norm and energy drift of the one-site projector splitting at SMALL bond dimension <= 1e-8
  dims       bond dimensions <= configured limit (criteria fixed / both)
  callable   time-dependent Hamiltonian callable (VMF) vs dense ODE reference

payload: {seed, shard, nshards, tier}    result: {records, failures (classified by key)}
"""
import logging
import time
import numpy as np
import scipy.integrate as sint
from c09_lib import *

P = read_payload()
SEED = P["seed"] % (2 ** 31)
SHARD, NSH = int(P.get("shard", 0)), int(P.get("nshards", 1))
TIER = P.get("tier", "quick")
T0 = time.time()
BUDGET = float(P.get("budget_s", 150))

records = []
failures = {}          # key -> list of records


def fail(key, rec):
    failures.setdefault(key, []).append(rec)


def rng(tag):
    import zlib
    return np.random.RandomState((SEED * 1000003 + zlib.crc32(tag.encode())) % (2 ** 31))


# ---------------------------------------------------------------------------------------- scheme table
RK_ORDERS = {"Forward_Euler": 1, "midpoint_RK2": 2, "Heun_RK2": 2, "Ralston_RK2": 2, "Kutta_RK3": 3, "C_RK4": 4,
             "38rule_RK4": 4, "Fehlberg5": 5, "RKF45": 5, "Cash-Karp45": 5}
EMBEDDED = {"RKF45", "Cash-Karp45"}


def scheme_table():
    """(label, method, cfg, kind)  kind = ("order", p) | ("exact", tol)"""
    t = []
    for N in (1, 2, 3, 4, 5, 6):
        t.append(("taylor%d" % N, "prop_and_compress", {"taylor_order": N}, ("order", N)))
    t.append(("tdrk4", "prop_and_compress_tdrk4", {}, ("order", 4)))
    for name, p in RK_ORDERS.items():
        cfg = {"rk_solver": name}
        if name in EMBEDDED:
            cfg.update(adaptive=True, adaptive_rtol=1e300, guess_dt="DT")
        t.append(("tdrk/" + name, "prop_and_compress_tdrk", cfg, ("order", p)))
    # "solver precision": the Lanczos exponential stops at ~1e-8 relative; the ODE solver at rtol 1e-5 / atol 1e-8
    for solver, tol in (("krylov", 1e-7), ("RK45", 1e-4)):
        t.append(("ps/" + solver, "tdvp_ps", {"ivp_solver": solver}, ("exact", tol)))
        t.append(("ps2/" + solver, "tdvp_ps2", {"ivp_solver": solver}, ("exact", tol)))
    for m in ("tdvp_mu_vmf", "tdvp_vmf"):
        for fo in (True, False):
            t.append(("%s/ovlp%d" % (m, fo), m, {"force_ovlp": fo, "cfgmod": {"vmf_auto_switch": False}}, ("exact", 1e-4)))
    for solver in ("krylov", "RK45"):
        t.append(("cmf2/" + solver, "tdvp_mu_cmf", {"ivp_solver": solver}, ("order", 2)))
        t.append(("cmf1/" + solver, "tdvp_mu_cmf", {"ivp_solver": solver, "cfgmod": {"tdvp_cmf_midpoint": False}}, ("order", 1)))
        t.append(("cmf_trapz/" + solver, "tdvp_mu_cmf", {"ivp_solver": solver, "cfgmod": {"tdvp_cmf_c_trapz": True}}, ("order", 2)))
    return t


def run(st, mpo, method, cfg, dt, m_max=64, criteria="fixed", normalize=True):
    a = st.copy()
    cfg = dict(cfg)
    for k, v in list(cfg.items()):
        if v == "DT":
            cfg[k] = dt
    set_cfg(a, method, m_max=m_max, criteria=criteria, **cfg)
    return a.evolve(mpo, dt, normalize=normalize)


def ref_vec(h, psi, t):
    return sla.expm(-1j * h * t) @ psi


def make(kind, r, scale=1.0):
    if kind == "spin":
        n = int(r.choice([3, 4]))
        model, h, dims = spin_model(n, r, scale)
        return "spin%d" % n, model, h, 0
    nb = int(r.choice([2, 3]))
    model, h, dims, info = holstein_model(2, nb, r, scale)
    return "holstein2x%d" % nb, model, h, 1


DTS = [0.32 / 2 ** k for k in range(8)]        # 0.32 ... 0.0025 : more than two decades


def check_order(label, method, cfg, kind, mname, model, h, st, sname):
    mpo = Mpo(model)
    psi = dense_of(st)
    hn = float(np.linalg.norm(h, 2))
    errs = []
    for dt in DTS:
        if time.time() - T0 > 1.5 * BUDGET:
            return
        try:
            out = run(st, mpo, method, cfg, dt)
            e = float(np.linalg.norm(dense_of(out) - ref_vec(h, psi, dt)))
        except Exception as ex:
            rec = {"check": "order", "scheme": label, "model": mname, "state": sname, "dt": dt, "exc": repr(ex)[:300]}
            records.append(rec)
            fail("exception/" + label.split("/")[0], rec)
            return
        errs.append(e)
    rec = {"check": "order", "scheme": label, "model": mname, "state": sname, "normH": hn, "dts": DTS, "errs": errs}
    records.append(rec)
    if kind[0] == "exact":
        bad = [(dt, e) for dt, e in zip(DTS, errs) if not e <= kind[1]]
        if bad:
            rec["bad"] = bad[:3]
            fail("inexact/" + label, rec)
    else:
        bad = order_verdict(DTS, errs, kind[1], hn)
        if bad:
            rec["bad"] = bad[:4]
            fail("order/" + label, rec)


def check_solver(mname, model, h, st, sname):
    mpo = Mpo(model)
    for method, cm in (("tdvp_ps", None), ("tdvp_ps2", None), ("tdvp_mu_cmf", None), ("tdvp_mu_cmf", {"tdvp_cmf_midpoint": False}),
                       ("tdvp_mu_cmf", {"tdvp_cmf_c_trapz": True})):
        for dt in (0.3, 0.1, 0.02):
            outs = []
            try:
                for solver in ("krylov", "RK45"):
                    cfg = {"ivp_solver": solver}
                    if cm:
                        cfg["cfgmod"] = cm
                    outs.append(dense_of(run(st, mpo, method, cfg, dt)))
            except Exception as ex:
                rec = {"check": "solver", "scheme": method, "model": mname, "state": sname, "dt": dt, "exc": repr(ex)[:300]}
                records.append(rec)
                fail("exception/" + method, rec)
                continue
            d = float(np.linalg.norm(outs[0] - outs[1]))
            rec = {"check": "solver", "scheme": method, "cfgmod": cm, "model": mname, "state": sname, "dt": dt, "diff": d,
                   "normH": float(np.linalg.norm(h, 2))}
            records.append(rec)
            if not d <= 1e-4:
                fail("solver-dependence/" + method, rec)


class Cap(logging.Handler):
    def __init__(self):
        super().__init__(level=logging.DEBUG)
        self.acc = 0
        self.rej = 0

    def emit(self, record):
        m = record.msg if isinstance(record.msg, str) else ""
        if m.startswith("evolution not converged"):
            self.rej += 1
        elif m.startswith("evolution converged") or m.startswith("sub-step"):
            self.acc += 1


_lg = logging.getLogger("renormalizer.mps.mps")
_cap = Cap()
_lg.addHandler(_cap)
_lg.setLevel(logging.DEBUG)
_lg.propagate = False


ADAPTIVE = [("ps", "tdvp_ps", {}, (1e-4, 1e-6), 8.0), ("ps2", "tdvp_ps2", {}, (1e-4,), 8.0),
            ("cmf2", "tdvp_mu_cmf", {}, (1e-3,), 8.0),
            ("taylor", "prop_and_compress", {}, (1e-4, 1e-6), 32.0),
            ("tdrk/RKF45", "prop_and_compress_tdrk", {"rk_solver": "RKF45"}, (1e-4, 1e-6), 32.0),
            ("tdrk/Cash-Karp45", "prop_and_compress_tdrk", {"rk_solver": "Cash-Karp45"}, (1e-4, 1e-6), 32.0)]


def check_adaptive(mname, model, h, st, sname, r, which):
    """A trial step is accepted when p >= p_restart = 1/2, i.e. when the estimated local error is below
    accept_factor * rtol (2^order for the P&C schemes, 0.75/(1/2)^3 = 6 for step doubling): the bound on the
    global error is 10 x accept_factor x rtol x (number of accepted sub-steps)."""
    mpo = Mpo(model)
    psi = dense_of(st)
    T = float(r.choice([0.4, 0.7]))
    ref = ref_vec(h, psi, T)
    label, method, cfg, rtols, accf = ADAPTIVE[which]
    for rtol in rtols:
        for guess in (0.05, 2.0 * T):      # the second starts with the full step: rejected for tight rtol
            _cap.acc = _cap.rej = 0
            try:
                a = st.copy()
                set_cfg(a, method, m_max=64, adaptive=True, guess_dt=guess, adaptive_rtol=rtol, **cfg)
                out = a.evolve(mpo, T)
                e = float(np.linalg.norm(dense_of(out) - ref))
            except Exception as ex:
                rec = {"check": "adaptive", "scheme": label, "model": mname, "state": sname, "T": T, "rtol": rtol, "guess": guess, "exc": repr(ex)[:300]}
                records.append(rec)
                fail("exception/" + label, rec)
                continue
            nacc = max(1, _cap.acc)
            bound = 10 * accf * rtol * nacc + 1e-9
            rec = {"check": "adaptive", "scheme": label, "model": mname, "state": sname, "T": T, "rtol": rtol, "guess": guess,
                   "err": e, "accepted_msgs": _cap.acc, "rejected": _cap.rej, "bound": bound}
            records.append(rec)
            if not e <= bound:
                fail("adaptive/" + label + ("/after-rejection" if _cap.rej else ""), rec)


def call_bound(kind, hn, dt):
    if kind[0] == "exact":
        return kind[1]
    return 10 * (hn * dt) ** (kind[1] + 1) + 1e-9


def check_split(mname, model, h, st, sname, r, table):
    mpo = Mpo(model)
    psi = dense_of(st)
    hn = float(np.linalg.norm(h, 2))
    # (i) t split into two calls of the same scheme, (ii) a sequence switching scheme and step
    for trial in range(3):
        seq = []
        cur = st
        t_tot = 0.0
        bound = 0.0
        label = None
        try:
            for _ in range(int(r.choice([2, 3]))):
                label, method, cfg, kind = table[int(r.randint(len(table)))] if trial else table[3]
                dt = float(r.choice([0.01, 0.02, 0.04])) / (1.0 if kind[0] == "exact" or kind[1] >= 2 else 8.0)
                cur = run(cur, mpo, method, cfg, dt)
                seq.append((label, dt))
                t_tot += dt
                bound += call_bound(kind, hn, dt)
            e = float(np.linalg.norm(dense_of(cur) - ref_vec(h, psi, t_tot)))
        except Exception as ex:
            rec = {"check": "split", "model": mname, "state": sname, "seq": seq, "failing_call": label, "input_bond_dims": [int(x) for x in cur.bond_dims],
                   "exc": repr(ex)[:300]}
            records.append(rec)
            fail("exception/sequence", rec)
            continue
        rec = {"check": "split", "model": mname, "state": sname, "seq": seq, "err": e, "bound": bound}
        records.append(rec)
        if not e <= bound:
            fail("split-calls", rec)


def check_ps1_conservation(r):
    model, h, dims = spin_model(5, r)
    mpo = Mpo(model)
    for m in (2, 3):
        st = rand_state(model, r, 0, m, complex_=bool(m == 3))
        st.compress_config = CompressConfig(CompressCriteria.fixed, max_bonddim=m)
        st.canonicalise().compress()
        st.normalize("mps_and_coeff")
        for solver, tol in (("krylov", 1e-8),):
            a = st.copy()
            set_cfg(a, "tdvp_ps", m_max=m, ivp_solver=solver)
            psi = dense_of(a)
            n0 = float(np.linalg.norm(psi))
            e0 = float(np.real(psi.conj() @ h @ psi))
            worst_n = worst_e = 0.0
            maxdim = 0
            for step in range(6):
                a = a.evolve(mpo, float(r.choice([0.05, 0.1, 0.2])), normalize=False)
                v = dense_of(a)
                worst_n = max(worst_n, abs(float(np.linalg.norm(v)) - n0))
                worst_e = max(worst_e, abs(float(np.real(v.conj() @ h @ v)) - e0))
                maxdim = max(maxdim, max(a.bond_dims))
            rec = {"check": "ps1", "m": m, "solver": solver, "norm_drift": worst_n, "energy_drift": worst_e, "max_bond": maxdim}
            records.append(rec)
            if not (worst_n <= tol and worst_e <= tol * max(1.0, abs(e0))):
                fail("ps1-conservation", rec)
            if maxdim > m:
                fail("bond-limit/tdvp_ps", rec)


def check_dims(mname, model, h, qn, r, table):
    mpo = Mpo(model)
    for m in (2, 3):
        st = rand_state(model, r, qn, m)
        if max(st.bond_dims) > m:
            continue
        for label, method, cfg, kind in table:
            for crit in ("fixed", "both"):
                try:
                    out = run(st, mpo, method, cfg, 0.05, m_max=m, criteria=crit)
                except Exception as ex:
                    rec = {"check": "dims", "scheme": label, "model": mname, "m": m, "criteria": crit, "exc": repr(ex)[:300]}
                    records.append(rec)
                    fail("exception/" + label.split("/")[0], rec)
                    continue
                bd = [int(x) for x in out.bond_dims]
                rec = {"check": "dims", "scheme": label, "model": mname, "m": m, "criteria": crit, "bond_dims": bd}
                records.append(rec)
                if max(bd) > m:
                    fail("bond-limit/" + label.split("/")[0], rec)


def mpdm_states(model, base, mpo, qn):
    """density-operator form of a pure state: (plain, expanded).  The plain embedding has the bond dimensions
    of the state, which hold the RESULT only for the propagate-and-compress schemes (they grow bonds); the TDVP
    schemes get the expanded one (expand_bond_dimension supports MpDm only for one exciton)."""
    plain = MpDm.from_mps(base)
    expanded = None
    if qn == 1:
        e = MpDm.from_mps(base)
        e.compress_config = CompressConfig(CompressCriteria.fixed, max_bonddim=64)
        expanded = e.expand_bond_dimension(hint_mpo=mpo, coef=1e-6)
    return plain, expanded


def is_tdvp(method):
    return method.startswith("tdvp")


def regauge(st, r, strength=0.5):
    """same dense vector, same bookkeeping flags, tensors no longer orthonormal: A_i -> A_i X, A_{i+1} -> X^-1 A_{i+1} with a random
    invertible X on every bond (block diagonal in the bond's quantum-number labels)"""
    g = st.copy()
    for i in range(len(g) - 1):
        d = g[i].shape[-1]
        lab = np.asarray(g.qn[i + 1]).reshape(d, -1)
        mask = (lab[:, None, :] == lab[None, :, :]).all(axis=2)
        x = np.eye(d) + strength * r.standard_normal((d, d)) * mask
        if np.iscomplexobj(np.asarray(g[i].array)):
            x = x + 1j * strength * r.standard_normal((d, d)) * mask       # complex gauge: the bond overlap matrices become complex Hermitian
        g[i] = np.tensordot(np.asarray(g[i].array), x, axes=(-1, 0))
        g[i + 1] = np.tensordot(np.linalg.inv(x), np.asarray(g[i + 1].array), axes=(-1, 0))
    return g


def noncanonical_family(model, qn, r, base, tag, full):
    """non-canonical representations with LEGAL flags built from `base` (left-canonical: to_right=False, centre last) and its
    right-canonical form (to_right=True, centre 0): raw Mpo.apply results, raw sums, re-gauged bonds"""
    out = []
    mpo = Mpo(model)
    b = base.copy()
    b.ensure_right_canonical()
    unit = lambda x: x.scale(1.0 / float(np.linalg.norm(dense_of(x))))     # evolve() renormalises the tensors: unit norm, no gauge change
    out.append((tag + "operator-applied", unit(mpo @ base)))
    out.append((tag + "regauged-left-flags", regauge(base, r)))
    out.append((tag + "regauged-right-flags", regauge(b, r)))
    other = rand_state(model, r, qn, 16, complex_=bool(tag))
    out.append((tag + "added-raw", unit(base.add(other.scale(0.7)))))
    other.ensure_right_canonical()
    out.append((tag + "added-raw-R", unit(b.add(other.scale(0.6)))))
    dofs = [bs.dofs[0] if isinstance(bs.dofs, (list, tuple)) else bs.dof for bs in model.basis]
    spin = all(isinstance(bs, ba.BasisHalfSpin) for bs in model.basis)
    vsites = [i for i, bs in enumerate(model.basis) if isinstance(bs, ba.BasisSHO)]
    cand = [0, len(model.basis) // 2, len(model.basis) - 1] if spin else [vsites[0], vsites[-1]]
    for t2, operand in (("R", b), ("L", base)):
        for k in cand:
            if spin:
                # mu^+ mu must not be a multiple of the identity (Z + 0.6 X alone squares to 1.36)
                mu = Mpo(model, Op("Z", dofs[k], 1.0) + Op("X", dofs[k], 0.6) + Op("I", dofs[k], 0.8))
                pre = Mpo(model, Op("Z", dofs[k], 2.5))
            else:
                mu = Mpo(model, Op(r"b^\dagger+b", dofs[k], 1.0) + Op(r"b^\dagger b", dofs[k], 0.7))
                pre = Mpo(model, Op(r"b^\dagger b", dofs[k], 2.5) + Op(r"b^\dagger+b", dofs[k], 2.5))
            for oname, o in ((("mu", mu), ("pref", pre)) if full else (("mu", mu),)):
                x = o @ operand
                if float(np.linalg.norm(dense_of(x))) > 1e-8:
                    out.append(("%sapplied-%s-%s-site%d" % (tag, t2, oname, k), unit(x)))
    return out


def gauges(model, qn, r):
    """(name, state) -- all representable exactly with the default limit.  The non-canonical family is built twice: from a real and
    from a COMPLEX state (complex non-orthonormal tensors make the bond overlap matrices complex Hermitian)."""
    np.random.seed(int(r.randint(0, 2 ** 31 - 1)))
    base = rand_state(model, r, qn, 16)
    out = [("left-canonical", base)]
    b = base.copy()
    b.ensure_right_canonical()
    out.append(("right-canonical", b))
    raw = Mps.random(model, qn, 20, percent=1.0)       # over-complete bonds straight from the constructor
    out.append(("random-raw", raw))
    mpo = Mpo(model)
    out.append(("expanded", base.copy().expand_bond_dimension(hint_mpo=mpo, coef=1e-10)))
    cbase = rand_state(model, r, qn, 16, complex_=True)
    out.append(("complex", cbase))
    cb = cbase.copy()
    cb.ensure_right_canonical()
    out.append(("complex-right-canonical", cb))
    out += noncanonical_family(model, qn, r, base, "", True)
    out += noncanonical_family(model, qn, r, cbase, "complex-", False)
    plain, expanded = mpdm_states(model, base, mpo, qn)
    out.append(("mpdm", plain))
    if expanded is not None:
        out.append(("mpdm-expanded", expanded))
    return out


def check_gauge(mname, model, h, qn, r, table):
    mpo = Mpo(model)
    hn = float(np.linalg.norm(h, 2))
    dt = 0.02
    for gname, st in gauges(model, qn, r):
        psi = dense_of(st)
        ref = ref_vec(h, psi, dt)
        for label, method, cfg, kind in table:
            if time.time() - T0 > 1.5 * BUDGET:
                return
            # density-operator form: P&C on the plain embedding; the projector-splitting schemes on the expanded one;
            # VMF / CMF on bonds filled with tiny weights are regularisation dominated and very slow (residual, notes)
            if (gname == "mpdm" and is_tdvp(method)) or (gname == "mpdm-expanded" and not method.startswith("tdvp_ps")):
                continue
            try:
                out = run(st, mpo, method, cfg, dt)
                e = float(np.linalg.norm(dense_of(out) - ref) / max(np.linalg.norm(psi), 1e-300))
            except Exception as ex:
                rec = {"check": "gauge", "scheme": label, "model": mname, "gauge": gname, "bond_dims": [int(x) for x in st.bond_dims],
                       "exc": repr(ex)[:300]}
                records.append(rec)
                fail("exception/%s/%s" % (label.split("/")[0], gname), rec)
                continue
            bound = call_bound(kind, hn, dt)
            rec = {"check": "gauge", "scheme": label, "model": mname, "gauge": gname, "err": e, "bound": bound}
            records.append(rec)
            if not e <= bound:
                fail("gauge/%s/%s" % (label.split("/")[0], gname), rec)


def check_negative(mname, model, h, st, sname, table):
    """backward propagation: evolve_dt < 0 (negative guess_dt where the adaptive branch is used) for every scheme and both local solvers"""
    mpo = Mpo(model)
    psi = dense_of(st)
    hn = float(np.linalg.norm(h, 2))
    for label, method, cfg, kind in table:
        if time.time() - T0 > 1.5 * BUDGET:
            return
        for dt in (-0.02, -0.16):
            try:
                if method == "prop_and_compress_tdrk":
                    cfg = dict(cfg, guess_dt="DT")      # check_valid_dt is applied to the non-adaptive branch as well
                out = run(st, mpo, method, cfg, dt)
                e = float(np.linalg.norm(dense_of(out) - ref_vec(h, psi, dt)))
            except Exception as ex:
                rec = {"check": "negative", "scheme": label, "model": mname, "state": sname, "dt": dt, "exc": repr(ex)[:300]}
                records.append(rec)
                fail("exception/negative/" + label.split("/")[0], rec)
                continue
            bound = call_bound(kind, hn, abs(dt)) if hn * abs(dt) <= 0.5 or kind[0] == "exact" else None
            rec = {"check": "negative", "scheme": label, "model": mname, "state": sname, "dt": dt, "err": e, "bound": bound}
            records.append(rec)
            if bound is not None and not e <= bound:
                fail("negative/" + label.split("/")[0], rec)


def check_negative_adaptive(mname, model, h, st, sname):
    mpo = Mpo(model)
    psi = dense_of(st)
    T = -0.4
    ref = ref_vec(h, psi, T)
    for label, method, cfg, rtols, accf in ADAPTIVE:
        if time.time() - T0 > 1.5 * BUDGET:
            return
        rtol = rtols[0]
        _cap.acc = _cap.rej = 0
        try:
            a = st.copy()
            set_cfg(a, method, m_max=64, adaptive=True, guess_dt=-0.05, adaptive_rtol=rtol, **cfg)
            out = a.evolve(mpo, T)
            e = float(np.linalg.norm(dense_of(out) - ref))
        except Exception as ex:
            rec = {"check": "negative-adaptive", "scheme": label, "model": mname, "exc": repr(ex)[:300]}
            records.append(rec)
            fail("exception/negative/" + label.split("/")[0], rec)
            continue
        bound = 10 * accf * rtol * max(1, _cap.acc) + 1e-9
        rec = {"check": "negative-adaptive", "scheme": label, "model": mname, "state": sname, "T": T, "rtol": rtol, "err": e, "bound": bound}
        records.append(rec)
        if not e <= bound:
            fail("negative/" + label.split("/")[0], rec)


def check_homogeneity(mname, model, h, st, sname, table):
    """evolve(c psi) = c evolve(psi): the factor c carried by the prefactor (normalize=True) and by the tensors (scale(); normalize=False so
    that it is not normalised away), c in {1e-3, 1e3, a phase}; compared with c x (dense exact result) within the scheme's own bound"""
    mpo = Mpo(model)
    psi = dense_of(st)
    hn = float(np.linalg.norm(h, 2))
    dt = 0.04
    ref = ref_vec(h, psi, dt)
    for label, method, cfg, kind in table:
        if time.time() - T0 > 1.5 * BUDGET:
            return
        bound = call_bound(kind, hn, dt)
        try:
            base_out = dense_of(run(st, mpo, method, cfg, dt, normalize=False))
        except Exception as ex:
            rec = {"check": "homogeneity", "scheme": label, "model": mname, "exc": repr(ex)[:300]}
            records.append(rec)
            fail("exception/homogeneity/" + label.split("/")[0], rec)
            continue
        for c in (1e-3, 1e3, np.exp(0.7j)):
            for where in ("coeff", "tensors"):
                try:
                    a = st.copy()
                    if where == "coeff":
                        a.coeff = a.coeff * c
                        out = dense_of(run(a, mpo, method, cfg, dt, normalize=True))
                        target = c * ref
                    else:
                        a = a.scale(c)
                        out = dense_of(run(a, mpo, method, cfg, dt, normalize=False))
                        target = c * ref
                    e = float(np.linalg.norm(out - target) / abs(c))
                    lin = float(np.linalg.norm(out - c * base_out) / abs(c)) if where == "tensors" else None
                except Exception as ex:
                    rec = {"check": "homogeneity", "scheme": label, "model": mname, "c": str(c), "where": where, "exc": repr(ex)[:300]}
                    records.append(rec)
                    fail("exception/homogeneity/" + label.split("/")[0], rec)
                    continue
                rec = {"check": "homogeneity", "scheme": label, "model": mname, "state": sname, "c": str(c), "where": where, "err_over_c": e,
                       "bound": bound, "dist_to_c_times_unit_run_over_c": lin}
                records.append(rec)
                if not e <= bound:
                    fail("homogeneity/" + label.split("/")[0], rec)


def check_homogeneity_adaptive(mname, model, h, st, sname):
    """the adaptive controllers measure a RELATIVE error: the accepted error must stay in the tolerance band whatever the norm of the state"""
    mpo = Mpo(model)
    psi = dense_of(st)
    T = 0.4
    ref = ref_vec(h, psi, T)
    for label, method, cfg, rtols, accf in ADAPTIVE:
        if time.time() - T0 > 1.5 * BUDGET:
            return
        rtol = rtols[-1]
        e1 = None
        for c in (1.0, 1e-3, 1e3):
            _cap.acc = _cap.rej = 0
            try:
                a = st.copy().scale(c)
                set_cfg(a, method, m_max=64, adaptive=True, guess_dt=0.05, adaptive_rtol=rtol, **cfg)
                out = a.evolve(mpo, T, normalize=False)
                e = float(np.linalg.norm(dense_of(out) - c * ref) / abs(c))
            except Exception as ex:
                rec = {"check": "homogeneity-adaptive", "scheme": label, "model": mname, "c": c, "exc": repr(ex)[:300]}
                records.append(rec)
                fail("exception/homogeneity/" + label.split("/")[0], rec)
                continue
            bound = 10 * accf * rtol * max(1, _cap.acc) + 1e-9
            if c == 1.0:
                e1 = e
            rec = {"check": "homogeneity-adaptive", "scheme": label, "model": mname, "state": sname, "c": c, "rtol": rtol, "err_over_c": e, "bound": bound,
                   "accepted_msgs": _cap.acc, "err_unit_norm": e1}
            records.append(rec)
            # same tolerance band as the unit-norm run: the decisions of the controller must not depend on the norm
            if not e <= bound or (e1 is not None and e > 20 * e1 + 1e-9):
                fail("homogeneity/" + label.split("/")[0], rec)


def check_large_step(r):
    """LARGE local dimension and LARGE step: a spin coupled to a boson with 60-100 levels, dt * ||H|| of 60-300 (local half steps of 30-150), full bond dimension.
    The projector-splitting schemes are exact for any step at full bond dimension (vs dense expm; norm and energy conserved); the Lanczos
    exponential then needs more than one block of Krylov vectors.  CMF: krylov and RK45 on the coefficient site must agree."""
    for order in ("spin-boson", "boson-spin", "spin-boson-spin"):
        nbas = int(r.choice([60, 80, 100]))
        w = float(r.uniform(0.8, 1.2))
        bos = ba.BasisSHO("v", w, nbas)
        names = {"spin-boson": ["s0", "v"], "boson-spin": ["v", "s0"], "spin-boson-spin": ["s0", "v", "s1"]}[order]
        basis = [bos if n == "v" else ba.BasisHalfSpin(n) for n in names]
        terms = [Op(r"b^\dagger b", "v", w)]
        for sname_ in [n for n in names if n != "v"]:
            terms += [Op("sigma_z", sname_, float(r.uniform(0.3, 0.7))), Op("sigma_x", sname_, float(r.uniform(0.2, 0.4))),
                      Op(r"sigma_z b^\dagger+b", [sname_, "v"], float(r.uniform(0.4, 0.9)))]
        model = Model(basis, terms)
        mpo = Mpo(model)
        h = np.asarray(mpo.todense())
        hn = float(np.linalg.norm(h, 2))
        np.random.seed(int(r.randint(0, 2 ** 31 - 1)))
        st = Mps.random(model, 0, 4, percent=1.0)
        st.canonicalise().canonicalise()
        st.normalize("mps_and_coeff")
        psi = dense_of(st)
        e0 = float(np.real(psi.conj() @ h @ psi))
        for dt in (60.0 / hn, 140.0 / hn, 300.0 / hn):     # the local solves run over dt/2: 30, 70, 150 times the spectral radius
            ref = ref_vec(h, psi, dt)
            for label, method in (("ps/krylov", "tdvp_ps"), ("ps2/krylov", "tdvp_ps2")):
                if time.time() - T0 > 1.5 * BUDGET:
                    return
                try:
                    out = dense_of(run(st, mpo, method, {"ivp_solver": "krylov"}, dt, m_max=8))
                    e = float(np.linalg.norm(out - ref))
                    dn = abs(float(np.linalg.norm(out)) - 1.0)
                    de = abs(float(np.real(out.conj() @ h @ out)) - e0)
                except Exception as ex:
                    rec = {"check": "large-step", "scheme": label, "order": order, "nbas": nbas, "dt_normH": dt * hn, "exc": repr(ex)[:300]}
                    records.append(rec)
                    fail("large-step/" + label, rec)
                    continue
                rec = {"check": "large-step", "scheme": label, "order": order, "nbas": nbas, "dt_normH": dt * hn, "err": e, "norm_drift": dn, "energy_drift": de}
                records.append(rec)
                if not (np.isfinite(e) and e <= 1e-6 and dn <= 1e-7 and de <= 1e-6 * max(1.0, abs(e0), hn)):
                    fail("large-step/" + label, rec)
        # CMF: the coefficient (last) site carries the krylov / RK45 choice; moderate-large step, both must agree
        dt = 20.0 / hn
        try:
            a = dense_of(run(st, mpo, "tdvp_mu_cmf", {"ivp_solver": "krylov"}, dt, m_max=8))
            b = dense_of(run(st, mpo, "tdvp_mu_cmf", {"ivp_solver": "RK45"}, dt, m_max=8))
            d = float(np.linalg.norm(a - b))
            rec = {"check": "large-step", "scheme": "cmf krylov vs RK45", "order": order, "nbas": nbas, "dt_normH": dt * hn, "diff": d}
            records.append(rec)
            if not (np.isfinite(d) and d <= 1e-3):
                fail("large-step/cmf", rec)
        except Exception as ex:
            rec = {"check": "large-step", "scheme": "cmf", "order": order, "nbas": nbas, "exc": repr(ex)[:300]}
            records.append(rec)
            fail("large-step/cmf", rec)


def check_nonuniform_limits(r):
    """per-bond limits (CompressConfig.max_dims non-uniform), criteria fixed / both: (i) limits = exact ranks: nothing may be truncated, the two-site
    sweep is exact, for both start directions; (ii) one bond reduced: every bond of the result obeys ITS OWN limit (PS2 and the P&C schemes)"""
    n = 6
    model, h, dims = spin_model(n, r)
    mpo = Mpo(model)
    exact = [1, 2, 4, 8, 4, 2, 1]
    st = rand_state(model, r, 0, 16, complex_=True)
    for start in ("left", "right"):
        s0 = st.copy()
        if start == "right":
            s0.ensure_right_canonical()
        psi = dense_of(s0)
        for crit in ("fixed", "both"):
            for lims, what in ((exact, "exact-ranks"), ([1, 2, 4, 3, 4, 2, 1], "bond3-reduced"), ([1, 2, 3, 8, 2, 2, 1], "bonds2,4-reduced")):
                for label, method, cfg in (("ps2/krylov", "tdvp_ps2", {"ivp_solver": "krylov"}), ("ps2/RK45", "tdvp_ps2", {"ivp_solver": "RK45"}),
                                           ("taylor4", "prop_and_compress", {}), ("tdrk4", "prop_and_compress_tdrk4", {})):
                    if time.time() - T0 > 1.5 * BUDGET:
                        return
                    if what == "exact-ranks" and not method.startswith("tdvp"):
                        continue
                    dt = 0.1
                    try:
                        a = s0.copy()
                        set_cfg(a, method, m_max=64, criteria=crit, **cfg)
                        a.compress_config.max_dims = np.array(lims)
                        out = a.evolve(mpo, dt)
                        bd = [int(x) for x in out.bond_dims]
                        e = float(np.linalg.norm(dense_of(out) - ref_vec(h, psi, dt)))
                    except Exception as ex:
                        rec = {"check": "nonuniform-limits", "scheme": label, "start": start, "criteria": crit, "limits": lims, "exc": repr(ex)[:300]}
                        records.append(rec)
                        fail("nonuniform-limits/" + label.split("/")[0], rec)
                        continue
                    rec = {"check": "nonuniform-limits", "scheme": label, "start": start, "criteria": crit, "limits": lims, "case": what, "bond_dims": bd, "err": e}
                    records.append(rec)
                    over = any(b_ > l_ for b_, l_ in zip(bd, lims))
                    inexact = what == "exact-ranks" and not e <= (1e-7 if "krylov" in label else 1e-4)
                    if over or inexact:
                        fail("nonuniform-limits/" + label.split("/")[0], rec)


CFG_FIELDS = ("method", "adaptive", "adaptive_rtol", "tdvp_cmf_midpoint", "tdvp_cmf_c_trapz", "reg_epsilon", "ivp_rtol", "ivp_atol",
              "ivp_solver", "force_ovlp", "vmf_auto_switch")


def check_reuse(mname, model, h, st, sname, table):
    """one input OBJECT used for several evolve calls: every call must give what a call on a fresh copy gives, the input's
    represented vector and the fields of its evolve_config (guess_dt excepted: adaptive runs rewrite it by design) must be
    unchanged; for the order-p schemes the one-step error from the re-used object must still show the order"""
    mpo = Mpo(model)
    hn = float(np.linalg.norm(h, 2))
    for label, method, cfg, kind in table:
        if time.time() - T0 > 1.5 * BUDGET:
            return
        cfg2 = dict(cfg)
        for k, v in list(cfg2.items()):
            if v == "DT":
                cfg2[k] = 0.04
        try:
            a = st.copy()
            set_cfg(a, method, m_max=64, **cfg2)
            psi = dense_of(a)
            before = {k: getattr(a.evolve_config, k) for k in CFG_FIELDS}
            errs, outs = [], []
            for dt in (0.04, 0.02, 0.04):
                fresh = a.copy()
                fresh.evolve_config = a.evolve_config.copy()
                fresh.compress_config = a.compress_config.copy()
                o_fresh = dense_of(fresh.evolve(mpo, dt))
                o = dense_of(a.evolve(mpo, dt))                       # the SAME object every time
                outs.append(float(np.linalg.norm(o - o_fresh)))
                errs.append(float(np.linalg.norm(o - ref_vec(h, psi, dt))))
            after = {k: getattr(a.evolve_config, k) for k in CFG_FIELDS}
            moved = float(np.linalg.norm(dense_of(a) - psi))
        except Exception as ex:
            rec = {"check": "reuse", "scheme": label, "model": mname, "state": sname, "exc": repr(ex)[:300]}
            records.append(rec)
            fail("exception/reuse/" + label.split("/")[0], rec)
            continue
        changed = sorted(k for k in CFG_FIELDS if before[k] != after[k])
        rec = {"check": "reuse", "scheme": label, "model": mname, "state": sname, "errs_dt_.04_.02_.04": errs, "diff_to_fresh_copy": outs,
               "config_fields_changed": changed, "input_moved": moved}
        records.append(rec)
        bad = moved > 1e-12 or bool(changed) or errs[2] > 1.0001 * errs[0] + 1e-12
        if kind[0] == "order" and errs[1] > 1e-10 and hn * 0.04 <= 0.5:
            bad = bad or (errs[0] / errs[1] < 2 ** (kind[1] + 0.3))      # at least the advertised order (one-step error: p+1); never an upper bound
        if bad:
            fail("reuse/" + label.split("/")[0], rec)


def check_callable(r):
    model, h, dims = spin_model(3, r)
    n = 3
    h1terms = [(float(r.uniform(-0.8, 0.8)), [("X", i)]) for i in range(n)]
    h1 = np.zeros_like(h)
    for f, ops in h1terms:
        mats = [np.eye(2) for _ in range(n)]
        for s_, d_ in ops:
            mats[d_] = mats[d_] @ SPIN_MAT[s_]
        h1 += f * kron_all(mats)
    ham0 = list(model.ham_terms)
    ham1 = [Op(" ".join(s_ for s_, _ in ops), [d_ for _, d_ in ops], f) for f, ops in h1terms]

    def mpo_t(t, *args, **kwargs):
        return Mpo(Model(model.basis, ham0 + [o * float(t) for o in ham1]))
    st = rand_state(model, r, 0, 8, complex_=True)
    psi = dense_of(st)
    T = 0.3
    sol = sint.solve_ivp(lambda t, y: -1j * ((h + t * h1) @ y), (0, T), psi.astype(complex), method="DOP853", rtol=1e-12, atol=1e-14)
    ref = sol.y[:, -1]
    for label, method, cfg, tol in (("tdvp_mu_vmf", "tdvp_mu_vmf", {}, 1e-4), ("tdvp_vmf", "tdvp_vmf", {}, 1e-4),
                                    ("tdrk4", "prop_and_compress_tdrk4", {}, None), ("tdrk/C_RK4", "prop_and_compress_tdrk", {"rk_solver": "C_RK4"}, None)):
        try:
            if tol is None:
                cur = st
                nst = 30
                for i in range(nst):
                    # each call sees times 0..dt: the callable is shifted by the caller
                    t_off = i * T / nst
                    cur = run(cur, (lambda t, *a, _o=t_off, **k: mpo_t(t + _o)), method, cfg, T / nst)
                e = float(np.linalg.norm(dense_of(cur) - ref))
                bound = 10 * nst * (float(np.linalg.norm(h, 2) + T * np.linalg.norm(h1, 2)) * T / nst) ** 5 + 1e-9
            else:
                out = run(st, mpo_t, method, cfg, T)
                e = float(np.linalg.norm(dense_of(out) - ref))
                bound = tol
        except Exception as ex:
            rec = {"check": "callable", "scheme": label, "exc": repr(ex)[:300]}
            records.append(rec)
            fail("exception/callable/" + label, rec)
            continue
        rec = {"check": "callable", "scheme": label, "err": e, "bound": bound}
        records.append(rec)
        if not e <= bound:
            fail("callable/" + label, rec)


# ---------------------------------------------------------------------------------------- work list
table = scheme_table()
jobs = []
for mi_, kind in enumerate(("spin", "holstein")):
    for li, entry in enumerate(table):
        jobs.append(("order", kind, li))
    jobs.append(("solver", kind, 0))
    for ai in range(len(ADAPTIVE)):
        if TIER != "quick" or (ai + mi_) % 2 == 0 or ADAPTIVE[ai][0].startswith("tdrk"):
            jobs.append(("adaptive", kind, ai))
    jobs.append(("split", kind, 0))
    for li in range(0, len(table), 6):
        jobs.append(("dims", kind, li))
        jobs.append(("gauge", kind, li))
    for li in range(0, len(table), 10):
        jobs.append(("reuse", kind, li))
        jobs.append(("negative", kind, li))
        jobs.append(("homogeneity", kind, li))
    jobs.append(("homogeneity-adaptive", kind, 0))
    jobs.append(("negative-adaptive", kind, 0))
jobs.append(("ps1", "spin", 0))
jobs.append(("large-step", "spin", 0))
jobs.append(("nonuniform-limits", "spin", 0))
jobs.append(("callable", "spin", 0))

mine = [j for i, j in enumerate(jobs) if i % NSH == SHARD]
JOBT = []
skipped = 0
for what, kind, li in mine:
    if time.time() - T0 > BUDGET:
        skipped += 1
        continue
    _tj = time.time()
    r = rng("%s/%s" % (kind, "model"))          # the same model / states in every shard
    mname, model, h, qn = make(kind, r)
    st_r = rand_state(model, r, qn, 16)
    st_c = rand_state(model, r, qn, 16, complex_=True)
    st_d, st_de = mpdm_states(model, st_r, Mpo(model), qn)
    r2 = rng("%s/%s/%d" % (what, kind, li))
    if what == "order":
        label, method, cfg, knd = table[li]
        check_order(label, method, cfg, knd, mname, model, h, st_c if li % 2 else st_r, "complex" if li % 2 else "real")
        if li % 5 == 0:
            if not is_tdvp(method):
                check_order(label, method, cfg, knd, mname, model, h, st_d, "mpdm")
            elif st_de is not None and method.startswith("tdvp_ps"):
                check_order(label, method, cfg, knd, mname, model, h, st_de, "mpdm-expanded")
    elif what == "solver":
        check_solver(mname, model, h, st_c, "complex")
    elif what == "adaptive":
        check_adaptive(mname, model, h, st_r, "real", r2, li)
    elif what == "split":
        check_split(mname, model, h, st_c, "complex", r2, table)
    elif what == "dims":
        check_dims(mname, model, h, qn, r2, table[li:li + 6])
    elif what == "gauge":
        check_gauge(mname, model, h, qn, r2, table[li:li + 6])
    elif what == "homogeneity":
        check_homogeneity(mname, model, h, st_c, "complex", table[li:li + 10])
    elif what == "homogeneity-adaptive":
        check_homogeneity_adaptive(mname, model, h, st_r, "real")
    elif what == "negative":
        check_negative(mname, model, h, st_c, "complex", table[li:li + 10])
    elif what == "negative-adaptive":
        check_negative_adaptive(mname, model, h, st_r, "real")
    elif what == "reuse":
        check_reuse(mname, model, h, st_c, "complex", table[li:li + 10])
    elif what == "large-step":
        check_large_step(r2)
    elif what == "nonuniform-limits":
        check_nonuniform_limits(r2)
    elif what == "ps1":
        check_ps1_conservation(r2)
    elif what == "callable":
        check_callable(r2)
    JOBT.append([what, kind, li, round(time.time() - _tj, 1)])

emit({"n": len(records), "failures": {k: v[:2] for k, v in failures.items()}, "nfail": {k: len(v) for k, v in failures.items()},
      "records": records if P.get("full") else [], "skipped": skipped, "jobt": JOBT, "wall": time.time() - T0,
      "summary": [{k: r_[k] for k in r_ if k not in ("dts",)} for r_ in records[:3]]})
