"""C20 large-graph oracle: cuts with more than 2**16 distinct partial terms on the larger side.

stdin : {"cases": [{"shape": "right"|"left", "npair": int, "n1": int, "extra": [[row, pair], ...], "algo": algo}, ...]}
stdout: RESULT {"res": [ {...per case...} ]}

Operator table (3 sites), as symbolic primary-operator indices handed to construct_symbolic_mpo (the function
Mpo.__init__ calls):
  shape "right":  A x (p_j, q_j) for j < npair (npair > 65536 distinct right partial terms at the first cut),
                  plus the extra entries  R_k x (p_j, q_j)  for [k, j] in `extra` (R_0 = A, R_1 = B, R_2 = C, ...)
  shape "left":   the mirror image  (p_j, q_j) x A ...  (> 65536 distinct left partial terms at the second cut;
                  exercises the csc branch of _decompose_graph)
The extras are chosen by the harness so that folding labels modulo 2**16 changes the minimum cover
(an entry in column 65536 + j next to one in column j).

Checks, all against the REAL incidence matrix:
 (a) observed inside the package (wrappers around symbolic_mpo._decompose_graph / bipartite_vertex_cover):
     the adjacency lists handed to the cover routine are exactly the rows (columns) of the sparse matrix;
     the returned cover touches every entry; its size = len(out_ops) = size of a maximum matching of the real
     matrix (SciPy on the real matrix; the matching is validated, so |matching| = |valid cover| certifies both);
 (b) independent of the package: at every cut, incidence matrix between distinct left and right partial terms of
     the TABLE, maximum matching (validated) -> the bond dimension must equal it and be <= min(#left, #right);
 (c) the symbolic MPO expanded back into a sum of products reproduces every term with its coefficient.
"""
import json
import sys
import time

import numpy as np
from scipy.sparse import csr_matrix
from scipy.sparse.csgraph import maximum_bipartite_matching

import renormalizer.mps.symbolic_mpo as sm
from renormalizer.model import Op

_obs = []
_orig_decompose = sm._decompose_graph
_orig_cover = sm.bipartite_vertex_cover


def matching_size_validated(inc):
    """maximum matching of a csr 0/1 matrix by SciPy, validated as a matching of that matrix"""
    inc = csr_matrix(inc)
    m = maximum_bipartite_matching(inc, perm_type="row")       # m[col] = row or -1
    cols = np.nonzero(m != -1)[0]
    rows = m[cols]
    assert len(set(rows.tolist())) == len(rows), "SciPy returned a non-injective table"
    assert all(inc[r, c] != 0 for r, c in zip(rows.tolist(), cols.tolist())), "SciPy matched a non-entry"
    return len(cols)


def _logged_cover(bigraph, algo="Hopcroft-Karp"):
    res = _orig_cover(bigraph, algo=algo)
    _obs[-1]["bigraph"] = [np.asarray(a).astype(np.int64) for a in bigraph]
    _obs[-1]["tables"] = ([bool(b) for b in res[0]], [bool(b) for b in res[1]])
    _obs[-1]["algo"] = algo
    return res


def _logged_decompose(term_row, term_col, non_red, *args, **kw):
    pattern = csr_matrix((np.ones(non_red.nnz), non_red.indices.copy(), non_red.indptr.copy()), shape=non_red.shape)
    _obs.append({"inc": pattern})
    out = _orig_decompose(term_row, term_col, non_red, *args, **kw)
    _obs[-1]["n_out"] = len(out[0])
    return out


sm._decompose_graph = _logged_decompose
sm.bipartite_vertex_cover = _logged_cover


def build_table(case):
    n1, npair = case["n1"], case["npair"]
    primary_ops = [Op.identity("s%d" % i) for i in range(3)]
    nR = 1 + max([k for k, _ in case["extra"]] + [0])
    big_site = "s0" if case["shape"] == "right" else "s2"
    idx_R = []
    for k in range(nR):
        idx_R.append(len(primary_ops))
        primary_ops.append(Op("R%d" % k, big_site))
    sa, sb = ("s1", "s2") if case["shape"] == "right" else ("s0", "s1")
    idx_p = list(range(len(primary_ops), len(primary_ops) + n1))
    primary_ops += [Op("p%d" % i, sa) for i in range(n1)]
    idx_q = list(range(len(primary_ops), len(primary_ops) + n1))
    primary_ops += [Op("q%d" % i, sb) for i in range(n1)]
    pair = lambda j: (idx_p[j // n1], idx_q[j % n1])
    rows = [(0, j) for j in range(npair)] + [tuple(e) for e in case["extra"]]
    if case["shape"] == "right":
        table = [(idx_R[k],) + pair(j) for k, j in rows]
    else:
        table = [pair(j) + (idx_R[k],) for k, j in rows]
    table = np.array(table, dtype=np.uint16)
    assert len(np.unique(table, axis=0)) == len(table)
    factor = 1.0 + 2.0 ** -20 * np.arange(len(table))
    return table, primary_ops, factor


def expand(out_ops_list):
    prev = [{(): 1.0}]
    for out_ops in out_ops_list[1:]:
        cur = []
        for opsum in out_ops:
            d = {}
            for o in opsum:
                in_idx, prim = int(o.symbol[0]), int(o.symbol[1])
                for key, val in prev[in_idx].items():
                    k2 = key + (prim,)
                    d[k2] = d.get(k2, 0.0) + val * o.factor
            cur.append(d)
        prev = cur
    assert len(prev) == 1
    return prev[0]


def run_case(case):
    t0 = time.time()
    algo = case["algo"]
    table, primary_ops, factor = build_table(case)
    out = {"algo": algo, "shape": case["shape"], "terms": int(len(table)), "problems": []}
    # (b) reference from the table, per cut
    exp, nL, nR = [1], [1], [1]
    for k in (1, 2):
        _, li = np.unique(table[:, :k], axis=0, return_inverse=True)
        _, ri = np.unique(table[:, k:], axis=0, return_inverse=True)
        li, ri = li.ravel(), ri.ravel()
        inc = csr_matrix((np.ones(len(table)), (li, ri)), shape=(li.max() + 1, ri.max() + 1))
        exp.append(matching_size_validated(inc))
        nL.append(int(li.max() + 1))
        nR.append(int(ri.max() + 1))
    exp.append(1); nL.append(1); nR.append(1)
    out.update(exp=exp, nL=nL, nR=nR)
    del _obs[:]
    try:
        res = sm.construct_symbolic_mpo(table, primary_ops, factor, algo=algo)
    except BaseException as e:      # noqa: BLE001
        out["problems"].append("construct_symbolic_mpo raised %s: %s" % (type(e).__name__, str(e)[:120]))
        out["wall"] = round(time.time() - t0, 2)
        return out
    out_ops_list = res[4]
    bd = [len(o) for o in out_ops_list]
    out["bd"] = bd
    if bd != exp:
        out["problems"].append("bond dims %s != minimum cover per cut %s (maximum matching of the real term-incidence matrix)" % (bd, exp))
    if any(b > min(l, r) for b, l, r in zip(bd, nL, nR)):
        out["problems"].append("bond dims %s exceed min(#left, #right) %s %s" % (bd, nL, nR))
    # (a) what the package handed to / got from the cover routine, against the real sparse matrix
    out["decompose_steps"] = []
    for ob in _obs:
        inc = ob["inc"]
        nrow, ncol = inc.shape
        step = {"shape": [int(nrow), int(ncol)], "n_out": ob.get("n_out")}
        if "bigraph" not in ob:
            out["problems"].append("bipartite_vertex_cover was not called in a _decompose_graph step")
            continue
        rows_u = nrow < ncol
        real = inc if rows_u else inc.tocsc()
        real_adj = [real.indices[real.indptr[i]:real.indptr[i + 1]].astype(np.int64) for i in range(real.shape[0] if rows_u else real.shape[1])]
        big = ob["bigraph"]
        same = len(big) == len(real_adj) and all(len(a) == len(b) and np.array_equal(np.sort(a), np.sort(b)) for a, b in zip(big, real_adj))
        step["bigraph_is_incidence"] = bool(same)
        if not same:
            bad = next((i for i, (a, b) in enumerate(zip(big, real_adj)) if len(a) != len(b) or not np.array_equal(np.sort(a), np.sort(b))), None)
            out["problems"].append("adjacency lists handed to bipartite_vertex_cover differ from the sparse matrix (%d x %d), first at U vertex %s: got labels up to %s, real labels up to %s"
                                   % (nrow, ncol, bad, int(max(big[bad])) if bad is not None and len(big[bad]) else None,
                                      int(max(real_adj[bad])) if bad is not None and len(real_adj[bad]) else None))
        ub, vb = ob["tables"]
        cu = {i for i, b in enumerate(ub) if b}
        cv = {i for i, b in enumerate(vb) if b}
        coo = inc.tocoo()
        us, vs = (coo.row, coo.col) if rows_u else (coo.col, coo.row)
        in_u = np.zeros(max(len(big), 1) + 1, dtype=bool)
        in_u[list(cu)] = True
        in_v = np.zeros(int(vs.max()) + 2 if len(vs) else 1, dtype=bool)
        in_v[[v for v in cv if v < len(in_v)]] = True
        uncovered = int(np.sum(~(in_u[us] | in_v[vs])))
        msz = matching_size_validated(inc)
        step.update(cover_size=len(cu) + len(cv), uncovered_entries=uncovered, max_matching_real=msz)
        if uncovered:
            out["problems"].append("the cover returned for a %d x %d incidence matrix leaves %d entries uncovered" % (nrow, ncol, uncovered))
        if len(cu) + len(cv) != msz or ob.get("n_out") != msz:
            out["problems"].append("cover size %d / len(out_ops) %s != maximum matching %d of the real %d x %d matrix" % (len(cu) + len(cv), ob.get("n_out"), msz, nrow, ncol))
        out["decompose_steps"].append(step)
    # (c) term reproduction
    expanded = expand(out_ops_list)
    ref = {tuple(int(x) for x in row): float(f) for row, f in zip(table, factor)}
    missing = [k for k in ref if k not in expanded]
    spurious = [k for k in expanded if k not in ref]
    wrong = [k for k in ref if k in expanded and abs(expanded[k] - ref[k]) > 1e-12 * abs(ref[k])]
    out.update(missing=len(missing), spurious=len(spurious), wrong_coeff=len(wrong))
    if missing or spurious or wrong:
        out["problems"].append("symbolic MPO does not reproduce the term list: %d missing (e.g. %s), %d spurious, %d wrong coefficients"
                               % (len(missing), missing[:2], len(spurious), len(wrong)))
    out["wall"] = round(time.time() - t0, 2)
    return out


def main():
    payload = json.load(sys.stdin)
    res = [run_case(c) for c in payload["cases"]]
    print("RESULT " + json.dumps({"res": res}))


main()
