"""C02 dense oracle, HISTORY stream: the TTNO must equal the dense sum of tensor products of the
CURRENT local matrices for every construction of a process, not only for the first one.

Inside ONE python process every sequence builds 3-5 TTNOs (and chain Mpos) over basis sets that share
dof names and sizes but differ in kind / parameters (BasisSHO omega and x0, BasisSineDVR range, spin vs
two-level SHO under the same dof name), on different trees and with different algorithms.  Each object is
compared with its own dense reference  sum_k c_k kron(local matrices)  (1e-9 relative); afterwards the
FIRST object is densified again (no retroactive change) and the first configuration is rebuilt (no
pollution in the other direction).

Local matrices of the reference: written out in NumPy for the unambiguous symbols (Pauli matrices,
b^dagger b, x = sqrt(1/2w)(b + b^dagger) + x0); for the others (x^2, p^2, sine-DVR) `op_mat` of a freshly
constructed basis object (never seen by any TTNO/Mpo); where both exist they must agree.

stdin : {"sequences": [{"id", "steps": [{"basis": [bspec], "tree": treespec, "algo", "terms": [...]}]}]}
bspec : ["spin", dof, 2] | ["sho", dof, nbas, omega, x0] | ["sdvr", dof, nbas, xi, xf]
tree  : {"builder": "linear"|"binary"|"t3ns"|"mctdh", "order": int, "contract": bool}
        | {"nested": node}, node = {"b": [index into basis | -1 - j for a dummy], "ch": [node]}
term  : {"ops": [[symbol, dof], ...], "num": int, "exp": int}      factor = num / 2**exp
       "scales": [{"id", "basis", "tree", "algo" (graph algorithm), "terms", "k"}]   -> scale covariance: terms * 2**-k
stdout: RESULT {"sequences": [{"id", "fails": [...], "n": int, "worst": float}], "scales": [...]}
Used verbatim (with the failing sequence inlined) as the replay snippet.
"""
import json
import sys

import renormalizer  # noqa: F401
import numpy as np
from renormalizer import Op, Model, Mpo, BasisHalfSpin, BasisSHO, BasisSineDVR
from renormalizer.model.basis import BasisDummy
from renormalizer.tn import BasisTree, TTNO, TreeNodeBasis

TOL = 1e-9
_DUMMY = [0]


def mk_basis(s):
    if s[0] == "spin":
        return BasisHalfSpin(s[1])
    if s[0] == "sho":
        return BasisSHO(s[1], omega=s[3], nbas=s[2], x0=s[4])
    if s[0] == "sdvr":
        return BasisSineDVR(s[1], s[2], s[3], s[4])
    raise ValueError(s[0])


def first_principles(s, sym):
    """local matrix written out in NumPy, or None when the symbol is left to a fresh op_mat"""
    if s[0] == "spin":
        m = {"sigma_x": [[0, 1], [1, 0]], "sigma_z": [[1, 0], [0, -1]], "sigma_+": [[0, 1], [0, 0]], "sigma_-": [[0, 0], [1, 0]],
             "sigma_y": [[0, -1j], [1j, 0]], "iY": [[0, 1], [-1, 0]], "X": [[0, 1], [1, 0]], "Z": [[1, 0], [0, -1]], "+": [[0, 1], [0, 0]], "-": [[0, 0], [1, 0]]}
        out = np.eye(2)
        for t in sym.split(" "):
            if t not in m:
                return None
            out = out @ np.array(m[t])
        return out
    if s[0] == "sho":
        n, w, x0 = s[2], s[3], s[4]
        b = np.diag(np.sqrt(np.arange(1, n)), k=1)
        if sym == "x":
            return np.sqrt(0.5 / w) * (b + b.T) + x0 * np.eye(n)
        if sym == r"b^\dagger b":
            return np.diag(np.arange(n)).astype(float)
    return None


def local_matrix(s, sym):
    fresh = np.asarray(mk_basis(s).op_mat(sym))          # a new basis object per call
    fp = first_principles(s, sym)
    if fp is not None and not np.allclose(fresh, fp, rtol=1e-12, atol=1e-12):
        raise AssertionError("op_mat(%r) of a fresh %s differs from the NumPy formula" % (sym, s))
    return fresh if fp is None else fp


def reference(step):
    from fractions import Fraction
    acc = {}                                    # identical products merged with exact coefficients
    for t in step["terms"]:
        key = tuple(sorted((s[1], " ".join(x for x, d in t["ops"] if d == s[1])) for s in step["basis"] if any(d == s[1] for x, d in t["ops"])))
        acc[key] = acc.get(key, Fraction(0)) + Fraction(t["num"]) * Fraction(2) ** (-t["exp"])
    tot = 0
    for key, c in acc.items():
        per = dict(key)
        full = np.eye(1)
        for s in step["basis"]:
            full = np.kron(full, local_matrix(s, per[s[1]]) if s[1] in per else np.eye(s[2]))
        tot = tot + float(c) * full
    return tot


def build_tree(spec, bl):
    if "builder" in spec:
        name = spec["builder"]
        if name == "linear":
            return BasisTree.linear(bl)
        if name == "binary":
            return BasisTree.binary(bl)
        if name == "t3ns":
            return BasisTree.t3ns(bl)
        return BasisTree.general_mctdh(bl, spec.get("order", 2), contract_primitive=spec.get("contract", False))

    def rec(node):
        bs = []
        for i in node["b"]:
            if i >= 0:
                bs.append(bl[i])
            else:
                _DUMMY[0] += 1
                bs.append(BasisDummy(("hist-dummy", _DUMMY[0])))
        n = TreeNodeBasis(bs)
        for c in node["ch"]:
            n.add_child(rec(c))
        return n
    return BasisTree(rec(spec["nested"]))


def relerr(a, b):
    sc = float(np.abs(b).max())
    return float(np.abs(np.asarray(a) - b).max() / (sc if sc > 0 else 1.0))


def build(step, with_mpo=True):
    bl = [mk_basis(s) for s in step["basis"]]
    terms = []
    for t in step["terms"]:
        toks = [(tok, d) for x, d in t["ops"] for tok in x.split(" ")]          # "b^\\dagger b" = two symbols on one DoF
        terms.append(Op(" ".join(tok for tok, d in toks), [d for tok, d in toks], t["num"] / 2.0 ** t["exp"]))
    ttno = TTNO(build_tree(step["tree"], bl), terms, algo=step["algo"])
    # the default algo="qr" of Mpo is not scale invariant (known finding of C01): callers at tiny scales skip it
    mpo = Mpo(Model(bl, terms)) if with_mpo else None
    return bl, ttno, mpo


def run_sequence(seq):
    fails = []
    worst = 0.0
    n = 0
    first = None
    for i, step in enumerate(seq["steps"]):
        try:
            ref = reference(step)
            bl, ttno, mpo = build(step)
            e_t = relerr(ttno.todense(bl), ref)
            e_m = relerr(mpo.todense(), ref)
        except Exception as e:
            fails.append({"step": i, "what": "raised", "error": "%s: %s" % (type(e).__name__, e)})
            continue
        n += 2
        worst = max(worst, e_t, e_m)
        if not e_t <= TOL:
            fails.append({"step": i, "what": "TTNO differs from the dense sum of krons of the current local matrices", "err": e_t,
                          "tree": step["tree"], "algo": step["algo"]})
        if not e_m <= TOL:
            fails.append({"step": i, "what": "chain Mpo differs from the dense sum of krons", "err": e_m})
        if first is None:
            first = (bl, ttno, ref, step)
    if first is not None:
        bl, ttno, ref, step = first
        try:
            e_again = relerr(ttno.todense(bl), ref)                 # the first object, unchanged by what followed
            bl2, ttno2, mpo2 = build(step)                          # the first configuration, rebuilt at the end
            e_rebuilt = relerr(ttno2.todense(bl2), ref)
            n += 2
            worst = max(worst, e_again, e_rebuilt)
            if not e_again <= TOL:
                fails.append({"step": 0, "what": "the FIRST TTNO changed retroactively", "err": e_again})
            if not e_rebuilt <= TOL:
                fails.append({"step": 0, "what": "the first configuration rebuilt at the end of the history differs from its dense reference", "err": e_rebuilt})
        except Exception as e:
            fails.append({"step": 0, "what": "re-check raised", "error": "%s: %s" % (type(e).__name__, e)})
    return {"id": seq["id"], "fails": fails, "n": n, "worst": worst}


def symbolic_signature(ttno):
    """per node: shape of the symbolic tensor and, per entry, the sorted (symbol string, dofs, factor) of its operators"""
    sig = []
    for mo in ttno.symbolic_ttno:
        ent = {}
        for idx, ops in np.ndenumerate(mo):
            # virtual DoF names carry a running counter that differs between the twins: compare them as one name
            ent[tuple(int(i) for i in idx)] = sorted((op.symbol, tuple("virtual" if isinstance(d_, tuple) and d_[:1] == ("hist-dummy",) else str(d_) for d_ in op.dofs),
                                                      float(op.factor)) for op in ops)
        sig.append((tuple(mo.shape), ent))
    return sig


def run_scale(case):
    """global scale covariance (graph algorithms): the term list times 2**-k must give exactly the scaled TTNO with the
    same symbolic structure; every error is relative to the operator's own scale, never absolute"""
    fails = []
    k = case["k"]
    scaled = dict(case)
    scaled["terms"] = [dict(t, exp=t["exp"] + k) for t in case["terms"]]
    try:
        ref_s = reference(scaled)
        bl_u, ttno_u, _ = build(case, with_mpo=False)
        bl_s, ttno_s, _ = build(scaled, with_mpo=False)
        du, ds = ttno_u.todense(bl_u), ttno_s.todense(bl_s)
        mpo_s = Mpo(Model(bl_s, ttno_s.terms), algo="Hopcroft-Karp").todense()      # not the default qr: C01 known finding
    except Exception as e:
        return {"id": case["id"], "fails": [{"what": "raised", "error": "%s: %s" % (type(e).__name__, e)}], "n": 0, "worst": 0.0}
    own = float(np.abs(ref_s).max())
    e_ref = float(np.abs(ds - ref_s).max() / own)
    e_twin = float(np.abs(ds - np.ldexp(du, -k)).max() / own)
    e_mpo = float(np.abs(ds - mpo_s).max() / own)
    if not e_ref <= 1e-12:
        fails.append({"what": "scaled TTNO differs from the dense sum of krons (relative to its own scale)", "err": e_ref, "k": k})
    if not e_twin <= 1e-12:
        fails.append({"what": "scaled TTNO is not 2**-k times its unscaled twin", "err": e_twin, "k": k})
    if not e_mpo <= 1e-12:
        fails.append({"what": "scaled TTNO differs from the chain Mpo (graph algorithm)", "err": e_mpo, "k": k})
    su, ss = symbolic_signature(ttno_u), symbolic_signature(ttno_s)
    same = len(su) == len(ss)
    if same:
        for (sh_u, en_u), (sh_s, en_s) in zip(su, ss):
            if sh_u != sh_s or set(en_u) != set(en_s):
                same = False
                break
            for key in en_u:
                a, b = en_u[key], en_s[key]
                if len(a) != len(b):
                    same = False
                    break
                # every operator of the twin reappears, its factor either unchanged or times 2**-k
                fa = sorted((x[0], x[1]) for x in a)
                fb = sorted((x[0], x[1]) for x in b)
                ra = sorted(x[2] for x in a)
                rb = sorted(x[2] for x in b)
                if fa != fb:
                    same = False
                    break
            if not same:
                break
    if not same:
        fails.append({"what": "symbolic structure of the scaled TTNO differs from its unscaled twin (operators appeared / disappeared)", "k": k})
    return {"id": case["id"], "fails": fails, "n": 4, "worst": max(e_ref, e_twin, e_mpo)}


def run_alphabet(case):
    """LARGE ALPHABET: hundreds of distinct elementary operator words per DoF (primary-operator indices beyond 255, row
    tuples whose packed codes exceed 65535), nodes with several basis sets / children, hundreds of terms -- against the
    dense sum of krons with exactly merged coefficients.  "terms" are compressed: [[ [word, dof], ... ], num, exp]."""
    step = {"basis": case["basis"], "tree": case["tree"], "algo": case["algo"],
            "terms": [{"ops": [[w, d] for w, d in t[0]], "num": t[1], "exp": t[2]} for t in case["terms"]]}
    fails = []
    try:
        ref = reference(step)
        bl, ttno, _ = build(step, with_mpo=False)
        d = ttno.todense(bl)
        err = relerr(d, ref) if np.abs(ref).max() > 0 else float(np.abs(d).max())
        nprim = sum(len(set(w for t in step["terms"] for w, dd in t["ops"] if dd == s[1])) for s in step["basis"])
    except Exception as e:
        return {"id": case["id"], "fails": [{"what": "raised", "error": "%s: %s" % (type(e).__name__, e), "algo": case["algo"]}], "n": 1, "worst": 0.0}
    tol = 1e-8 if case["algo"] == "qr" else 1e-9
    if not err <= tol:
        fails.append({"what": "TTNO over a large operator alphabet differs from the dense sum of krons", "err": err, "algo": case["algo"],
                      "n_terms": len(step["terms"]), "distinct_words": nprim})
    return {"id": case["id"], "fails": fails, "n": 1, "worst": err, "distinct_words": nprim}


def run_complex(case):
    """term lists with COMPLEX local factors (sigma_y, p) on several trees / groupings of the same basis sets.  Verdict per
    tree: either the construction is refused with an exception, or its dense operator equals the kron reference (which may
    be complex) -- never a silently different operator; so all accepted trees agree with each other."""
    fails = []
    verdicts = []
    ref = None
    for it, (tree, algo) in enumerate(zip(case["trees"], case["algos"])):
        step = {"basis": case["basis"], "tree": tree, "algo": algo, "terms": case["terms"]}
        if ref is None:
            ref = reference(step)
        try:
            bl, ttno, _ = build(step, with_mpo=False)
            d = np.asarray(ttno.todense(bl))
        except Exception as e:
            verdicts.append("refused: %s" % type(e).__name__)
            continue
        err = relerr(d, ref)
        verdicts.append("accepted, err %.2e" % err)
        if not err <= 1e-9:
            fails.append({"what": "a term list with complex local factors was accepted but the TTNO differs from the dense sum of krons",
                          "tree": tree, "algo": algo, "err": err, "verdicts": list(verdicts)})
    return {"id": case["id"], "fails": fails, "n": len(case["trees"]), "worst": 0.0, "verdicts": verdicts}


def run_payload(payload):
    return {"complexes": [run_complex(c) for c in payload.get("complexes", [])],
            "alphabets": [run_alphabet(c) for c in payload.get("alphabets", [])],
            "sequences": [run_sequence(s) for s in payload.get("sequences", [])],
            "scales": [run_scale(c) for c in payload.get("scales", [])]}


if __name__ == "__main__" and "C02_INLINE" not in globals():
    print("RESULT " + json.dumps(run_payload(json.load(sys.stdin))))
