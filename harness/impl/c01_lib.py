"""C01 implementation-side helpers (run with /venv/bin/python against /repo).

build(case)        -> (basis list, terms list of Op, offset Quantity)
ref_dense(case, order) -> dense reference  sum_k f_k kron_j M_kj - offset*I  built WITHOUT renormalizer
                      (own local matrices, own grouping of the symbols by site)
"""
import renormalizer  # noqa: F401  (must precede numpy for the thread settings)
import numpy as np

from renormalizer.model import Model, Op, OpSum
from renormalizer.model import basis as ba
from renormalizer.utils import Quantity


def site_dofs(i, s):
    if s.get("dofs"):                     # explicit DoF names (histories that regroup the same DoFs into other sites)
        return list(s["dofs"])
    if s["kind"] in ("multi", "multivac"):
        return ["m%d_%d" % (i, j) for j in range(s["ndof"])]
    return ["s%d" % i]


def make_basis(i, s):
    k = s["kind"]
    d = site_dofs(i, s)
    if k == "spin":
        return ba.BasisHalfSpin(d[0])
    if k == "sho":
        return ba.BasisSHO(d[0], omega=s["omega"], nbas=s["nbas"], x0=s.get("x0", 0.0))
    if k == "elec":
        return ba.BasisSimpleElectron(d[0])
    if k == "multi":
        return ba.BasisMultiElectron(d, [1] * len(d))
    if k == "multivac":
        return ba.BasisMultiElectronVac(d)
    raise ValueError(k)


def cplx(f):
    return complex(f[0], f[1]) if f[1] != 0 else float(f[0])


def build_ops(case, pool=None):
    """the Op objects of the term list; entries with the same "obj" id are the SAME Op instance (identical object
    repeated in the list); `pool` lets several constructions (history) share the objects"""
    pool = {} if pool is None else pool
    terms = []
    use_complex = any(t["f"][1] != 0 for t in case["terms"])
    for k, t in enumerate(case["terms"]):
        key = ("obj", t["obj"]) if "obj" in t else ("pos", k)
        if key not in pool:
            sym = " ".join(o[1] for o in t["ops"])
            dofs = [o[0] for o in t["ops"]]
            f = complex(t["f"][0], t["f"][1]) if use_complex else float(t["f"][0])
            pool[key] = Op(sym, dofs, f)
        terms.append(pool[key])
    return terms


def terms_argument(case, ops):
    """how the list is handed to the package: plain list, `part + extra + part` (OpSum arithmetic) or a list that
    contains the same OpSum object twice"""
    if case.get("opsum"):
        npart, nextra = case["opsum"]
        part = OpSum(ops[:npart])
        extra = OpSum(ops[npart:npart + nextra])
        assert len(ops) == 2 * npart + nextra
        if case.get("opsum_nested"):
            return [part] + list(extra) + [part]
        return part + extra + part
    return ops


def build(case, order=None, pool=None):
    sites = case["sites"]
    order = list(range(len(sites))) if order is None else order
    basis = [make_basis(i, sites[i]) for i in order]
    terms = terms_argument(case, build_ops(case, pool))
    if case.get("offset_unit"):
        # the offset is handed over with an explicit unit; case["offset"] is its value in a.u. as converted by the
        # HARNESS (own CODATA factors) and is what the dense reference / the model use
        off = Quantity(case["offset_value"], case["offset_unit"])
    else:
        off = Quantity(case.get("offset", 0.0))
    return basis, terms, off


def make_mpo(case, algo, order=None, pool=None):
    """Mpo for the case: terms given explicitly, or (case["ham"]) through Model(basis, ham_terms) + Mpo(model)"""
    from renormalizer.mps import Mpo
    basis, terms, off = build(case, order, pool)
    if case.get("ham"):
        model = Model(basis, terms)
        return Mpo(model, offset=off, algo=algo), model
    model = Model(basis, [])
    return Mpo(model, terms, offset=off, algo=algo), model


# ------------------------------------------------------------------ independent local matrices
def nbas_of(s):
    k = s["kind"]
    if k in ("spin", "elec"):
        return 2
    if k == "sho":
        return s["nbas"]
    if k == "multi":
        return s["ndof"]
    return s["ndof"] + 1


def _sho(s, n):
    b = np.diag(np.sqrt(np.arange(1, n)), k=1)
    return b, b.T.copy()


def local_matrix(i, s, ops):
    """ops: list of (dof, symbol) on site i, in the order they appear in the term."""
    k = s["kind"]
    n = nbas_of(s)
    if not ops:
        return np.eye(n)
    syms = [o[1] for o in ops]
    dofs = site_dofs(i, s)
    if all(x == "I" for x in syms):
        return np.eye(n)
    if k == "spin":
        tab = {"I": np.eye(2), "sigma_x": np.array([[0, 1.], [1, 0]]), "X": np.array([[0, 1.], [1, 0]]),
               "sigma_z": np.diag([1., -1.]), "Z": np.diag([1., -1.]),
               "sigma_y": np.array([[0, -1j], [1j, 0]]), "Y": np.array([[0, -1j], [1j, 0]]),
               "sigma_+": np.array([[0, 1.], [0, 0]]), "sigma_-": np.array([[0, 0.], [1, 0]])}
        m = np.eye(2)
        for x in syms:
            m = m @ tab[x]
        return m
    if k == "elec":
        tab = {"I": np.eye(2), r"a^\dagger": np.array([[0, 0.], [1, 0]]), "a": np.array([[0, 1.], [0, 0]])}
        m = np.eye(2)
        for x in syms:
            m = m @ tab[x]
        return m
    if k == "multivac":
        m = np.eye(n)
        for d, x in ops:
            j = dofs.index(d) + 1
            e = np.zeros((n, n))
            if x == r"a^\dagger":
                e[j, 0] = 1
            elif x == "a":
                e[0, j] = 1
            else:
                raise ValueError(x)
            m = m @ e
        return m
    if k == "multi":
        assert syms == [r"a^\dagger", "a"]
        e = np.zeros((n, n))
        e[dofs.index(ops[0][0]), dofs.index(ops[1][0])] = 1
        return e
    if k == "sho":
        w, x0 = s["omega"], s.get("x0", 0.0)
        big = n + 3
        b, bd = _sho(s, big)
        X = np.sqrt(0.5 / w) * (b + bd) + x0 * np.eye(big)
        P = 1j * np.sqrt(w / 2) * (bd - b)
        key = " ".join(syms)
        if key == "x":
            return X[:n, :n]
        if key == "x^2":
            return (X @ X)[:n, :n]
        if key == "p":
            return P[:n, :n]
        if key == "p^2":
            return np.real(P @ P)[:n, :n]
        if key == "b":
            return b[:n, :n]
        if key == r"b^\dagger":
            return bd[:n, :n]
        if key == r"b^\dagger b":
            return (bd @ b)[:n, :n]
        raise ValueError(key)
    raise ValueError(k)


def ref_dense(case, order=None):
    sites = case["sites"]
    order = list(range(len(sites))) if order is None else order
    dof2site = {}
    for i, s in enumerate(sites):
        for d in site_dofs(i, s):
            dof2site[d] = i
    dim = int(np.prod([nbas_of(sites[i]) for i in order]))
    tot = np.zeros((dim, dim), dtype=complex)
    for t in case["terms"]:
        grp = {}
        for d, x in t["ops"]:
            grp.setdefault(dof2site[d], []).append((d, x))
        m = np.ones((1, 1), dtype=complex)
        for i in order:
            m = np.kron(m, local_matrix(i, sites[i], grp.get(i, [])))
        tot += complex(t["f"][0], t["f"][1]) * m
    tot -= case.get("offset", 0.0) * np.eye(dim)
    return tot


def rel_err(a, b):
    scale = max(np.abs(b).max(), np.abs(a).max(), 1e-300)
    return float(np.abs(a - b).max() / scale)
