"""C17: exchanges of neighbouring sites on one-term and few-term operators with non-unit prefactors.
stdin: {"cases": [{"family": "spin"|"vib"|"qcstack", "sites": [...], "terms": [[symbols-per-factor, dofs, coeff], ...],
                   "plans": [[i, ...], ...], "swap_jw": bool}]}
  sites: ["spin", dof] | ["sho", dof, omega, nbas];  for "qcstack": {"eps": [...]} instead of terms (one case per one-term group).
Every plan starts from a freshly built Mpo; after EVERY exchange the dense operator is compared with an independent reference:
coeff * kron(textbook local matrices in the current site order)  (swap_jw False), or  G ref0 G^T  with G the product of the
fermionic exchanges (swap_jw True, spin chains over I/sigma_z/sigma_+/sigma_- only)."""
import functools
import json
import os
import sys
import tempfile
import traceback

import numpy as np

import c17_lib as L
from renormalizer.model import Model, Op, h_qc
from renormalizer.model.basis import BasisHalfSpin, BasisSHO
from renormalizer.mps import Mpo

SX = np.array([[0.0, 1.0], [1.0, 0.0]])
SZ = np.diag([1.0, -1.0])
SP = np.array([[0.0, 1.0], [0.0, 0.0]])
SM = SP.T.copy()
PAULI = {"sigma_x": SX, "X": SX, "sigma_z": SZ, "Z": SZ, "sigma_+": SP, "+": SP, "sigma_-": SM, "-": SM, "I": np.eye(2)}


def L_emit(obj):
    fd, path = tempfile.mkstemp(prefix="verif_c17_", suffix=".json", dir="/tmp")
    with os.fdopen(fd, "w") as f:
        json.dump(obj, f)
    print("RESULT " + json.dumps({"file": path}))


def sho_mats(omega, nbas):
    b = np.diag(np.sqrt(np.arange(1, nbas)), k=1)
    return {"x": np.sqrt(0.5 / omega) * (b + b.T), r"b^\dagger": b.T.copy(), "b": b, "I": np.eye(nbas)}


def build(case):
    """-> basis list, list of term lists (one Mpo each), local description [(coeff, {dof: matrix})], dims"""
    if case["family"] == "qcstack":
        eps = np.array(case["eps"], dtype=float)
        nsp = len(eps)
        sh, aseri = h_qc.int_to_h(np.diag(eps), np.zeros((nsp,) * 4))
        basis, groups = h_qc.qc_model(sh, aseri, stacked=True)
        dims = {b.dof: 2 for b in basis}
        number = SM @ SP
        out = []
        for grp in groups:
            if len(grp) != 1:
                raise ValueError("stacked group is not a single term")
            dof = grp[0].dofs[0]
            out.append((grp, [(float(eps[dof // 2]), {dof: number})]))
        return basis, out, dims
    basis, dims, table = [], {}, {}
    for s in case["sites"]:
        if s[0] == "spin":
            basis.append(BasisHalfSpin(s[1]))
            dims[s[1]] = 2
            table[s[1]] = PAULI
        else:
            basis.append(BasisSHO(s[1], s[2], s[3]))
            dims[s[1]] = s[3]
            table[s[1]] = sho_mats(s[2], s[3])
    terms, local = [], []
    for syms, dofs, coeff in case["terms"]:
        terms.append(Op(" ".join(syms), dofs, coeff))
        loc = {}
        for sy, d in zip(syms, dofs):
            loc[d] = loc.get(d, np.eye(dims[d])) @ table[d][sy]
        local.append((coeff, loc))
    return basis, [(terms, local)], dims


def reference(local, order, dims):
    tot = 0
    for coeff, loc in local:
        tot = tot + coeff * functools.reduce(np.kron, [loc.get(d, np.eye(dims[d])) for d in order])
    return tot


def one(case):
    out = {"case": case, "plans": []}
    basis0, ops, dims = build(case)
    for gi, (terms, local) in enumerate(ops):
        for plan in case["plans"]:
            basis = list(basis0)
            order = [b.dof for b in basis]
            n = len(order)
            plan = [i for i in plan if i < n - 1]
            rec = {"group": gi, "plan": plan, "nterms": len(terms), "steps": []}
            mpo = Mpo(Model(basis, terms))
            ref0 = reference(local, order, dims)
            scale = max(1.0, float(np.abs(ref0).max()))
            rec["initial"] = float(np.abs(mpo.todense() - ref0).max() / scale)
            G = np.eye(ref0.shape[0])
            for k, i in enumerate(plan):
                basis = basis.copy()
                basis[i], basis[i + 1] = basis[i + 1], basis[i]
                order[i], order[i + 1] = order[i + 1], order[i]
                try:
                    mpo.try_swap_site(Model(basis, terms), case["swap_jw"])
                except Exception:
                    tb = traceback.extract_tb(sys.exc_info()[2])[-1]
                    rec["raised"] = {"step": k, "pos": i, "where": "%s:%s" % (tb.name, tb.line), "exc": traceback.format_exc()[-300:]}
                    break
                X = mpo.todense()
                if case["swap_jw"]:
                    G = L.swap_mats(n, i)[1] @ G
                    ref = G @ ref0 @ G.T
                else:
                    ref = reference(local, order, dims)
                rec["steps"].append({"dev": float(np.abs(X - ref).max() / scale), "norm": float(np.linalg.norm(X)), "refnorm": float(np.linalg.norm(ref))})
            if rec["steps"] and "raised" not in rec:
                rec["probe"] = L.apply_probe(mpo, [1, 1] if case["family"] == "qcstack" else 0, len(plan))
            out["plans"].append(rec)
    return out


def main():
    payload = json.load(sys.stdin)
    res = []
    for c in payload["cases"]:
        try:
            res.append(one(c))
        except Exception:
            res.append({"case": c, "error": traceback.format_exc()[-1500:]})
    L_emit({"cases": res})


main()
