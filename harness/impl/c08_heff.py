"""C08 correspondence for Model/Heff.v: the local effective operator of the chain sweep on exact GAUSSIAN-INTEGER data
(complex entries with integer real and imaginary parts, so that a transposition / a lost conjugation is visible).
stdin {"cases": [...]} -> RESULT: for random small environments / operator tensors / masks / coefficient vectors the result of
  (a) get_ham_direct(...)[mask][:, mask] @ c          (direct solver's matrix)
  (b) hop_expr(...)(cvec2cmat(c))[mask]               (iterative solver's matrix-free product)
for one / two sites, with and without the two-layer (omega) operator, to be compared with heff1_masked / heff2_apply /
heff_omega1 / heff_omega2 evaluated by Coq over the Gaussian integers.  Complex numbers travel as [re, im]."""
import json
import sys
import types

import renormalizer  # noqa: F401
import numpy as np

from renormalizer.mps import gs as G
from renormalizer.mps.hop_expr import hop_expr
from renormalizer.mps.lib import cvec2cmat
from renormalizer.mps.matrix import asnumpy


def gi(x):
    a = np.asarray(x, dtype=complex)
    re, im = np.rint(a.real), np.rint(a.imag)
    if a.size and max(np.abs(a.real - re).max(), np.abs(a.imag - im).max()) > 1e-9:
        raise ValueError("non-integer result")

    def conv(r, i):
        if isinstance(r, list):
            return [conv(x, y) for x, y in zip(r, i)]
        return [int(r), int(i)]
    return conv(re.astype(int).tolist(), im.astype(int).tolist())


def rnd(rng, shape, lo=-2, hi=3):
    return (rng.integers(lo, hi, shape) + 1j * rng.integers(lo, hi, shape)).astype(complex)


def run_case(case):
    rng = np.random.default_rng(case["seed"])
    two, om = case["two"], case["omega"]
    da, db, dr, bo = case["da"], case["db"], case["dr"], case["bo"]
    if om:
        L, Rt = rnd(rng, (da, db, db, da)), rnd(rng, (dr, bo, bo, dr))
    else:
        L, Rt = rnd(rng, (da, db, da)), rnd(rng, (dr, bo, dr))
    if two:
        p1, p2, b1 = case["p1"], case["p2"], case["b1"]
        cmo = [rnd(rng, (db, p1, p1, b1)), rnd(rng, (b1, p2, p2, bo))]
        cshape = (da, p1, p2, dr)
    else:
        p = case["p"]
        cmo = [rnd(rng, (db, p, p, bo))]
        cshape = (da, p, dr)
    mask = rng.random(cshape) < 0.7
    if not mask.any():
        mask.flat[0] = True
    c = rnd(rng, int(mask.sum()), -3, 4)
    fake = types.SimpleNamespace(optimize_config=types.SimpleNamespace(method="2site" if two else "1site"))
    ham = asnumpy(G.get_ham_direct(fake, mask, L, Rt, list(cmo), 0.5 if om else None))
    hv_direct = ham @ c
    cstruct = cvec2cmat(c, mask)
    expr = hop_expr(L, Rt, list(cmo), cshape, bool(om))
    hv_iter = asnumpy(expr(cstruct))[mask]
    return {"id": case["id"], "L": gi(L), "R": gi(Rt), "cmo": [gi(x) for x in cmo], "mask": mask.astype(int).tolist(),
            "cstruct": gi(cstruct), "hv_direct": gi(hv_direct), "hv_iter": gi(hv_iter)}


REPRO = r'''
import sys, json
sys.path.insert(0, "/verif/harness/impl")
import numpy as np, c08_heff as Hf
case = json.loads(%r)
r = Hf.run_case(case)
# independent reference: plain numpy einsum of the definition, rows = bra indices, columns = ket indices
cx = lambda x: (np.array(x, dtype=float)[..., 0] + 1j * np.array(x, dtype=float)[..., 1])
L, R, cmo, C = cx(r["L"]), cx(r["R"]), [cx(x) for x in r["cmo"]], cx(r["cstruct"])
mask = np.array(r["mask"], dtype=bool)
if case["omega"]:
    if case["two"]:
        out = np.einsum("xbcy,bptf,ctqi,frug,iusj,zgjw,yqsw->xprz", L, cmo[0], cmo[0], cmo[1], cmo[1], R, C, optimize=True)
    else:
        out = np.einsum("xbcy,bptf,ctqi,zfiw,yqw->xpz", L, cmo[0], cmo[0], R, C, optimize=True)
else:
    if case["two"]:
        out = np.einsum("xby,bpqf,frsg,zgw,yqsw->xprz", L, cmo[0], cmo[1], R, C, optimize=True)
    else:
        out = np.einsum("xby,bpqf,zfw,yqw->xpz", L, cmo[0], R, C, optimize=True)
ref = out[mask]
d = np.abs(cx(r["hv_direct"]) - ref).max(); i = np.abs(cx(r["hv_iter"]) - ref).max()
print("case", case); print("max |get_ham_direct @ c - reference| =", d, "   max |hop_expr(c) - reference| =", i)
sys.exit(1 if (%s) else 0)
'''


def main():
    payload = json.loads(sys.stdin.read())
    res = []
    for case in payload["cases"]:
        try:
            res.append(run_case(case))
        except Exception:
            import traceback
            res.append({"id": case["id"], "error": traceback.format_exc()[-800:]})
    if payload.get("out"):
        with open(payload["out"], "w") as f:
            json.dump({"results": res}, f)
        print("RESULT " + json.dumps({"file": payload["out"], "n": len(res)}))
    else:
        print("RESULT " + json.dumps({"results": res}))


if __name__ == "__main__":
    main()
