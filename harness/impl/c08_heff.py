"""C08 correspondence for Model/Heff.v: the local effective operator of the chain sweep on exact integer data.
stdin {"cases": [...]} -> RESULT {"results": [...]}: for random small integer environments / operator tensors /
masks / coefficient vectors, the result of (a) get_ham_direct(...)[mask][:, mask] @ c and (b) hop_expr(...)(cvec2cmat(c))[mask],
to be compared with heff1_masked / heff2_apply evaluated by Coq over Z."""
import json
import sys
import types

import renormalizer  # noqa: F401
import numpy as np

from renormalizer.mps import gs as G
from renormalizer.mps.hop_expr import hop_expr
from renormalizer.mps.lib import cvec2cmat
from renormalizer.mps.matrix import asnumpy


def ints(x):
    a = np.asarray(x, dtype=float)
    r = np.rint(a)
    if np.abs(a - r).max(initial=0.0) > 1e-9:
        raise ValueError("non-integer result")
    return r.astype(int).tolist()


def run_case(case):
    rng = np.random.default_rng(case["seed"])
    two = case["two"]
    da, db, dr, bo = case["da"], case["db"], case["dr"], case["bo"]
    L = rng.integers(-2, 3, (da, db, da)).astype(float)
    Rt = rng.integers(-2, 3, (dr, bo, dr)).astype(float)
    if two:
        p1, p2, b1 = case["p1"], case["p2"], case["b1"]
        cmo = [rng.integers(-2, 3, (db, p1, p1, b1)).astype(float), rng.integers(-2, 3, (b1, p2, p2, bo)).astype(float)]
        cshape = (da, p1, p2, dr)
    else:
        p = case["p"]
        cmo = [rng.integers(-2, 3, (db, p, p, bo)).astype(float)]
        cshape = (da, p, dr)
    mask = rng.random(cshape) < 0.7
    if not mask.any():
        mask.flat[0] = True
    c = rng.integers(-3, 4, int(mask.sum())).astype(float)
    fake = types.SimpleNamespace(optimize_config=types.SimpleNamespace(method="2site" if two else "1site"))
    ham = asnumpy(G.get_ham_direct(fake, mask, L, Rt, list(cmo), None))
    hv_direct = ham @ c
    cstruct = cvec2cmat(c, mask)
    expr = hop_expr(L, Rt, list(cmo), cshape)
    hv_iter = asnumpy(expr(cstruct))[mask]
    return {"id": case["id"], "L": ints(L), "R": ints(Rt), "cmo": [ints(x) for x in cmo], "mask": mask.astype(int).tolist(),
            "cstruct": ints(cstruct), "hv_direct": ints(hv_direct), "hv_iter": ints(hv_iter),
            "sym_err": float(np.abs(ham - ham.T).max())}


def main():
    payload = json.loads(sys.stdin.read())
    res = []
    for case in payload["cases"]:
        try:
            res.append(run_case(case))
        except Exception as e:
            import traceback
            res.append({"id": case["id"], "error": traceback.format_exc()[-800:]})
    if payload.get("out"):
        with open(payload["out"], "w") as f:
            json.dump({"results": res}, f)
        print("RESULT " + json.dumps({"file": payload["out"], "n": len(res)}))
    else:
        print("RESULT " + json.dumps({"results": res}))


if __name__ == "__main__":
    main()
