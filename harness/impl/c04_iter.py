"""C04 translator round trip: iter_idx_list / _switch_direction / move_qnidx(schedule part) of the real class
evaluated on bare attribute holders, exhaustively for site_num 1..7.  Output: RESULT {"iter": [...], "switch": [...]}"""
import json
import sys

import renormalizer  # noqa: F401
import numpy as np
import renormalizer.mps.mp as MP


class D:
    pass


def main():
    payload = json.load(sys.stdin)
    it, sw = [], []
    for n in range(1, 8):
        for q in range(n):
            for d in (True, False):
                o = D()
                o.site_num, o.qnidx, o.to_right = n, q, d
                for full in (True, False):
                    for stop in [None] + list(range(-1, n + 1)):
                        r = MP.MatrixProduct.iter_idx_list(o, full, stop)
                        it.append([n, q, int(d), int(full), stop, [int(x) for x in r]])
                o2 = D()
                o2.site_num, o2.qnidx, o2.to_right = n, q, d
                MP.MatrixProduct._switch_direction(o2)
                sw.append([n, q, int(d), int(o2.qnidx), int(bool(o2.to_right))])
    out = {"iter": it, "switch": sw}
    path = payload.get("out")
    if path:
        json.dump(out, open(path, "w"))
        print("RESULT " + json.dumps({"file": path}))
    else:
        print("RESULT " + json.dumps(out))


if __name__ == "__main__":
    main()
