"""C03 float stream / dense oracle (the failing-input search; runs on every invocation).

stdin: {"seed": int, "ncases": int, "maxsite": int}
Random float states / operators / density operators, random gauge histories, random operation sequences;
after every operation `todense() * coeff` is compared with an independent NumPy dense reference (1e-9
relative), then the result is canonicalised / compressed without truncation and compared again.
Prints RESULT {"cases":…, "ops":…, "failures":[{key, detail, repro}], "hist":…}."""
import json
import random
import sys
import traceback

import numpy as np

import c03_gen as G
from renormalizer import Mps, Mpo
from renormalizer.mps import MpDm
from renormalizer.mps.lib import compressed_sum, _sum
from renormalizer.mps import gs
from renormalizer.utils import EvolveConfig, EvolveMethod, CompressConfig, CompressCriteria, OptimizeConfig
import c06_num as N6

TOL = 1e-9


def rel_err(x, ref):
    x = np.asarray(x)
    ref = np.asarray(ref)
    if x.shape != ref.shape:
        return float("inf")
    return float(np.linalg.norm(x - ref) / max(1.0, np.linalg.norm(ref)))


class Obj:
    """an implementation object, its independent dense reference (incl. prefactor), and a python expression
    that rebuilds it (for the repro)"""
    def __init__(self, mp, ref, kind, expr):
        self.mp, self.ref, self.kind, self.expr = mp, ref, kind, expr   # kind: 'state' | 'op' | 'dm'

    def coeff(self):
        return getattr(self.mp, "coeff", 1) if self.kind != "op" else 1

    def dense_now(self):
        if self.kind == "state":
            return G.dense_state(self.mp) * self.coeff()
        return G.dense_op(self.mp) * self.coeff()


PRELUDE = r'''
import random, sys, numpy as np
sys.path.insert(0, "/verif/harness/impl")
import c03_gen as G
from renormalizer import Mps, Mpo, Op
from renormalizer.mps import MpDm
from renormalizer.mps.lib import compressed_sum, _sum
from renormalizer.mps import gs
from renormalizer.utils import EvolveConfig, EvolveMethod, CompressConfig, CompressCriteria, OptimizeConfig
import c06_num as N6
def relerr(x, ref): return float(np.linalg.norm(np.asarray(x) - np.asarray(ref)) / max(1.0, np.linalg.norm(ref)))
def cplx(mp, seed):
    r = np.random.RandomState(seed); mp = mp.to_complex()
    for i in range(len(mp)):
        a = np.array(mp[i].array); mp[i] = a * np.exp(2j * np.pi * r.random(a.shape))
    return mp
def gauge(mp, hist):
    for h in hist:
        if h[0] == "L": mp.ensure_left_canonical()
        elif h[0] == "R": mp.ensure_right_canonical()
        elif h[0] == "LL": mp.ensure_left_canonical(); mp.canonicalise(); mp.canonicalise()
        elif h[0] == "C": G.lossless(mp); mp.ensure_right_canonical(); mp.compress()
        elif h[0] == "M": mp.move_qnidx(h[1])
        elif h[0] == "MT": mp.move_qnidx(h[1]); mp.to_right = h[2]
    return mp
def after(mp, how):
    mp = mp.copy()
    if how == "L": mp.ensure_left_canonical()
    elif how == "R": mp.ensure_right_canonical()
    elif how == "C": G.lossless(mp); mp.ensure_left_canonical(); mp.compress()
    elif how == "CR": G.lossless(mp); mp.ensure_right_canonical(); mp.compress()
    return mp
def dense(mp):
    c = getattr(mp, "coeff", 1)
    return (G.dense_state(mp) if mp[0].ndim == 3 else G.dense_op(mp)) * c
'''


def cplx(mp, seed):
    r = np.random.RandomState(seed)
    mp = mp.to_complex()
    for i in range(len(mp)):
        a = np.array(mp[i].array)
        mp[i] = a * np.exp(2j * np.pi * r.random(a.shape))
    return mp


def gauge(mp, hist):
    for h in hist:
        if h[0] == "L":
            mp.ensure_left_canonical()
        elif h[0] == "R":
            mp.ensure_right_canonical()
        elif h[0] == "LL":
            mp.ensure_left_canonical(); mp.canonicalise(); mp.canonicalise()
        elif h[0] == "C":
            G.lossless(mp); mp.ensure_right_canonical(); mp.compress()
        elif h[0] == "M":
            mp.move_qnidx(h[1])
        elif h[0] == "MT":
            mp.move_qnidx(h[1]); mp.to_right = h[2]
    return mp


def after(mp, how):
    mp = mp.copy()
    if how == "L":
        mp.ensure_left_canonical()
    elif how == "R":
        mp.ensure_right_canonical()
    elif how == "C":
        G.lossless(mp); mp.ensure_left_canonical(); mp.compress()
    elif how == "CR":
        G.lossless(mp); mp.ensure_right_canonical(); mp.compress()
    return mp


def rand_hist(rng, n, end_centred=False):
    """end_centred: only histories that leave (qnidx, to_right) at an end of the chain, as canonicalise() demands"""
    hist = []
    for _ in range(rng.choice([0, 1, 1, 2, 3])):
        k = rng.choice(["L", "R", "LL", "C"] if end_centred else ["L", "R", "LL", "C", "M", "M", "MT"])
        if k == "M":
            hist.append(["M", rng.randrange(n)])
        elif k == "MT":
            hist.append(["MT", rng.randrange(n), rng.random() < 0.5])
        else:
            hist.append([k])
    return hist


def rand_scalar(rng, allow_complex):
    v = rng.choice([2.0, -1.0, 0.5, -3.0, 1.0]) if rng.random() < 0.5 else rng.uniform(-2, 2)
    if abs(v) < 0.1:
        v = 0.7
    if allow_complex and rng.random() < 0.5:
        return complex(v, rng.uniform(-1.5, 1.5))
    return float(v)


def run_case(case_seed, maxsite, fails, stats):
    rng = random.Random(case_seed)
    np.random.seed(case_seed % (2 ** 31))
    nsite = rng.choice([n for n in (2, 2, 3, 3, 4, 4, 5) if n <= maxsite])
    ncomp = rng.choice([1, 1, 2])
    trivial = rng.random() < 0.15
    ncomp_trivial = trivial
    mseed = rng.randrange(10 ** 9)
    model, sites = G.build_model(random.Random(mseed), nsite, ncomp, trivial)
    lines = ["np.random.seed(%d)" % (case_seed % (2 ** 31)),
             "model, sites = G.build_model(random.Random(%d), %d, %d, %r)" % (mseed, nsite, ncomp, trivial)]
    cnt = [0]

    def fresh():
        cnt[0] += 1
        return "x%d" % cnt[0]

    pool = []          # Obj
    charges = G.config_charges(sites)

    def new_state(q, mode_desc, end_centred=False):
        mmax = rng.randint(2, 5) if nsite < 4 or ncomp == 1 else rng.randint(4, 6)
        name = fresh()
        s2 = rng.randrange(2 ** 31)
        np.random.seed(s2)
        try:
            mp = Mps.random(model, np.array(q), mmax, percent=1.0)
        except (FloatingPointError, ValueError):
            # Mps.random can fail to build a state for small m_max (rejected generation, see notes/C06.md)
            stats["random_fpe"] = stats.get("random_fpe", 0) + 1
            return None
        lines.append("np.random.seed(%d); %s = Mps.random(model, np.array(%r), %d, percent=1.0)" % (s2, name, list(map(int, q)), mmax))
        is_c = rng.random() < 0.4
        if is_c:
            cs = rng.randrange(2 ** 31)
            mp = cplx(mp, cs)
            lines.append("%s = cplx(%s, %d)" % (name, name, cs))
        co = rng.choice([None, None, 2.0, -0.5, "c"])
        if co == "c":
            co = complex(rng.uniform(-1, 1), rng.uniform(0.2, 1))
        if co is not None:
            mp.coeff = co
            lines.append("%s.coeff = %r" % (name, co))
        ref = G.dense_state(mp) * (co if co is not None else 1)
        lines.append("r_%s = dense(%s)" % (name, name))
        hist = rand_hist(rng, nsite, end_centred)
        if hist:
            gauge(mp, hist)
            lines.append("gauge(%s, %r)" % (name, hist))
        o = Obj(mp, ref, "state", name)
        o.q = tuple(int(x) for x in q)
        return o

    def new_op(want=None):
        name = fresh()
        integer = rng.random() < 0.3
        allow_c = rng.random() < 0.35
        tseed = rng.randrange(10 ** 9)
        terms, ch, desc = G.random_terms(random.Random(tseed), sites, integer, allow_c, want_charge=want)
        if not terms:
            return None
        if np.linalg.norm(G.dense_of_terms(sites, desc)) < 1e-12:
            return None               # terms cancel exactly: Mpo() rejects the zero operator (C01's domain)
        mpo = Mpo(model, terms)
        lines.append("_t = G.random_terms(random.Random(%d), sites, %r, %r, want_charge=%r); %s = Mpo(model, _t[0]); r_%s = G.dense_of_terms(sites, _t[2])" % (tseed, integer, allow_c, want, name, name))
        ref = G.dense_of_terms(sites, desc)
        hist = rand_hist(rng, nsite)
        if hist:
            gauge(mpo, hist)
            lines.append("gauge(%s, %r)" % (name, hist))
        o = Obj(mpo, ref, "op", name)
        o.q = tuple(int(x) for x in ch)
        return o

    def report(key, detail, check_expr):
        repro = PRELUDE + "\n".join(lines) + "\n" + check_expr + "\n"
        fails.append({"key": key, "detail": detail, "repro": repro, "case_seed": case_seed})

    def check(o, opname, how_list=("", "L", "R", "C", "CR")):
        """compare o.mp with o.ref now and after each lossless re-gauging"""
        stats["checks"] = stats.get("checks", 0) + 1
        for how in how_list:
            try:
                mp2 = after(o.mp, how) if how else o.mp
                d = (G.dense_state(mp2) if o.kind == "state" else G.dense_op(mp2)) * (getattr(mp2, "coeff", 1) if o.kind != "op" else 1)
                e = rel_err(d, o.ref)
                bad = not (e <= TOL)
                det = {"op": opname, "after": how or "none", "rel_err": e}
            except Exception as ex:
                bad = True
                det = {"op": opname, "after": how or "none", "exception": repr(ex), "tb": traceback.format_exc()[-600:]}
            if bad:
                kind = "dense" if not how else "dense-after-canonicalise"
                key = "%s:%s" % (opname, kind)
                chk = ("ref = %s\ntry:\n    d = dense(after(%s, %r))\n    e = relerr(d, ref)\nexcept Exception as ex:\n    print('raised', repr(ex)); sys.exit(1)\n"
                       "print('relative error', e); sys.exit(1 if not e <= 1e-9 else 0)") % (o.refexpr, o.expr, how)
                report(key, det, chk)
                return False
        return True

    # ---- operands
    q0, _ = G.random_sector(rng, sites, rng.choice(["any", "any", "any", "full", "empty", "adjacent"]))
    if G.sector_dim(sites, q0) < 1:
        return
    for _ in range(rng.randint(2, 3)):
        o = new_state(q0, "")
        if o is not None:
            o.refexpr = None
            pool.append(o)
    for _ in range(rng.randint(1, 3)):
        want = None if rng.random() < 0.5 else [0] * ncomp
        o = new_op(want)
        if o is not None:
            o.refexpr = None
            pool.append(o)
    for o in pool:
        o.refexpr = "r_" + o.expr
    stats["cases"] = stats.get("cases", 0) + 1
    for o in pool:
        if not check(o, "operand-gauge-history"):
            return

    def pick(kind, q=None):
        c = [o for o in pool if o.kind == kind and (q is None or o.q == q)]
        return rng.choice(c) if c else None

    nops = rng.randint(1, 6)
    for step in range(nops):
        opk = rng.choice(["add", "add", "sub", "scale", "conj", "apply", "apply", "opop", "opadd", "conj_trans", "opscale",
                          "dot", "norm", "distance", "distance", "opdot", "opdistance", "dm", "dmapply", "dmadd", "contract",
                          "csum", "csum", "neardist", "neardist", "neardist", "evolved", "evolved", "evolved"])
        stats.setdefault("ops", {})
        try:
            name = fresh()
            if opk == "evolved":
                # a state / density operator that came out of an evolution step (every scheme) or of optimize_mps is an
                # operand like any other: apply / add / dot / MpDm.apply on it must work and agree with dense algebra
                if ncomp_trivial:
                    continue
                hseed = rng.randrange(10 ** 9)
                hterms, _ = N6.hermitian_terms(random.Random(hseed), sites)
                if hterms is None:
                    continue
                Hm = Mpo(model, hterms)
                dms_ = [o for o in pool if o.kind == "dm"]
                want_dm = rng.random() < 0.5
                if want_dm:
                    if not dms_:
                        base = pick("state")
                        if base is not None and not np.iscomplexobj(np.asarray(base.mp[0].array)):
                            dn = fresh()
                            dmo = Obj(MpDm.from_mps(base.mp), np.diag(base.ref), "dm", dn); dmo.q = base.q; dmo.refexpr = "r_" + dn
                            lines.append("%s = MpDm.from_mps(%s); r_%s = np.diag(r_%s)" % (dn, base.expr, dn, base.expr))
                            pool.append(dmo)
                            dms_ = [dmo]
                src = rng.choice(dms_) if (dms_ and want_dm) else pick("state")
                if src is None or max(src.mp.bond_dims) > 30:
                    continue
                how = rng.choice(N6.SCHEMES + ["optimize_mps"]) if src.kind == "state" else rng.choice(N6.SCHEMES)
                if np.linalg.norm(G.dense_op(Hm) @ src.ref if src.kind == "state" else G.dense_op(Hm) @ src.ref) < 1e-9:
                    continue
                y = src.mp.copy()
                lines.append("Hm = Mpo(model, N6.hermitian_terms(random.Random(%d), sites)[0]); %s = %s.copy()" % (hseed, name, src.expr))
                try:
                    if how == "optimize_mps":
                        y.optimize_config = OptimizeConfig(procedure=[[6, 0.4], [6, 0]])
                        _, y = gs.optimize_mps(y, Hm)
                        lines.append("%s.optimize_config = OptimizeConfig(procedure=[[6, 0.4], [6, 0]]); _, %s = gs.optimize_mps(%s, Hm)" % (name, name, name))
                    else:
                        y.ensure_right_canonical(); y.canonicalise(); y.canonicalise()
                        y.compress_config = CompressConfig(CompressCriteria.fixed, max_bonddim=12)
                        y.evolve_config = EvolveConfig(getattr(EvolveMethod, how))
                        y = y.evolve(Hm, 0.05)
                        lines.append("%s.ensure_right_canonical(); %s.canonicalise(); %s.canonicalise(); %s.compress_config = CompressConfig(CompressCriteria.fixed, max_bonddim=12); "
                                     "%s.evolve_config = EvolveConfig(EvolveMethod.%s); %s = %s.evolve(Hm, 0.05)" % (name, name, name, name, name, how, name, name))
                except Exception as ex:
                    stats.setdefault("evolve_exceptions", {})
                    stats["evolve_exceptions"][how] = stats["evolve_exceptions"].get(how, 0) + 1
                    lines.pop()
                    continue
                stats.setdefault("evolved", {})
                stats["evolved"]["%s:%s" % (src.kind, how)] = stats["evolved"].get("%s:%s" % (src.kind, how), 0) + 1
                ry = (G.dense_state(y) if src.kind == "state" else G.dense_op(y)) * y.coeff
                lines.append("r_%s = dense(%s)" % (name, name))
                yo = Obj(y, ry, src.kind, name); yo.q = src.q; yo.refexpr = "r_" + name
                follow = [("apply", lambda: Hm.apply(y), lambda: G.dense_op(Hm) @ ry, "Hm.apply(%s)" % name, "G.dense_op(Hm) @ r_%s" % name),
                          ("add", lambda: y.add(y.copy()), lambda: 2 * ry, "%s.add(%s.copy())" % (name, name), "2 * r_%s" % name)]
                if src.kind == "dm":
                    follow.append(("mpdm-apply-mpo", lambda: y.apply(Hm), lambda: ry @ G.dense_op(Hm), "%s.apply(Hm)" % name, "r_%s @ G.dense_op(Hm)" % name))
                for fname, f, fref, fexpr, frefexpr in follow:
                    nm2 = fresh()
                    try:
                        res = f()
                    except Exception as ex:
                        report("evolved-operand:%s:exception" % fname, {"op": fname, "operand_from": how, "kind": src.kind, "exception": repr(ex),
                                                                          "qn_entry_types": sorted(set(type(q_).__name__ for q_ in y.qn))},
                               "try:\n    %s\nexcept Exception as ex:\n    print('%s on the result of %s raised', repr(ex)); sys.exit(1)\nsys.exit(0)" % (fexpr, fname, how))
                        return
                    ref2 = fref()
                    if np.linalg.norm(ref2) < 1e-9:
                        continue
                    lines.append("%s = %s; r_%s = %s" % (nm2, fexpr, nm2, frefexpr))
                    o2 = Obj(res, ref2, src.kind, nm2); o2.q = src.q; o2.refexpr = "r_" + nm2
                    if not check(o2, "evolved-operand:" + fname, ("", "L")):
                        return
                stats["checks"] = stats.get("checks", 0) + 1
                dv = y.dot(y)
                if not abs(dv - np.sum((ry / y.coeff) * (ry / y.coeff))) <= 1e-9 * max(1.0, abs(dv)):
                    report("evolved-operand:dot", {"impl": repr(dv)}, "sys.exit(1)")
                    return
                pool.append(yo)
            elif opk == "csum":
                # sums of MANY operands through lib.compressed_sum / lib._sum (batched add + canonicalise + compress),
                # non-truncating compress configuration: the result must be the dense sum
                n = rng.choice([1, 2, 3, 4, 5, 6, 6, 7, 8, 9, 10, 11, 11, 12, 13, 16, 21, 26])
                if nsite >= 5 and n > 13:
                    n = 11
                terms = []
                for _ in range(n):
                    o = new_state(q0, "", end_centred=True)
                    if o is None:
                        break
                    G.lossless(o.mp)
                    lines.append("G.lossless(%s)" % o.expr)
                    o.refexpr = "r_" + o.expr
                    terms.append(o)
                if len(terms) != n:
                    continue
                bs = rng.choice([2, 3, 5, 5, 5, 6])
                use_sum = n > 1 and rng.random() < 0.2
                ref = sum(t.ref for t in terms)
                if np.linalg.norm(ref) < 1e-6 * sum(np.linalg.norm(t.ref) for t in terms):
                    continue
                lst = "[" + ", ".join(t.expr for t in terms) + "]"
                if use_sum:
                    mp = _sum([t.mp for t in terms])
                    lines.append("%s = _sum(%s); r_%s = %s" % (name, lst, name, " + ".join("r_" + t.expr for t in terms)))
                else:
                    mp = compressed_sum([t.mp for t in terms], batchsize=bs)
                    lines.append("%s = compressed_sum(%s, batchsize=%d); r_%s = %s" % (name, lst, bs, name, " + ".join("r_" + t.expr for t in terms)))
                o = Obj(mp, ref, "state", name); o.q = tuple(int(x) for x in q0); o.refexpr = "r_" + name
                stats.setdefault("csum_n", {})
                stats["csum_n"][str(n)] = stats["csum_n"].get(str(n), 0) + 1
                if not check(o, "compressed_sum", ("", "L")):
                    return
                for t in terms[:3]:
                    if not check(t, "compressed_sum-operand-unchanged", ("",)):
                        return
            elif opk == "neardist":
                # nearly equal operands b = a + eps * c: the distance must be accurate relative to the TRUE distance as long
                # as that is above the round-off floor of l1 + l2 - 2 Re l12 (about sqrt(1e-15) * |a| = 3e-8 |a|)
                kind = rng.choice(["state", "state", "op", "dm"])
                a = pick(kind)
                if a is None:
                    continue
                c = pick(kind, a.q)
                eps = rng.choice([1e-3, 1e-4, 1e-5, 3e-6, 1e-6, 1e-7])
                if kind == "state" and rng.random() < 0.5:
                    pass
                bmp = a.mp.add(c.mp.scale(eps))
                lines.append("%s = %s.add(%s.scale(%r))" % (name, a.expr, c.expr, eps))
                hist = rand_hist(rng, nsite, end_centred=True)[:1]
                hist = [h for h in hist if h[0] != "C" or kind == "state"]
                if hist:
                    gauge(bmp, hist)
                    lines.append("gauge(%s, %r)" % (name, hist))
                na, nc = float(np.linalg.norm(a.ref)), float(np.linalg.norm(c.ref))
                dtrue = eps * nc
                val = a.mp.distance(bmp) if rng.random() < 0.5 else bmp.distance(a.mp)
                stats["checks"] = stats.get("checks", 0) + 1
                stats.setdefault("neardist", {})
                stats["neardist"]["%s eps=%g" % (kind, eps)] = stats["neardist"].get("%s eps=%g" % (kind, eps), 0) + 1
                floor = 1e-6 * max(na, 1e-300)
                if dtrue >= floor:
                    okd = abs(val - dtrue) <= 1e-2 * dtrue
                else:
                    okd = val <= dtrue + floor          # below the floor only an upper bound is demanded
                if not okd:
                    report("distance:nearly-equal-operands", {"kind": kind, "eps": eps, "impl": repr(val), "true_distance": dtrue, "norm_a": na,
                                                              "true_distance_over_norm": dtrue / max(na, 1e-300)},
                           "val = %s.distance(%s); dtrue = %r * np.linalg.norm(r_%s)\nprint('impl', val, 'true distance', dtrue)\nsys.exit(1 if not abs(val - dtrue) <= 1e-2 * dtrue else 0)"
                           % (a.expr, name, eps, c.expr))
                    return
            elif opk in ("add", "sub"):
                a = pick("state")
                if a is None:
                    continue
                b = pick("state", a.q)
                if a is b and rng.random() < 0.7:
                    continue
                if opk == "add":
                    mp = a.mp.add(b.mp); ref = a.ref + b.ref
                    lines.append("%s = %s.add(%s); r_%s = r_%s + r_%s" % (name, a.expr, b.expr, name, a.expr, b.expr))
                else:
                    mp = a.mp - b.mp; ref = a.ref - b.ref
                    lines.append("%s = %s - %s; r_%s = r_%s - r_%s" % (name, a.expr, b.expr, name, a.expr, b.expr))
                if np.linalg.norm(ref) < 1e-6 * (np.linalg.norm(a.ref) + np.linalg.norm(b.ref)):
                    lines.pop()
                    continue
                o = Obj(mp, ref, "state", name); o.q = a.q; o.refexpr = "r_" + name
                pool.append(o)
                ok = check(o, opk)
                # prefactor folding must leave the operands' represented vectors unchanged
                ok = ok and check(a, opk + "-operand-unchanged", ("",)) and check(b, opk + "-operand-unchanged", ("",))
                different = (a.mp.qnidx != b.mp.qnidx) or (a.mp.to_right != b.mp.to_right)
                stats["nontrivial"] = stats.get("nontrivial", 0) + (1 if different else 0)
                if not ok:
                    return
            elif opk in ("scale", "opscale"):
                a = pick("state" if opk == "scale" else "op")
                if a is None:
                    continue
                v = rand_scalar(rng, True)
                mp = a.mp.scale(v); ref = a.ref * v
                lines.append("%s = %s.scale(%r); r_%s = r_%s * %r" % (name, a.expr, v, name, a.expr, v))
                o = Obj(mp, ref, a.kind, name); o.q = a.q; o.refexpr = "r_" + name
                pool.append(o)
                if not check(o, opk):
                    return
            elif opk == "conj":
                a = rng.choice(pool)
                mp = a.mp.conj(); ref = a.ref.conj()
                lines.append("%s = %s.conj(); r_%s = r_%s.conj()" % (name, a.expr, name, a.expr))
                o = Obj(mp, ref, a.kind, name); o.q = a.q; o.refexpr = "r_" + name
                pool.append(o)
                if not check(o, opk):
                    return
            elif opk in ("apply", "contract"):
                O = pick("op"); a = pick("state")
                if O is None or a is None:
                    continue
                if max(a.mp.bond_dims) * max(O.mp.bond_dims) > 400:
                    continue
                ref = O.ref @ a.ref
                if np.linalg.norm(ref) < 1e-9:
                    continue
                if opk == "contract" and not ((a.mp.to_right and a.mp.qnidx == 0) or ((not a.mp.to_right) and a.mp.qnidx == nsite - 1)):
                    # contract = apply + canonicalise + compress; canonicalise asserts an end-centred operand (notes/C03.md)
                    opk = "apply"
                if opk == "apply":
                    mp = O.mp.apply(a.mp) if rng.random() < 0.5 else O.mp @ a.mp
                    lines.append("%s = %s.apply(%s); r_%s = r_%s @ r_%s" % (name, O.expr, a.expr, name, O.expr, a.expr))
                else:
                    G.lossless(a.mp)
                    mp = O.mp.contract(a.mp)
                    lines.append("G.lossless(%s); %s = %s.contract(%s); r_%s = r_%s @ r_%s" % (a.expr, name, O.expr, a.expr, name, O.expr, a.expr))
                o = Obj(mp, ref, "state", name); o.q = tuple(x + y for x, y in zip(a.q, O.q)); o.refexpr = "r_" + name
                pool.append(o)
                if any(O.q):
                    stats["nontrivial"] = stats.get("nontrivial", 0) + 1
                if not check(o, opk):
                    return
            elif opk == "opop":
                A = pick("op"); B = pick("op")
                if A is None or max(A.mp.bond_dims) * max(B.mp.bond_dims) > 400:
                    continue
                mp = A.mp.apply(B.mp); ref = A.ref @ B.ref
                if np.linalg.norm(ref) < 1e-9:
                    continue
                lines.append("%s = %s.apply(%s); r_%s = r_%s @ r_%s" % (name, A.expr, B.expr, name, A.expr, B.expr))
                o = Obj(mp, ref, "op", name); o.q = tuple(x + y for x, y in zip(A.q, B.q)); o.refexpr = "r_" + name
                pool.append(o)
                if not check(o, opk):
                    return
            elif opk == "opadd":
                A = pick("op")
                if A is None:
                    continue
                B = pick("op", A.q)
                if A is B and rng.random() < 0.7:
                    continue
                ref = A.ref + B.ref
                if np.linalg.norm(ref) < 1e-9:
                    continue
                mp = A.mp.add(B.mp)
                lines.append("%s = %s.add(%s); r_%s = r_%s + r_%s" % (name, A.expr, B.expr, name, A.expr, B.expr))
                o = Obj(mp, ref, "op", name); o.q = A.q; o.refexpr = "r_" + name
                pool.append(o)
                if A.mp.qnidx != B.mp.qnidx:
                    stats["nontrivial"] = stats.get("nontrivial", 0) + 1
                if not check(o, opk):
                    return
            elif opk == "conj_trans":
                A = pick("op")
                if A is None:
                    continue
                mp = A.mp.conj_trans(); ref = A.ref.conj().T
                lines.append("%s = %s.conj_trans(); r_%s = r_%s.conj().T" % (name, A.expr, name, A.expr))
                o = Obj(mp, ref, "op", name); o.q = tuple(-x for x in A.q); o.refexpr = "r_" + name
                pool.append(o)
                if any(A.q):
                    stats["nontrivial"] = stats.get("nontrivial", 0) + 1
                if not check(o, opk):
                    return
            elif opk in ("dot", "opdot", "norm", "distance", "opdistance"):
                kind = "op" if opk.startswith("op") else "state"
                a = pick(kind)
                if a is None:
                    continue
                b = pick(kind, a.q) if opk != "norm" else a
                ca, cb = a.coeff(), b.coeff()
                if opk in ("dot", "opdot"):
                    val = a.mp.dot(b.mp)
                    exp = np.sum((a.ref / ca) * (b.ref / cb))
                    expr = "val = %s.dot(%s); exp = np.sum((r_%s / getattr(%s, 'coeff', 1)) * (r_%s / getattr(%s, 'coeff', 1)))" % (a.expr, b.expr, a.expr, a.expr, b.expr, b.expr)
                    scale_ = max(1.0, np.linalg.norm(a.ref / ca) * np.linalg.norm(b.ref / cb))
                elif opk == "norm":
                    val = a.mp.norm
                    exp = np.linalg.norm(a.ref)
                    expr = "val = %s.norm; exp = np.linalg.norm(r_%s)" % (a.expr, a.expr)
                    scale_ = max(1.0, exp)
                else:
                    if a is b:
                        continue
                    val = a.mp.distance(b.mp)
                    exp = np.linalg.norm(a.ref - b.ref)
                    expr = "val = %s.distance(%s); exp = np.linalg.norm(r_%s - r_%s)" % (a.expr, b.expr, a.expr, b.expr)
                    scale_ = max(1.0, np.linalg.norm(a.ref) + np.linalg.norm(b.ref))
                    # distance is sqrt of a difference of O(scale^2) numbers: absolute accuracy sqrt(eps)*scale
                stats["checks"] = stats.get("checks", 0) + 1
                tol = TOL if "distance" not in opk else 1e-6
                if not abs(val - exp) <= tol * scale_:
                    eqc = ""
                    if opk == "distance":
                        eqc = "-equal-prefactors" if np.allclose(ca, cb) and not np.allclose(ca, 1) else ""
                    report("%s:value%s" % (opk, eqc), {"op": opk, "impl": repr(val), "expected": repr(exp), "coeffs": [repr(ca), repr(cb)]},
                           expr + "\nprint('impl', val, 'expected', exp); sys.exit(1 if not abs(val - exp) <= %g * max(1.0, abs(exp)) + %g else 0)" % (10 * tol, tol * scale_))
                    return
                if opk == "distance":
                    # the operands may have been folded in place
                    if not (check(a, "distance-operand-unchanged", ("",)) and check(b, "distance-operand-unchanged", ("",))):
                        return
            elif opk in ("dm", "dmapply", "dmadd"):
                dms = [o for o in pool if o.kind == "dm"]
                if opk == "dm" or not dms:
                    a = pick("state")
                    if a is None or np.iscomplexobj(np.asarray(a.mp[0].array)):
                        continue          # MpDm.from_mps builds real tensors
                    mp = MpDm.from_mps(a.mp)
                    ref = np.diag(a.ref)
                    lines.append("%s = MpDm.from_mps(%s); r_%s = np.diag(r_%s)" % (name, a.expr, name, a.expr))
                    o = Obj(mp, ref, "dm", name); o.q = a.q; o.refexpr = "r_" + name
                    pool.append(o)
                    if not check(o, "mpdm-from-mps"):
                        return
                elif opk == "dmapply":
                    d = rng.choice(dms); O = pick("op")
                    if O is None or max(d.mp.bond_dims) * max(O.mp.bond_dims) > 300:
                        continue
                    if rng.random() < 0.5:
                        mp = O.mp.apply(d.mp); ref = O.ref @ d.ref; q = tuple(x + y for x, y in zip(d.q, O.q))
                        lines.append("%s = %s.apply(%s); r_%s = r_%s @ r_%s" % (name, O.expr, d.expr, name, O.expr, d.expr))
                        nm = "mpo-apply-mpdm"
                    else:
                        mp = d.mp.apply(O.mp); ref = d.ref @ O.ref; q = d.q
                        lines.append("%s = %s.apply(%s); r_%s = r_%s @ r_%s" % (name, d.expr, O.expr, name, d.expr, O.expr))
                        nm = "mpdm-apply-mpo"
                    if np.linalg.norm(ref) < 1e-9:
                        lines.pop()
                        continue
                    o = Obj(mp, ref, "dm", name); o.q = q; o.refexpr = "r_" + name
                    pool.append(o)
                    if not check(o, nm):
                        return
                else:
                    d = rng.choice(dms)
                    e = rng.choice([x for x in dms if x.q == d.q])
                    if d is e:
                        continue
                    ref = d.ref + e.ref
                    if np.linalg.norm(ref) < 1e-9:
                        continue
                    mp = d.mp.add(e.mp)
                    lines.append("%s = %s.add(%s); r_%s = r_%s + r_%s" % (name, d.expr, e.expr, name, d.expr, e.expr))
                    o = Obj(mp, ref, "dm", name); o.q = d.q; o.refexpr = "r_" + name
                    pool.append(o)
                    if not check(o, "mpdm-add"):
                        return
            stats["ops"][opk] = stats["ops"].get(opk, 0) + 1
        except Exception as ex:
            tb = traceback.format_exc()
            report("%s:exception" % opk, {"op": opk, "exception": repr(ex), "tb": tb[-800:]},
                   "print('the operation above raised in the original run: %s'); sys.exit(1)" % repr(ex).replace("'", ""))
            return


def main():
    payload = json.loads(sys.stdin.read() or "{}")
    seed = int(payload.get("seed", 0))
    ncases = int(payload.get("ncases", 50))
    maxsite = int(payload.get("maxsite", 5))
    fails, stats = [], {}
    for k in range(ncases):
        before = len(fails)
        try:
            run_case(seed * 100003 + k, maxsite, fails, stats)
        except Exception as ex:
            fails.append({"key": "generator:exception", "detail": {"exception": repr(ex), "tb": traceback.format_exc()[-1200:]}, "repro": None,
                          "case_seed": seed * 100003 + k})
    # one failure per key is enough
    seen, out = set(), []
    for f in fails:
        if f["key"] in seen:
            continue
        seen.add(f["key"])
        out.append(f)
    res = {"stats": stats, "failures": out, "nfail": len(fails)}
    if payload.get("out"):
        with open(payload["out"], "w") as f:
            json.dump(res, f, default=str)
        print("RESULT " + json.dumps({"file": payload["out"]}))
    else:
        print("RESULT " + json.dumps(res, default=str))


main()
