"""C03 float stream / dense oracle (the failing-input search; runs on every invocation).

stdin: {"seed": int, "ncases": int, "maxsite": int}
Random float states / operators / density operators, random gauge histories, random operation sequences;
after every operation `todense() * coeff` is compared with an independent NumPy dense reference (1e-9
relative), then the result is canonicalised / compressed without truncation and compared again.
Prints RESULT {"cases":…, "ops":…, "failures":[{key, detail, repro}], "hist":…}."""
import json
import random
import sys
import traceback

import numpy as np

import c03_gen as G
from renormalizer import Mps, Mpo
from renormalizer.mps import MpDm
from renormalizer.mps.lib import compressed_sum, _sum
from renormalizer.mps import gs
from renormalizer.utils import EvolveConfig, EvolveMethod, CompressConfig, CompressCriteria, OptimizeConfig
import c06_num as N6

TOL = 1e-9


def rel_err(x, ref, mag=None):
    """error relative to the natural magnitude of the result (norm of the reference, or the magnitude of the operands
    where the reference may cancel); NO absolute floor"""
    x = np.asarray(x)
    ref = np.asarray(ref)
    if x.shape != ref.shape:
        return float("inf")
    m = float(np.linalg.norm(ref)) if mag is None else float(mag)
    d = float(np.linalg.norm(x - ref))
    if m == 0.0:
        return 0.0 if d == 0.0 else float("inf")
    return d / m


class Obj:
    """an implementation object, its independent dense reference (incl. prefactor), and a python expression
    that rebuilds it (for the repro)"""
    def __init__(self, mp, ref, kind, expr):
        self.mp, self.ref, self.kind, self.expr = mp, ref, kind, expr   # kind: 'state' | 'op' | 'dm'

    def coeff(self):
        return getattr(self.mp, "coeff", 1) if self.kind != "op" else 1

    def dense_now(self):
        if self.kind == "state":
            return G.dense_state(self.mp) * self.coeff()
        return G.dense_op(self.mp) * self.coeff()


PRELUDE = r'''
import random, sys, numpy as np
sys.path.insert(0, "/verif/harness/impl")
import c03_gen as G
from renormalizer import Mps, Mpo, Op
from renormalizer.mps import MpDm
from renormalizer.mps.lib import compressed_sum, _sum
from renormalizer.mps import gs
from renormalizer.utils import EvolveConfig, EvolveMethod, CompressConfig, CompressCriteria, OptimizeConfig
import c06_num as N6
def relerr(x, ref, mag=None):
    m = float(np.linalg.norm(ref)) if mag is None else float(mag)
    d = float(np.linalg.norm(np.asarray(x) - np.asarray(ref)))
    return (0.0 if d == 0.0 else float("inf")) if m == 0.0 else d / m
def cplx(mp, seed):
    r = np.random.RandomState(seed); mp = mp.to_complex()
    for i in range(len(mp)):
        a = np.array(mp[i].array); mp[i] = a * np.exp(2j * np.pi * r.random(a.shape))
    return mp
def gauge(mp, hist):
    for h in hist:
        if h[0] == "L": mp.ensure_left_canonical()
        elif h[0] == "R": mp.ensure_right_canonical()
        elif h[0] == "LL": mp.ensure_left_canonical(); mp.canonicalise(); mp.canonicalise()
        elif h[0] == "C": G.lossless(mp); mp.ensure_right_canonical(); mp.compress()
        elif h[0] == "M": mp.move_qnidx(h[1])
        elif h[0] == "MT": mp.move_qnidx(h[1]); mp.to_right = h[2]
    return mp
def after(mp, how):
    mp = mp.copy()
    if how == "L": mp.ensure_left_canonical()
    elif how == "R": mp.ensure_right_canonical()
    elif how == "C": G.lossless(mp); mp.ensure_left_canonical(); mp.compress()
    elif how == "CR": G.lossless(mp); mp.ensure_right_canonical(); mp.compress()
    return mp
def dense(mp):
    c = getattr(mp, "coeff", 1)
    return (G.dense_state(mp) if mp[0].ndim == 3 else G.dense_op(mp)) * c
'''


def cplx(mp, seed):
    r = np.random.RandomState(seed)
    mp = mp.to_complex()
    for i in range(len(mp)):
        a = np.array(mp[i].array)
        mp[i] = a * np.exp(2j * np.pi * r.random(a.shape))
    return mp


def gauge(mp, hist):
    for h in hist:
        if h[0] == "L":
            mp.ensure_left_canonical()
        elif h[0] == "R":
            mp.ensure_right_canonical()
        elif h[0] == "LL":
            mp.ensure_left_canonical(); mp.canonicalise(); mp.canonicalise()
        elif h[0] == "C":
            G.lossless(mp); mp.ensure_right_canonical(); mp.compress()
        elif h[0] == "M":
            mp.move_qnidx(h[1])
        elif h[0] == "MT":
            mp.move_qnidx(h[1]); mp.to_right = h[2]
    return mp


def after(mp, how):
    mp = mp.copy()
    if how == "L":
        mp.ensure_left_canonical()
    elif how == "R":
        mp.ensure_right_canonical()
    elif how == "C":
        G.lossless(mp); mp.ensure_left_canonical(); mp.compress()
    elif how == "CR":
        G.lossless(mp); mp.ensure_right_canonical(); mp.compress()
    return mp


def rand_hist(rng, n, end_centred=False):
    """end_centred: only histories that leave (qnidx, to_right) at an end of the chain, as canonicalise() demands"""
    hist = []
    for _ in range(rng.choice([0, 1, 1, 2, 3])):
        k = rng.choice(["L", "R", "LL", "C"] if end_centred else ["L", "R", "LL", "C", "M", "M", "MT"])
        if k == "M":
            hist.append(["M", rng.randrange(n)])
        elif k == "MT":
            hist.append(["MT", rng.randrange(n), rng.random() < 0.5])
        else:
            hist.append([k])
    return hist


def rand_scalar(rng, allow_complex):
    v = rng.choice([2.0, -1.0, 0.5, -3.0, 1.0]) if rng.random() < 0.5 else rng.uniform(-2, 2)
    if abs(v) < 0.1:
        v = 0.7
    if allow_complex and rng.random() < 0.5:
        return complex(v, rng.uniform(-1.5, 1.5))
    return float(v)


def run_case(case_seed, maxsite, fails, stats):
    rng = random.Random(case_seed)
    np.random.seed(case_seed % (2 ** 31))
    nsite = rng.choice([n for n in (2, 2, 3, 3, 4, 4, 5) if n <= maxsite])
    ncomp = rng.choice([1, 1, 2])
    trivial = rng.random() < 0.15
    ncomp_trivial = trivial
    mseed = rng.randrange(10 ** 9)
    model, sites = G.build_model(random.Random(mseed), nsite, ncomp, trivial)
    lines = ["np.random.seed(%d)" % (case_seed % (2 ** 31)),
             "model, sites = G.build_model(random.Random(%d), %d, %d, %r)" % (mseed, nsite, ncomp, trivial)]
    cnt = [0]

    def fresh():
        cnt[0] += 1
        return "x%d" % cnt[0]

    pool = []          # Obj
    charges = G.config_charges(sites)

    def new_state(q, mode_desc, end_centred=False):
        mmax = rng.randint(2, 5) if nsite < 4 or ncomp == 1 else rng.randint(4, 6)
        name = fresh()
        s2 = rng.randrange(2 ** 31)
        np.random.seed(s2)
        try:
            mp = Mps.random(model, np.array(q), mmax, percent=1.0)
        except (FloatingPointError, ValueError):
            # Mps.random can fail to build a state for small m_max (rejected generation, see notes/C06.md)
            stats["random_fpe"] = stats.get("random_fpe", 0) + 1
            return None
        lines.append("np.random.seed(%d); %s = Mps.random(model, np.array(%r), %d, percent=1.0)" % (s2, name, list(map(int, q)), mmax))
        is_c = rng.random() < 0.4
        if is_c:
            cs = rng.randrange(2 ** 31)
            mp = cplx(mp, cs)
            lines.append("%s = cplx(%s, %d)" % (name, name, cs))
        co = rng.choice([None, None, 2.0, -0.5, "c", "c"])      # incl. REAL tensors with a COMPLEX prefactor
        if co == "c":
            co = complex(rng.uniform(-1, 1), rng.uniform(0.2, 1))
        if co is not None:
            mp.coeff = co
            lines.append("%s.coeff = %r" % (name, co))
        ref = G.dense_state(mp) * (co if co is not None else 1)
        lines.append("r_%s = dense(%s)" % (name, name))
        hist = rand_hist(rng, nsite, end_centred)
        if hist:
            gauge(mp, hist)
            lines.append("gauge(%s, %r)" % (name, hist))
        o = Obj(mp, ref, "state", name)
        o.q = tuple(int(x) for x in q)
        return o

    def new_op(want=None):
        name = fresh()
        integer = rng.random() < 0.3
        allow_c = rng.random() < 0.35
        tseed = rng.randrange(10 ** 9)
        terms, ch, desc = G.random_terms(random.Random(tseed), sites, integer, allow_c, want_charge=want)
        if not terms:
            return None
        if np.linalg.norm(G.dense_of_terms(sites, desc)) < 1e-12:
            return None               # terms cancel exactly: Mpo() rejects the zero operator (C01's domain)
        mpo = Mpo(model, terms)
        lines.append("_t = G.random_terms(random.Random(%d), sites, %r, %r, want_charge=%r); %s = Mpo(model, _t[0]); r_%s = G.dense_of_terms(sites, _t[2])" % (tseed, integer, allow_c, want, name, name))
        ref = G.dense_of_terms(sites, desc)
        hist = rand_hist(rng, nsite)
        if hist:
            gauge(mpo, hist)
            lines.append("gauge(%s, %r)" % (name, hist))
        o = Obj(mpo, ref, "op", name)
        o.q = tuple(int(x) for x in ch)
        return o

    def report(key, detail, check_expr):
        repro = PRELUDE + "\n".join(lines) + "\n" + check_expr + "\n"
        fails.append({"key": key, "detail": detail, "repro": repro, "case_seed": case_seed})

    def check(o, opname, how_list=("", "L", "R", "C", "CR")):
        """compare o.mp with o.ref now and after each lossless re-gauging"""
        stats["checks"] = stats.get("checks", 0) + 1
        for how in how_list:
            try:
                mp2 = after(o.mp, how) if how else o.mp
                d = (G.dense_state(mp2) if o.kind == "state" else G.dense_op(mp2)) * (getattr(mp2, "coeff", 1) if o.kind != "op" else 1)
                e = rel_err(d, o.ref, getattr(o, "mag", None))
                bad = not (e <= TOL)
                det = {"op": opname, "after": how or "none", "rel_err": e}
            except Exception as ex:
                bad = True
                det = {"op": opname, "after": how or "none", "exception": repr(ex), "tb": traceback.format_exc()[-600:]}
            if bad:
                kind = "dense" if not how else "dense-after-canonicalise"
                key = "%s:%s" % (opname, kind)
                chk = ("ref = %s\ntry:\n    d = dense(after(%s, %r))\n    e = relerr(d, ref, MAG)\nexcept Exception as ex:\n    print('raised', repr(ex)); sys.exit(1)\n"
                       "print('relative error', e); sys.exit(1 if not e <= 1e-9 else 0)").replace("MAG", repr(getattr(o, "mag", None))) % (o.refexpr, o.expr, how)
                report(key, det, chk)
                return False
        return True

    # ---- operands
    q0, _ = G.random_sector(rng, sites, rng.choice(["any", "any", "any", "full", "empty", "adjacent"]))
    if G.sector_dim(sites, q0) < 1:
        return
    for _ in range(rng.randint(2, 3)):
        o = new_state(q0, "")
        if o is not None:
            o.refexpr = None
            pool.append(o)
    for _ in range(rng.randint(1, 3)):
        want = None if rng.random() < 0.5 else [0] * ncomp
        o = new_op(want)
        if o is not None:
            o.refexpr = None
            pool.append(o)
    for o in pool:
        o.refexpr = "r_" + o.expr
    stats["cases"] = stats.get("cases", 0) + 1
    for o in pool:
        if not check(o, "operand-gauge-history"):
            return

    def pick(kind, q=None):
        c = [o for o in pool if o.kind == kind and (q is None or o.q == q)]
        return rng.choice(c) if c else None

    nops = rng.randint(1, 6)
    for step in range(nops):
        opk = rng.choice(["add", "add", "sub", "scale", "conj", "apply", "apply", "opop", "opadd", "conj_trans", "opscale",
                          "dot", "norm", "distance", "distance", "opdot", "opdistance", "dm", "dmapply", "dmadd", "contract",
                          "csum", "csum", "neardist", "neardist", "neardist", "evolved", "evolved", "evolved",
                          "measure", "measure", "measure", "fresh-object", "fresh-object"])
        stats.setdefault("ops", {})
        try:
            name = fresh()
            if opk == "measure":
                # 1..3 measuring / conjugating calls on the same operand (odd and even counts): none may change the value
                # (coeff x tensors) of any operand; afterwards the operand is used in an arithmetic operation against dense
                kind = rng.choice(["state", "state", "state", "op"])
                a = pick(kind)
                if a is None:
                    continue
                b = pick(kind, a.q)
                Oq = pick("op")
                for _ in range(rng.randint(1, 3)):
                    m = rng.choice(["norm", "mp_norm", "dot", "distance", "angle", "conj", "expectation"] if kind == "state" else ["mp_norm", "dot", "distance", "angle", "conj", "conj_trans"])
                    stats.setdefault("measure", {})
                    stats["measure"][m] = stats["measure"].get(m, 0) + 1
                    na_, nb_ = float(np.linalg.norm(a.ref)), float(np.linalg.norm(b.ref))
                    ca, cb = a.coeff(), b.coeff()
                    if m == "norm":
                        val = a.mp.norm; lines.append("%s.norm" % a.expr); exp = na_; mag = na_
                    elif m == "mp_norm":
                        val = a.mp.mp_norm; lines.append("%s.mp_norm" % a.expr); exp = na_ / abs(ca); mag = exp
                    elif m == "dot":
                        val = a.mp.dot(b.mp); lines.append("%s.dot(%s)" % (a.expr, b.expr)); exp = np.sum((a.ref / ca) * (b.ref / cb)); mag = na_ * nb_ / abs(ca * cb)
                    elif m == "distance":
                        if a is b:
                            continue
                        val = a.mp.distance(b.mp); lines.append("%s.distance(%s)" % (a.expr, b.expr)); exp = float(np.linalg.norm(a.ref - b.ref)); mag = 1e3 * (na_ + nb_)
                    elif m == "angle":
                        val = a.mp.angle(b.mp); lines.append("%s.angle(%s)" % (a.expr, b.expr)); exp = abs(np.sum((a.ref / ca).conj() * (b.ref / cb))); mag = na_ * nb_ / abs(ca * cb)
                    elif m == "conj":
                        val = exp = mag = None
                        a.mp.conj(); lines.append("%s.conj()" % a.expr)
                    elif m == "conj_trans":
                        val = exp = mag = None
                        a.mp.conj_trans(); lines.append("%s.conj_trans()" % a.expr)
                    else:
                        if Oq is None or any(Oq.q):
                            continue
                        val = a.mp.expectation(Oq.mp); lines.append("%s.expectation(%s)" % (a.expr, Oq.expr))
                        # Mps.expectation is the expectation of the TENSOR part (prefactor not included; C07's domain)
                        exp = np.vdot(a.ref / ca, Oq.ref @ (a.ref / ca)); mag = (na_ / abs(ca)) ** 2 * float(np.linalg.norm(Oq.ref))
                    stats["checks"] = stats.get("checks", 0) + 1
                    if val is not None and not abs(val - exp) <= 1e-9 * mag:
                        report("measure:%s:value" % m, {"impl": repr(val), "expected": repr(exp), "kind": kind, "coeffs": [repr(ca), repr(cb)]},
                               "print('the value returned by the last measuring call above was', %r, 'expected', %r); sys.exit(1)" % (repr(val), repr(exp)))
                        return
                    if not (check(a, "measure-%s-operand-unchanged" % m, ("",)) and check(b, "measure-%s-operand-unchanged" % m, ("",))):
                        return
                # use it: a + b against dense
                if a is not b:
                    mp = a.mp.add(b.mp); ref = a.ref + b.ref
                    if np.linalg.norm(ref) > 1e-6 * (np.linalg.norm(a.ref) + np.linalg.norm(b.ref)):
                        lines.append("%s = %s.add(%s); r_%s = r_%s + r_%s" % (name, a.expr, b.expr, name, a.expr, b.expr))
                        o = Obj(mp, ref, kind, name); o.q = a.q; o.refexpr = "r_" + name; o.mag = float(np.linalg.norm(a.ref) + np.linalg.norm(b.ref))
                        pool.append(o)
                        if not check(o, "add-after-measure"):
                            return
            elif opk == "fresh-object":
                # conj / conj_trans / copy must return NEW objects: mutating the result in place must not touch the operand
                a = rng.choice(pool)
                how = rng.choice(["conj", "copy"] + (["conj_trans"] if a.kind == "op" else []))
                r = getattr(a.mp, how)()
                lines.append("%s = %s.%s()" % (name, a.expr, how))
                stats["checks"] = stats.get("checks", 0) + 1
                if r is a.mp:
                    report("%s:returns-operand" % how, {"kind": a.kind, "complex_tensors": bool(a.mp.is_complex), "coeff": repr(a.coeff())},
                           "print('%s() returned the operand itself'); sys.exit(1 if %s is %s else 0)" % (how, name, a.expr))
                    return
                v = rng.choice([2.0, -0.5, complex(0.3, 0.8)])
                r.scale(v, inplace=True)
                if a.kind != "op":
                    r.coeff = r.coeff * 3
                lines.append("%s.scale(%r, inplace=True)" % (name, v))
                if not check(a, "%s-then-inplace-operand-unchanged" % how, ("",)):
                    return
            elif opk == "evolved":
                # a state / density operator that came out of an evolution step (every scheme) or of optimize_mps is an
                # operand like any other: apply / add / dot / MpDm.apply on it must work and agree with dense algebra
                if ncomp_trivial:
                    continue
                hseed = rng.randrange(10 ** 9)
                hterms, _ = N6.hermitian_terms(random.Random(hseed), sites)
                if hterms is None:
                    continue
                Hm = Mpo(model, hterms)
                dms_ = [o for o in pool if o.kind == "dm"]
                want_dm = rng.random() < 0.5
                if want_dm:
                    if not dms_:
                        base = pick("state")
                        if base is not None:
                            dn = fresh()
                            dmo = Obj(MpDm.from_mps(base.mp), np.diag(base.ref), "dm", dn); dmo.q = base.q; dmo.refexpr = "r_" + dn
                            lines.append("%s = MpDm.from_mps(%s); r_%s = np.diag(r_%s)" % (dn, base.expr, dn, base.expr))
                            pool.append(dmo)
                            dms_ = [dmo]
                src = rng.choice(dms_) if (dms_ and want_dm) else pick("state")
                if src is None or max(src.mp.bond_dims) > 30:
                    continue
                how = rng.choice(N6.SCHEMES + ["optimize_mps"]) if src.kind == "state" else rng.choice(N6.SCHEMES)
                if np.linalg.norm(G.dense_op(Hm) @ src.ref if src.kind == "state" else G.dense_op(Hm) @ src.ref) < 1e-9:
                    continue
                y = src.mp.copy()
                lines.append("Hm = Mpo(model, N6.hermitian_terms(random.Random(%d), sites)[0]); %s = %s.copy()" % (hseed, name, src.expr))
                try:
                    if how == "optimize_mps":
                        y.optimize_config = OptimizeConfig(procedure=[[6, 0.4], [6, 0]])
                        _, y = gs.optimize_mps(y, Hm)
                        lines.append("%s.optimize_config = OptimizeConfig(procedure=[[6, 0.4], [6, 0]]); _, %s = gs.optimize_mps(%s, Hm)" % (name, name, name))
                    else:
                        y.ensure_right_canonical(); y.canonicalise(); y.canonicalise()
                        y.compress_config = CompressConfig(CompressCriteria.fixed, max_bonddim=12)
                        y.evolve_config = EvolveConfig(getattr(EvolveMethod, how))
                        y = y.evolve(Hm, 0.05)
                        lines.append("%s.ensure_right_canonical(); %s.canonicalise(); %s.canonicalise(); %s.compress_config = CompressConfig(CompressCriteria.fixed, max_bonddim=12); "
                                     "%s.evolve_config = EvolveConfig(EvolveMethod.%s); %s = %s.evolve(Hm, 0.05)" % (name, name, name, name, name, how, name, name))
                except Exception as ex:
                    stats.setdefault("evolve_exceptions", {})
                    stats["evolve_exceptions"][how] = stats["evolve_exceptions"].get(how, 0) + 1
                    lines.pop()
                    continue
                stats.setdefault("evolved", {})
                stats["evolved"]["%s:%s" % (src.kind, how)] = stats["evolved"].get("%s:%s" % (src.kind, how), 0) + 1
                ry = (G.dense_state(y) if src.kind == "state" else G.dense_op(y)) * y.coeff
                lines.append("r_%s = dense(%s)" % (name, name))
                yo = Obj(y, ry, src.kind, name); yo.q = src.q; yo.refexpr = "r_" + name
                follow = [("apply", lambda: Hm.apply(y), lambda: G.dense_op(Hm) @ ry, "Hm.apply(%s)" % name, "G.dense_op(Hm) @ r_%s" % name),
                          ("add", lambda: y.add(y.copy()), lambda: 2 * ry, "%s.add(%s.copy())" % (name, name), "2 * r_%s" % name)]
                if src.kind == "dm":
                    follow.append(("mpdm-apply-mpo", lambda: y.apply(Hm), lambda: ry @ G.dense_op(Hm), "%s.apply(Hm)" % name, "r_%s @ G.dense_op(Hm)" % name))
                for fname, f, fref, fexpr, frefexpr in follow:
                    nm2 = fresh()
                    try:
                        res = f()
                    except Exception as ex:
                        report("evolved-operand:%s:exception" % fname, {"op": fname, "operand_from": how, "kind": src.kind, "exception": repr(ex),
                                                                          "qn_entry_types": sorted(set(type(q_).__name__ for q_ in y.qn))},
                               "try:\n    %s\nexcept Exception as ex:\n    print('%s on the result of %s raised', repr(ex)); sys.exit(1)\nsys.exit(0)" % (fexpr, fname, how))
                        return
                    ref2 = fref()
                    if np.linalg.norm(ref2) < 1e-9:
                        continue
                    lines.append("%s = %s; r_%s = %s" % (nm2, fexpr, nm2, frefexpr))
                    o2 = Obj(res, ref2, src.kind, nm2); o2.q = src.q; o2.refexpr = "r_" + nm2
                    if not check(o2, "evolved-operand:" + fname, ("", "L")):
                        return
                stats["checks"] = stats.get("checks", 0) + 1
                dv = y.dot(y)
                if not abs(dv - np.sum((ry / y.coeff) * (ry / y.coeff))) <= 1e-9 * float(np.linalg.norm(ry / y.coeff)) ** 2:
                    report("evolved-operand:dot", {"impl": repr(dv)}, "sys.exit(1)")
                    return
                pool.append(yo)
            elif opk == "csum":
                # sums of MANY operands through lib.compressed_sum / lib._sum (batched add + canonicalise + compress),
                # non-truncating compress configuration: the result must be the dense sum
                n = rng.choice([1, 2, 3, 4, 5, 6, 6, 7, 8, 9, 10, 11, 11, 12, 13, 16, 21, 26])
                if nsite >= 5 and n > 13:
                    n = 11
                terms = []
                for _ in range(n):
                    o = new_state(q0, "", end_centred=True)
                    if o is None:
                        break
                    G.lossless(o.mp)
                    lines.append("G.lossless(%s)" % o.expr)
                    o.refexpr = "r_" + o.expr
                    terms.append(o)
                if len(terms) != n:
                    continue
                bs = rng.choice([2, 3, 5, 5, 5, 6])
                use_sum = n > 1 and rng.random() < 0.2
                ref = sum(t.ref for t in terms)
                if np.linalg.norm(ref) < 1e-6 * sum(np.linalg.norm(t.ref) for t in terms):
                    continue
                # the code cannot represent the zero vector (canonicalise / scale assert a non-zero tensor): reject inputs
                # where a batch result of the reduction -- simulated on the dense references in the code's own queue order --
                # cancels (happens e.g. in one-dimensional sectors, where all operands are phases times one basis vector)
                queue = [(t.ref, float(np.linalg.norm(t.ref))) for t in terms]
                bs_sim = len(queue) if use_sum else bs
                cancels = False
                while len(queue) > 1:
                    chunk, queue = queue[:min(bs_sim, len(queue))], queue[min(bs_sim, len(queue)):]
                    v, w = sum(c[0] for c in chunk), sum(c[1] for c in chunk)
                    if np.linalg.norm(v) < 1e-6 * w:
                        cancels = True
                        break
                    queue.append((v, w))
                if cancels:
                    stats["csum_rejected_partial_cancellation"] = stats.get("csum_rejected_partial_cancellation", 0) + 1
                    continue
                lst = "[" + ", ".join(t.expr for t in terms) + "]"
                if use_sum:
                    mp = _sum([t.mp for t in terms])
                    lines.append("%s = _sum(%s); r_%s = %s" % (name, lst, name, " + ".join("r_" + t.expr for t in terms)))
                else:
                    mp = compressed_sum([t.mp for t in terms], batchsize=bs)
                    lines.append("%s = compressed_sum(%s, batchsize=%d); r_%s = %s" % (name, lst, bs, name, " + ".join("r_" + t.expr for t in terms)))
                o = Obj(mp, ref, "state", name); o.q = tuple(int(x) for x in q0); o.refexpr = "r_" + name; o.mag = float(sum(np.linalg.norm(t.ref) for t in terms))
                stats.setdefault("csum_n", {})
                stats["csum_n"][str(n)] = stats["csum_n"].get(str(n), 0) + 1
                if not check(o, "compressed_sum", ("", "L")):
                    return
                for t in terms[:3]:
                    if not check(t, "compressed_sum-operand-unchanged", ("",)):
                        return
            elif opk == "neardist":
                # nearly equal operands b = a + eps * c: the distance must be accurate relative to the TRUE distance as long
                # as that is above the round-off floor of l1 + l2 - 2 Re l12 (about sqrt(1e-15) * |a| = 3e-8 |a|)
                kind = rng.choice(["state", "state", "op", "dm"])
                a = pick(kind)
                if a is None:
                    continue
                c = pick(kind, a.q)
                eps = rng.choice([1e-3, 1e-4, 1e-5, 3e-6, 1e-6, 1e-7])
                if kind == "state" and rng.random() < 0.5:
                    pass
                bmp = a.mp.add(c.mp.scale(eps))
                lines.append("%s = %s.add(%s.scale(%r))" % (name, a.expr, c.expr, eps))
                hist = rand_hist(rng, nsite, end_centred=True)[:1]
                hist = [h for h in hist if h[0] != "C" or kind == "state"]
                if hist:
                    gauge(bmp, hist)
                    lines.append("gauge(%s, %r)" % (name, hist))
                na, nc = float(np.linalg.norm(a.ref)), float(np.linalg.norm(c.ref))
                dtrue = eps * nc
                val = a.mp.distance(bmp) if rng.random() < 0.5 else bmp.distance(a.mp)
                stats["checks"] = stats.get("checks", 0) + 1
                stats.setdefault("neardist", {})
                stats["neardist"]["%s eps=%g" % (kind, eps)] = stats["neardist"].get("%s eps=%g" % (kind, eps), 0) + 1
                floor = 1e-6 * max(na, 1e-300)
                if dtrue >= floor:
                    okd = abs(val - dtrue) <= 1e-2 * dtrue
                else:
                    okd = val <= dtrue + floor          # below the floor only an upper bound is demanded
                if not okd:
                    report("distance:nearly-equal-operands", {"kind": kind, "eps": eps, "impl": repr(val), "true_distance": dtrue, "norm_a": na,
                                                              "true_distance_over_norm": dtrue / max(na, 1e-300)},
                           "val = %s.distance(%s); dtrue = %r * np.linalg.norm(r_%s)\nprint('impl', val, 'true distance', dtrue)\nsys.exit(1 if not abs(val - dtrue) <= 1e-2 * dtrue else 0)"
                           % (a.expr, name, eps, c.expr))
                    return
            elif opk in ("add", "sub"):
                a = pick("state")
                if a is None:
                    continue
                b = pick("state", a.q)
                if a is b and rng.random() < 0.7:
                    continue
                if opk == "add":
                    mp = a.mp.add(b.mp); ref = a.ref + b.ref
                    lines.append("%s = %s.add(%s); r_%s = r_%s + r_%s" % (name, a.expr, b.expr, name, a.expr, b.expr))
                else:
                    mp = a.mp - b.mp; ref = a.ref - b.ref
                    lines.append("%s = %s - %s; r_%s = r_%s - r_%s" % (name, a.expr, b.expr, name, a.expr, b.expr))
                if np.linalg.norm(ref) < 1e-6 * (np.linalg.norm(a.ref) + np.linalg.norm(b.ref)):
                    lines.pop()
                    continue
                o = Obj(mp, ref, "state", name); o.q = a.q; o.refexpr = "r_" + name; o.mag = float(np.linalg.norm(a.ref) + np.linalg.norm(b.ref))
                pool.append(o)
                ok = check(o, opk)
                # prefactor folding must leave the operands' represented vectors unchanged
                ok = ok and check(a, opk + "-operand-unchanged", ("",)) and check(b, opk + "-operand-unchanged", ("",))
                different = (a.mp.qnidx != b.mp.qnidx) or (a.mp.to_right != b.mp.to_right)
                stats["nontrivial"] = stats.get("nontrivial", 0) + (1 if different else 0)
                if not ok:
                    return
            elif opk in ("scale", "opscale"):
                a = pick("state" if opk == "scale" else "op")
                if a is None:
                    continue
                v = rand_scalar(rng, True)
                mp = a.mp.scale(v); ref = a.ref * v
                lines.append("%s = %s.scale(%r); r_%s = r_%s * %r" % (name, a.expr, v, name, a.expr, v))
                o = Obj(mp, ref, a.kind, name); o.q = a.q; o.refexpr = "r_" + name
                pool.append(o)
                if not check(o, opk):
                    return
            elif opk == "conj":
                a = rng.choice(pool)
                mp = a.mp.conj(); ref = a.ref.conj()
                lines.append("%s = %s.conj(); r_%s = r_%s.conj()" % (name, a.expr, name, a.expr))
                o = Obj(mp, ref, a.kind, name); o.q = a.q; o.refexpr = "r_" + name
                pool.append(o)
                if not check(o, opk):
                    return
            elif opk in ("apply", "contract"):
                O = pick("op"); a = pick("state")
                if O is None or a is None:
                    continue
                if max(a.mp.bond_dims) * max(O.mp.bond_dims) > 400:
                    continue
                ref = O.ref @ a.ref
                if np.linalg.norm(ref) < 1e-9:
                    continue
                if opk == "contract" and not ((a.mp.to_right and a.mp.qnidx == 0) or ((not a.mp.to_right) and a.mp.qnidx == nsite - 1)):
                    # contract = apply + canonicalise + compress; canonicalise asserts an end-centred operand (notes/C03.md)
                    opk = "apply"
                if opk == "apply":
                    mp = O.mp.apply(a.mp) if rng.random() < 0.5 else O.mp @ a.mp
                    lines.append("%s = %s.apply(%s); r_%s = r_%s @ r_%s" % (name, O.expr, a.expr, name, O.expr, a.expr))
                else:
                    G.lossless(a.mp)
                    mp = O.mp.contract(a.mp)
                    lines.append("G.lossless(%s); %s = %s.contract(%s); r_%s = r_%s @ r_%s" % (a.expr, name, O.expr, a.expr, name, O.expr, a.expr))
                o = Obj(mp, ref, "state", name); o.q = tuple(x + y for x, y in zip(a.q, O.q)); o.refexpr = "r_" + name; o.mag = float(np.linalg.norm(O.ref) * np.linalg.norm(a.ref))
                pool.append(o)
                if any(O.q):
                    stats["nontrivial"] = stats.get("nontrivial", 0) + 1
                if not check(o, opk):
                    return
            elif opk == "opop":
                A = pick("op"); B = pick("op")
                if A is None or max(A.mp.bond_dims) * max(B.mp.bond_dims) > 400:
                    continue
                mp = A.mp.apply(B.mp); ref = A.ref @ B.ref
                if np.linalg.norm(ref) < 1e-9:
                    continue
                lines.append("%s = %s.apply(%s); r_%s = r_%s @ r_%s" % (name, A.expr, B.expr, name, A.expr, B.expr))
                o = Obj(mp, ref, "op", name); o.q = tuple(x + y for x, y in zip(A.q, B.q)); o.refexpr = "r_" + name; o.mag = float(np.linalg.norm(A.ref) * np.linalg.norm(B.ref))
                pool.append(o)
                if not check(o, opk):
                    return
            elif opk == "opadd":
                A = pick("op")
                if A is None:
                    continue
                B = pick("op", A.q)
                if A is B and rng.random() < 0.7:
                    continue
                ref = A.ref + B.ref
                if np.linalg.norm(ref) < 1e-9:
                    continue
                mp = A.mp.add(B.mp)
                lines.append("%s = %s.add(%s); r_%s = r_%s + r_%s" % (name, A.expr, B.expr, name, A.expr, B.expr))
                o = Obj(mp, ref, "op", name); o.q = A.q; o.refexpr = "r_" + name; o.mag = float(np.linalg.norm(A.ref) + np.linalg.norm(B.ref))
                pool.append(o)
                if A.mp.qnidx != B.mp.qnidx:
                    stats["nontrivial"] = stats.get("nontrivial", 0) + 1
                if not check(o, opk):
                    return
            elif opk == "conj_trans":
                A = pick("op")
                if A is None:
                    continue
                mp = A.mp.conj_trans(); ref = A.ref.conj().T
                lines.append("%s = %s.conj_trans(); r_%s = r_%s.conj().T" % (name, A.expr, name, A.expr))
                o = Obj(mp, ref, "op", name); o.q = tuple(-x for x in A.q); o.refexpr = "r_" + name
                pool.append(o)
                if any(A.q):
                    stats["nontrivial"] = stats.get("nontrivial", 0) + 1
                if not check(o, opk):
                    return
            elif opk in ("dot", "opdot", "norm", "distance", "opdistance"):
                kind = "op" if opk.startswith("op") else "state"
                a = pick(kind)
                if a is None:
                    continue
                b = pick(kind, a.q) if opk != "norm" else a
                ca, cb = a.coeff(), b.coeff()
                if opk in ("dot", "opdot"):
                    val = a.mp.dot(b.mp)
                    exp = np.sum((a.ref / ca) * (b.ref / cb))
                    expr = "val = %s.dot(%s); exp = np.sum((r_%s / getattr(%s, 'coeff', 1)) * (r_%s / getattr(%s, 'coeff', 1)))" % (a.expr, b.expr, a.expr, a.expr, b.expr, b.expr)
                    scale_ = float(np.linalg.norm(a.ref / ca) * np.linalg.norm(b.ref / cb))
                elif opk == "norm":
                    val = a.mp.norm
                    exp = np.linalg.norm(a.ref)
                    expr = "val = %s.norm; exp = np.linalg.norm(r_%s)" % (a.expr, a.expr)
                    scale_ = float(exp)
                else:
                    if a is b:
                        continue
                    val = a.mp.distance(b.mp)
                    exp = np.linalg.norm(a.ref - b.ref)
                    expr = "val = %s.distance(%s); exp = np.linalg.norm(r_%s - r_%s)" % (a.expr, b.expr, a.expr, b.expr)
                    scale_ = float(np.linalg.norm(a.ref) + np.linalg.norm(b.ref))
                    # distance is sqrt of a difference of O(scale^2) numbers: absolute accuracy sqrt(eps)*scale
                stats["checks"] = stats.get("checks", 0) + 1
                tol = TOL if "distance" not in opk else 1e-6
                if not abs(val - exp) <= tol * scale_:
                    eqc = ""
                    if opk == "distance":
                        eqc = "-equal-prefactors" if np.allclose(ca, cb) and not np.allclose(ca, 1) else ""
                    report("%s:value%s" % (opk, eqc), {"op": opk, "impl": repr(val), "expected": repr(exp), "coeffs": [repr(ca), repr(cb)]},
                           expr + "\nprint('impl', val, 'expected', exp); sys.exit(1 if not abs(val - exp) <= %r else 0)" % (10 * tol * scale_,))
                    return
                if opk == "distance":
                    # the operands may have been folded in place
                    if not (check(a, "distance-operand-unchanged", ("",)) and check(b, "distance-operand-unchanged", ("",))):
                        return
            elif opk in ("dm", "dmapply", "dmadd"):
                dms = [o for o in pool if o.kind == "dm"]
                if opk == "dm" or not dms:
                    a = pick("state")
                    if a is None:
                        continue
                    # complex tensors, and real tensors with a complex prefactor, included: the density operator must keep the
                    # imaginary part (dense value AND dtype)
                    mp = MpDm.from_mps(a.mp)
                    ref = np.diag(a.ref)
                    stats["checks"] = stats.get("checks", 0) + 1
                    if np.iscomplexobj(np.asarray(a.mp[0].array)) and not (mp.is_complex and all(np.iscomplexobj(np.asarray(mt.array)) for mt in mp)):
                        report("mpdm-from-mps:dtype", {"source_dtype": str(np.asarray(a.mp[0].array).dtype), "mpdm_dtype": str(mp.dtype), "tensor_dtype": str(np.asarray(mp[0].array).dtype)},
                               "d = MpDm.from_mps(%s)\nprint('source', np.asarray(%s[0].array).dtype, 'MpDm.dtype', d.dtype, 'tensor', np.asarray(d[0].array).dtype)\n"
                               "sys.exit(0 if d.is_complex and all(np.iscomplexobj(np.asarray(mt.array)) for mt in d) else 1)" % (a.expr, a.expr))
                        return
                    lines.append("%s = MpDm.from_mps(%s); r_%s = np.diag(r_%s)" % (name, a.expr, name, a.expr))
                    o = Obj(mp, ref, "dm", name); o.q = a.q; o.refexpr = "r_" + name
                    pool.append(o)
                    if not check(o, "mpdm-from-mps"):
                        return
                elif opk == "dmapply":
                    d = rng.choice(dms); O = pick("op")
                    if O is None or max(d.mp.bond_dims) * max(O.mp.bond_dims) > 300:
                        continue
                    if rng.random() < 0.5:
                        mp = O.mp.apply(d.mp); ref = O.ref @ d.ref; q = tuple(x + y for x, y in zip(d.q, O.q))
                        lines.append("%s = %s.apply(%s); r_%s = r_%s @ r_%s" % (name, O.expr, d.expr, name, O.expr, d.expr))
                        nm = "mpo-apply-mpdm"
                    else:
                        mp = d.mp.apply(O.mp); ref = d.ref @ O.ref; q = d.q
                        lines.append("%s = %s.apply(%s); r_%s = r_%s @ r_%s" % (name, d.expr, O.expr, name, d.expr, O.expr))
                        nm = "mpdm-apply-mpo"
                    if np.linalg.norm(ref) < 1e-9:
                        lines.pop()
                        continue
                    o = Obj(mp, ref, "dm", name); o.q = q; o.refexpr = "r_" + name; o.mag = float(np.linalg.norm(O.ref) * np.linalg.norm(d.ref))
                    pool.append(o)
                    if not check(o, nm):
                        return
                else:
                    d = rng.choice(dms)
                    e = rng.choice([x for x in dms if x.q == d.q])
                    if d is e:
                        continue
                    ref = d.ref + e.ref
                    if np.linalg.norm(ref) < 1e-9:
                        continue
                    mp = d.mp.add(e.mp)
                    lines.append("%s = %s.add(%s); r_%s = r_%s + r_%s" % (name, d.expr, e.expr, name, d.expr, e.expr))
                    o = Obj(mp, ref, "dm", name); o.q = d.q; o.refexpr = "r_" + name; o.mag = float(np.linalg.norm(d.ref) + np.linalg.norm(e.ref))
                    pool.append(o)
                    if not check(o, "mpdm-add"):
                        return
            stats["ops"][opk] = stats["ops"].get(opk, 0) + 1
            # generic: NO operation (arithmetic or measuring) may change the dense value (coeff x tensors) of any live object
            for o_ in pool:
                if not check(o_, "%s-live-object-unchanged" % opk, ("",)):
                    return
        except Exception as ex:
            tb = traceback.format_exc()
            report("%s:exception" % opk, {"op": opk, "exception": repr(ex), "tb": tb[-800:]},
                   "print('the operation above raised in the original run: %s'); sys.exit(1)" % repr(ex).replace("'", ""))
            return


# ----------------------------------------------------------------------------------------------- SCALE stream
def rand_z(rng):
    """a scalar of magnitude 1e-30 .. 1e30: real, purely imaginary, or complex with a small / comparable / large phase part"""
    mag = 10.0 ** rng.choice([-30, -20, -12, -9, -6, -3, -1, 0, 0, 1, 3, 6, 9, 12, 20, 30]) * rng.uniform(1.0, 9.9)
    kind = rng.choice(["real", "imag", "complex", "complex", "complex"])
    sgn = rng.choice([1, -1])
    if kind == "real":
        return float(sgn * mag), kind
    if kind == "imag":
        return complex(0.0, sgn * mag), kind
    ratio = 10.0 ** rng.choice([-6, -3, -1, 0, 0, 1, 3, 6])          # |Im| / |Re|
    re, im = (mag, mag * ratio) if ratio <= 1 else (mag / ratio, mag)
    return complex(sgn * re, rng.choice([1, -1]) * im), kind


def run_scale_case(case_seed, fails, stats):
    """every arithmetic operation with scalars and operand norms spanning 1e-30 .. 1e30, compared with the dense
    reference RELATIVE to the magnitudes involved (no absolute floor), plus homogeneity op(c a) = c op(a)"""
    rng = random.Random(case_seed)
    np.random.seed(case_seed % (2 ** 31))
    nsite = rng.choice([2, 3, 3, 4])
    ncomp = rng.choice([1, 1, 2])
    mseed = rng.randrange(10 ** 9)
    model, sites = G.build_model(random.Random(mseed), nsite, ncomp, False)
    lines = ["np.random.seed(%d)" % (case_seed % (2 ** 31)), "model, sites = G.build_model(random.Random(%d), %d, %d, False)" % (mseed, nsite, ncomp)]
    q0, _ = G.random_sector(rng, sites, "any")
    q0 = [int(x) for x in q0]

    def state(name):
        s2 = rng.randrange(2 ** 31)
        np.random.seed(s2)
        try:
            mp = Mps.random(model, np.array(q0), rng.randint(3, 6), percent=1.0)
        except (FloatingPointError, ValueError):
            return None
        lines.append("np.random.seed(%d); %s = Mps.random(model, np.array(%r), %d, percent=1.0)" % (s2, name, q0, max(mp.bond_dims)))
        lines[-1] = lines[-1]  # m_max recorded below
        return mp, s2

    a = state("a")
    b = state("b")
    if a is None or b is None:
        return
    # rebuild deterministic creation lines (m_max must be the one used)
    lines = lines[:2]
    objs = {}
    for nm in ("a", "b"):
        s2 = rng.randrange(2 ** 31)
        mm = rng.randint(3, 6)
        np.random.seed(s2)
        try:
            mp = Mps.random(model, np.array(q0), mm, percent=1.0)
        except (FloatingPointError, ValueError):
            return
        lines.append("np.random.seed(%d); %s = Mps.random(model, np.array(%r), %d, percent=1.0)" % (s2, nm, q0, mm))
        if rng.random() < 0.4:
            cs = rng.randrange(2 ** 31)
            mp = cplx(mp, cs)
            lines.append("%s = cplx(%s, %d)" % (nm, nm, cs))
        # operand norm anywhere in 1e-30 .. 1e30: multiply one site tensor directly (no package arithmetic involved)
        f = 10.0 ** rng.choice([-30, -15, -8, -3, 0, 0, 3, 8, 15, 30])
        k = rng.randrange(nsite)
        mp[k] = np.asarray(mp[k].array) * f
        lines.append("%s[%d] = np.asarray(%s[%d].array) * %r" % (nm, k, nm, k, f))
        objs[nm] = mp
    a, b = objs["a"], objs["b"]
    tseed = rng.randrange(10 ** 9)
    terms, ch, desc = G.random_terms(random.Random(tseed), sites, False, rng.random() < 0.3, want_charge=[0] * ncomp)
    if not terms or np.linalg.norm(G.dense_of_terms(sites, desc)) < 1e-12:
        return
    O = Mpo(model, terms)
    lines.append("_t = G.random_terms(random.Random(%d), sites, False, %r, want_charge=%r); O = Mpo(model, _t[0])" % (tseed, bool(np.iscomplexobj(G.dense_of_terms(sites, desc))) or False, [0] * ncomp))
    lines[-1] = "_t = G.random_terms(random.Random(%d), sites, False, ALLOWC, want_charge=%r); O = Mpo(model, _t[0])" % (tseed, [0] * ncomp)
    stats["scale_cases"] = stats.get("scale_cases", 0) + 1

    def D(x):
        return (G.dense_state(x) if x[0].ndim == 3 else G.dense_op(x)) * (getattr(x, "coeff", 1) if not isinstance(x, Mpo) or isinstance(x, MpDm) else 1)

    ra, rb, RO = D(a), D(b), D(O)
    na, nb, nO = float(np.linalg.norm(ra)), float(np.linalg.norm(rb)), float(np.linalg.norm(RO))

    def fail(key, detail, code):
        fails.append({"key": key, "detail": detail, "repro": PRELUDE + "\n".join(lines).replace("ALLOWC", repr(allowc)) + "\n" + code + "\n", "case_seed": case_seed})

    allowc = None
    # recover the allow_complex flag actually used (random_terms consumed it from rng above): regenerate deterministically
    for flag in (False, True):
        t2, c2, d2 = G.random_terms(random.Random(tseed), sites, False, flag, want_charge=[0] * ncomp)
        if d2 == desc:
            allowc = flag
            break
    if allowc is None:
        return

    def vec_ok(x, ref, mag, what, detail, code):
        stats["checks"] = stats.get("checks", 0) + 1
        stats.setdefault("scale_ops", {})
        stats["scale_ops"][what] = stats["scale_ops"].get(what, 0) + 1
        try:
            e = rel_err(D(x), ref, mag)
        except Exception as ex:
            e = float("inf"); detail = dict(detail, exception=repr(ex))
        if not e <= TOL:
            fail("scale-stream:%s" % what, dict(detail, rel_err=e, magnitude=mag), code + "\ne = relerr(dense(res), ref, %r)\nprint('relative error', e); sys.exit(1 if not e <= 1e-9 else 0)" % mag)
            return False
        return True

    def num_ok(val, exp, mag, what, detail, code):
        stats["checks"] = stats.get("checks", 0) + 1
        stats.setdefault("scale_ops", {})
        stats["scale_ops"][what] = stats["scale_ops"].get(what, 0) + 1
        if not abs(val - exp) <= 1e-9 * mag:
            fail("scale-stream:%s" % what, dict(detail, impl=repr(val), expected=repr(exp), magnitude=mag),
                 code + "\nprint('impl', val, 'expected', exp); sys.exit(1 if not abs(val - exp) <= 1e-9 * %r else 0)" % mag)
            return False
        return True

    for _ in range(4):
        z, zk = rand_z(rng)
        det = {"z": repr(z), "z_kind": zk, "norm_a": na, "norm_b": nb, "norm_O": nO}
        try:
            # scale, *, reversed *, "division" and negation (scale by 1/z, -1: the class has no / or unary minus)
            if not vec_ok(a.scale(z), z * ra, abs(z) * na, "scale", det, "res = a.scale(%r); ref = %r * dense(a)" % (z, z)): return
            zz = complex(z) if isinstance(z, complex) else float(z)
            if not vec_ok(a * zz, z * ra, abs(z) * na, "mul", det, "res = a * %r; ref = %r * dense(a)" % (zz, z)): return
            if not vec_ok(zz * a, z * ra, abs(z) * na, "rmul", det, "res = %r * a; ref = %r * dense(a)" % (zz, z)): return
            if not vec_ok(a.scale(1 / z), ra / z, na / abs(z), "div", det, "res = a.scale(1 / %r); ref = dense(a) / %r" % (z, z)): return
            if not vec_ok(O.scale(z), z * RO, abs(z) * nO, "opscale", det, "res = O.scale(%r); ref = %r * dense(O)" % (z, z)): return
            # sub / add with prefactors
            a2 = a.copy(); a2.coeff = z
            rb2 = rb
            if not vec_ok(a.scale(z) - b, z * ra - rb, abs(z) * na + nb, "sub", det, "res = a.scale(%r) - b; ref = %r * dense(a) - dense(b)" % (z, z)): return
            same = bool(np.allclose(a2.coeff, b.coeff)) and a2.coeff != b.coeff
            r_add = a2.add(b.copy())
            stats["checks"] = stats.get("checks", 0) + 1
            e = rel_err(D(r_add), z * ra + rb, abs(z) * na + nb)
            if not e <= TOL:
                key = "add:nearly-equal-prefactors" if same else "scale-stream:add-prefactor"
                fail(key, dict(det, rel_err=e, note="np.allclose(coeff_a, coeff_b) is True although the prefactors differ" if same else ""),
                     "a2 = a.copy(); a2.coeff = %r; res = a2.add(b.copy()); ref = %r * dense(a) + dense(b)\ne = relerr(dense(res), ref, %r)\nprint('relative error', e); sys.exit(1 if not e <= 1e-9 else 0)" % (z, z, abs(z) * na + nb))
                if not same:
                    return
            # apply / contract and homogeneity  O (z a) = z (O a)
            az = a.scale(z)
            if not np.linalg.norm(RO @ ra) > 1e-6 * nO * na:
                continue                  # O annihilates a: the zero vector cannot be scaled / canonicalised by the code
            r1 = O.apply(az)
            if not vec_ok(r1, z * (RO @ ra), abs(z) * nO * na, "apply", det, "res = O.apply(a.scale(%r)); ref = %r * (dense(O) @ dense(a))" % (z, z)): return
            r2 = O.apply(a).scale(z)
            if not vec_ok(r2, D(r1), abs(z) * nO * na, "homogeneity-apply", det, "res = O.apply(a).scale(%r); ref = dense(O.apply(a.scale(%r)))" % (z, z)): return
            if True:
                G.lossless(az)
                r3 = O.contract(az)
                if not vec_ok(r3, z * (RO @ ra), abs(z) * nO * na, "contract", det, "az = a.scale(%r); G.lossless(az); res = O.contract(az); ref = %r * (dense(O) @ dense(a))" % (z, z)): return
            # dot / distance / norm and their homogeneity
            if not num_ok(az.dot(b), z * np.sum(ra * rb), abs(z) * na * nb, "dot", det, "val = a.scale(%r).dot(b); exp = %r * np.sum(dense(a) * dense(b))" % (z, z)): return
            if not num_ok(az.norm, abs(z) * na, abs(z) * na, "norm", det, "val = a.scale(%r).norm; exp = abs(%r) * np.linalg.norm(dense(a))" % (z, z)): return
            bz = b.scale(z)
            dtrue = abs(z) * float(np.linalg.norm(ra - rb))
            if dtrue > 1e-3 * abs(z) * (na + nb):
                stats["checks"] = stats.get("checks", 0) + 1
                dv = az.distance(bz)
                if not abs(dv - dtrue) <= 1e-6 * abs(z) * (na + nb):
                    fail("scale-stream:distance", dict(det, impl=repr(dv), expected=dtrue),
                         "val = a.scale(%r).distance(b.scale(%r)); exp = abs(%r) * np.linalg.norm(dense(a) - dense(b))\nprint('impl', val, 'expected', exp); sys.exit(1 if not abs(val - exp) <= 1e-6 * %r else 0)" % (z, z, z, abs(z) * (na + nb)))
                    return
            # normalize variants: the represented vector is unchanged up to the documented factor
            for kindn, fac in (("mps_only", None), ("mps_and_coeff", None), ("mps_norm_to_coeff", 1.0)):
                x = az.copy(); x.coeff = z if kindn != "mps_only" else 1
                before = D(x)
                x.normalize(kindn)
                tn = float(np.linalg.norm(G.dense_state(x)))
                stats["checks"] = stats.get("checks", 0) + 1
                okn = abs(tn - 1.0) <= 1e-9
                if kindn == "mps_norm_to_coeff":
                    okn = okn and rel_err(D(x), before) <= TOL
                elif kindn == "mps_and_coeff":
                    okn = okn and abs(abs(x.coeff) - 1.0) <= 1e-9
                if not okn:
                    fail("scale-stream:normalize", dict(det, kind=kindn, tensor_norm_after=tn, coeff_after=repr(x.coeff)),
                         "x = a.scale(%r).copy(); x.coeff = %r; x.normalize(%r); tn = float(np.linalg.norm(G.dense_state(x)))\nprint('norm of the tensor part after normalize:', tn, 'coeff', x.coeff); sys.exit(1 if not abs(tn - 1.0) <= 1e-9 else 0)"
                         % (z, (z if kindn != "mps_only" else 1), kindn))
                    return
        except Exception as ex:
            fail("scale-stream:exception", dict(det, exception=repr(ex), tb=traceback.format_exc()[-600:]), "print('an operation of the scale stream raised in the original run'); sys.exit(1)")
            return


def main():
    payload = json.loads(sys.stdin.read() or "{}")
    seed = int(payload.get("seed", 0))
    ncases = int(payload.get("ncases", 50))
    maxsite = int(payload.get("maxsite", 5))
    fails, stats = [], {}
    for k in range(ncases):
        before = len(fails)
        try:
            if k % 4 == 3:
                run_scale_case(seed * 100003 + k, fails, stats)
                continue
            run_case(seed * 100003 + k, maxsite, fails, stats)
        except Exception as ex:
            fails.append({"key": "generator:exception", "detail": {"exception": repr(ex), "tb": traceback.format_exc()[-1200:]}, "repro": None,
                          "case_seed": seed * 100003 + k})
    # one failure per key is enough
    seen, out = set(), []
    for f in fails:
        if f["key"] in seen:
            continue
        seen.add(f["key"])
        out.append(f)
    res = {"stats": stats, "failures": out, "nfail": len(fails)}
    if payload.get("out"):
        with open(payload["out"], "w") as f:
            json.dump(res, f, default=str)
        print("RESULT " + json.dumps({"file": payload["out"]}))
    else:
        print("RESULT " + json.dumps(res, default=str))


main()
