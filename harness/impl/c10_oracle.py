"""C10 dense oracle (the failing-input search; runs on every invocation).

  imag     evolve(mpo, -i tau) for every scheme that accepts an imaginary step vs expm(-tau H) psi / norm, for states and for
           purified density operators (MpDm), tau over more than two decades; order-p schemes must show their order
           (ratio test as in C09), schemes exact at sufficient bond dimension must stay below the solver tolerance
  thermal  ThermalProp from the maximally entangled state (0- and 1-exciton sector) vs canonical averages
           Tr(e^{-beta H} O)/Z restricted to the sector: energy, electronic and vibrational occupations; beta over two
           decades; several schemes; number of steps 1..N
payload: {seed, shard, nshards, tier, budget_s}
"""
import itertools
import time
import numpy as np
from c09_lib import *
from renormalizer.mps import ThermalProp

P = read_payload()
SEED = P["seed"] % (2 ** 31)
SHARD, NSH = int(P.get("shard", 0)), int(P.get("nshards", 1))
T0 = time.time()
BUDGET = float(P.get("budget_s", 100))
records = []
failures = {}


def fail(key, rec):
    failures.setdefault(key, []).append(rec)


def rng(tag):
    import zlib
    return np.random.RandomState((SEED * 1000003 + zlib.crc32(tag.encode())) % (2 ** 31))


RK_ORDERS = {"Forward_Euler": 1, "midpoint_RK2": 2, "Heun_RK2": 2, "Ralston_RK2": 2, "Kutta_RK3": 3, "C_RK4": 4,
             "38rule_RK4": 4, "Fehlberg5": 5, "RKF45": 5, "Cash-Karp45": 5}
EMBEDDED = {"RKF45", "Cash-Karp45"}


def scheme_table():
    t = []
    for N in (1, 2, 4, 6):
        t.append(("taylor%d" % N, "prop_and_compress", {"taylor_order": N}, ("order", N)))
    t.append(("tdrk4", "prop_and_compress_tdrk4", {}, ("order", 4)))
    for name, p in RK_ORDERS.items():
        cfg = {"rk_solver": name, "guess_dt": "IDT"}
        if name in EMBEDDED:
            cfg.update(adaptive=True, adaptive_rtol=1e300)
        t.append(("tdrk/" + name, "prop_and_compress_tdrk", cfg, ("order", p)))
    for solver, tol in (("krylov", 1e-7), ("RK45", 1e-4)):
        t.append(("ps/" + solver, "tdvp_ps", {"ivp_solver": solver}, ("exact", tol)))
        t.append(("ps2/" + solver, "tdvp_ps2", {"ivp_solver": solver}, ("exact", tol)))
    for m in ("tdvp_mu_vmf", "tdvp_vmf"):
        for fo in (True, False):
            t.append(("%s/ovlp%d" % (m, fo), m, {"force_ovlp": fo, "cfgmod": {"vmf_auto_switch": False}}, ("exact", 1e-4)))
    for solver in ("krylov", "RK45"):
        t.append(("cmf2/" + solver, "tdvp_mu_cmf", {"ivp_solver": solver}, ("order", 2)))
        t.append(("cmf1/" + solver, "tdvp_mu_cmf", {"ivp_solver": solver, "cfgmod": {"tdvp_cmf_midpoint": False}}, ("order", 1)))
        t.append(("cmf_trapz/" + solver, "tdvp_mu_cmf", {"ivp_solver": solver, "cfgmod": {"tdvp_cmf_c_trapz": True}}, ("order", 2)))
    return t


def run(st, mpo, method, cfg, tau, m_max=64):
    a = st.copy()
    cfg = dict(cfg)
    for k, v in list(cfg.items()):
        if v == "IDT":
            cfg[k] = -1j * tau
    set_cfg(a, method, m_max=m_max, **cfg)
    return a.evolve(mpo, -1j * tau)


def nref(h, psi, tau):
    v = sla.expm(-tau * h) @ psi
    return v / np.linalg.norm(v)


TAUS = [0.32 / 2 ** k for k in range(8)]


def check_imag(label, method, cfg, kind, mname, model, h, st, sname):
    mpo = Mpo(model)
    psi = dense_of(st)
    hn = float(np.linalg.norm(h, 2))
    errs = []
    for tau in TAUS:
        if time.time() - T0 > 1.5 * BUDGET:
            return
        try:
            out = run(st, mpo, method, cfg, tau)
            e = float(np.linalg.norm(dense_of(out) - nref(h, psi, tau)))
        except Exception as ex:
            rec = {"check": "imag", "scheme": label, "model": mname, "state": sname, "tau": tau, "exc": repr(ex)[:300]}
            records.append(rec)
            fail("exception/" + label, rec)
            return
        errs.append(e)
    rec = {"check": "imag", "scheme": label, "model": mname, "state": sname, "normH": hn, "errs": errs}
    records.append(rec)
    if kind[0] == "exact":
        bad = [(t, e) for t, e in zip(TAUS, errs) if not e <= kind[1]]
        if bad:
            rec["bad"] = bad[:3]
            fail("inexact/" + label, rec)
    else:
        bad = order_verdict(TAUS, errs, kind[1], hn)
        if bad:
            rec["bad"] = bad[:4]
            fail("order/" + label, rec)


def step_bound(kind, hn, tau):
    return kind[1] if kind[0] == "exact" else 10 * (hn * tau) ** (kind[1] + 1) + 1e-9


def check_imag_reuse(mname, model, h, st, sname, table):
    """the same input OBJECT cooled to two different imaginary times: each result must be the normalised exp(-tau H) psi0 of the
    ORIGINAL psi0, and the input must be unchanged (vector and prefactor)"""
    mpo = Mpo(model)
    hn = float(np.linalg.norm(h, 2))
    for label, method, cfg, kind in table:
        if time.time() - T0 > 1.5 * BUDGET:
            return
        try:
            a = st.copy()
            c = {k: (-0.02j if v == "IDT" else v) for k, v in cfg.items()}
            set_cfg(a, method, m_max=64, **c)
            psi = dense_of(a)
            errs = []
            for tau in (0.02, 0.03):
                out = a.evolve(mpo, -1j * tau)
                errs.append(float(np.linalg.norm(dense_of(out) - nref(h, psi, tau))))
            moved = float(np.linalg.norm(dense_of(a) - psi))
        except Exception as ex:
            rec = {"check": "imag-reuse", "scheme": label, "model": mname, "state": sname, "exc": repr(ex)[:300]}
            records.append(rec)
            fail("exception/imag-reuse/" + label.split("/")[0], rec)
            continue
        bounds = [step_bound(kind, hn, 0.02), step_bound(kind, hn, 0.03)]
        rec = {"check": "imag-reuse", "scheme": label, "model": mname, "state": sname, "errs": errs, "bounds": bounds, "input_moved": moved}
        records.append(rec)
        if moved > 1e-12 or not all(e <= b for e, b in zip(errs, bounds)):
            fail("imag-reuse/" + label.split("/")[0], rec)


import logging


class Cap(logging.Handler):
    def __init__(self):
        super().__init__(level=logging.DEBUG)
        self.acc = 0

    def emit(self, record):
        m = record.msg if isinstance(record.msg, str) else ""
        if m.startswith("evolution converged") or m.startswith("sub-step"):
            self.acc += 1


_lg = logging.getLogger("renormalizer.mps.mps")
_cap = Cap()
_lg.addHandler(_cap)
_lg.setLevel(logging.DEBUG)
_lg.propagate = False
IMAG_ADAPTIVE = [("ps", "tdvp_ps", {}, 1e-5, 8.0), ("ps2", "tdvp_ps2", {}, 1e-5, 8.0), ("cmf2", "tdvp_mu_cmf", {}, 1e-3, 8.0),
                 ("taylor", "prop_and_compress", {}, 1e-5, 32.0), ("tdrk/RKF45", "prop_and_compress_tdrk", {"rk_solver": "RKF45"}, 1e-5, 32.0)]


def check_imag_adaptive(mname, model, h, st, sname):
    mpo = Mpo(model)
    psi = dense_of(st)
    tau = 0.4
    ref = nref(h, psi, tau)
    for label, method, cfg, rtol, accf in IMAG_ADAPTIVE:
        if time.time() - T0 > 1.5 * BUDGET:
            return
        for guess in (0.05, 0.8):
            _cap.acc = 0
            try:
                a = st.copy()
                set_cfg(a, method, m_max=64, adaptive=True, guess_dt=-1j * guess, adaptive_rtol=rtol, **cfg)
                out = a.evolve(mpo, -1j * tau)
                e = float(np.linalg.norm(dense_of(out) - ref))
                moved = float(np.linalg.norm(dense_of(a) - psi))
            except Exception as ex:
                rec = {"check": "imag-adaptive", "scheme": label, "model": mname, "guess": guess, "exc": repr(ex)[:300]}
                records.append(rec)
                fail("exception/imag-adaptive/" + label.split("/")[0], rec)
                continue
            bound = 10 * accf * rtol * max(1, _cap.acc) + 1e-8
            rec = {"check": "imag-adaptive", "scheme": label, "model": mname, "state": sname, "guess": guess, "rtol": rtol, "err": e, "bound": bound,
                   "accepted_msgs": _cap.acc, "input_moved": moved}
            records.append(rec)
            if not (e <= bound and moved <= 1e-12):
                fail("imag-adaptive/" + label.split("/")[0], rec)


def check_thermal_adaptive(r):
    nbas = int(r.choice([2, 3]))
    model, h, dims, info = holstein_model(2, nbas, r)
    proj, cfgs = sector_projector(dims, [0, 2], 1)
    for label, method, rtol in (("ps2", "tdvp_ps2", 1e-5), ("ps", "tdvp_ps", 1e-5)):
        for beta in (0.5, 2.0):
            if time.time() - T0 > 1.5 * BUDGET:
                return
            try:
                a = MpDm.max_entangled_ex(model)
                a.compress_config = CompressConfig(CompressCriteria.fixed, max_bonddim=64)
                tp = ThermalProp(a, evolve_config=EvolveConfig(getattr(EvolveMethod, method), adaptive=True, guess_dt=-0.05j, adaptive_rtol=rtol))
                tp.evolve(evolve_dt=-1j * beta / 4, nsteps=2)
            except Exception as ex:
                rec = {"check": "thermal-adaptive", "scheme": label, "beta": beta, "exc": repr(ex)[:300]}
                records.append(rec)
                fail("exception/thermal-adaptive/" + label, rec)
                continue
            rho = proj @ sla.expm(-beta * h) @ proj
            z = np.trace(rho)
            e_ref = float(np.trace(rho @ h) / z)
            occ_ref = [float(np.trace(rho @ np.diag(np.array([c[k] for c in cfgs], dtype=float))) / z) for k in (0, 2, 1, 3)]
            occ = [float(x) for x in tp.e_occupations_array[-1]] + [float(x) for x in tp.ph_occupations_array[-1]]
            dev = max([abs(float(np.real(tp.energies[-1])) - e_ref) / max(1.0, abs(e_ref))] + [abs(a_ - b_) for a_, b_ in zip(occ, occ_ref)])
            rec = {"check": "thermal-adaptive", "scheme": label, "beta": beta, "dev": dev, "energy": float(np.real(tp.energies[-1])), "energy_ref": e_ref}
            records.append(rec)
            if not dev <= 1e-3:
                fail("thermal-adaptive/" + label, rec)


def sector_projector(dims, esites, sector):
    cfgs = list(itertools.product(*[range(d) for d in dims]))
    nex = np.array([sum(c[k] for k in esites) for c in cfgs])
    return np.diag((nex == sector).astype(float)), cfgs


def check_thermal(r, which):
    nbas = int(r.choice([2, 3]))
    model, h, dims, info = holstein_model(2, nbas, r)
    esites, vsites = [0, 2], [1, 3]
    label, method, cfg, tol = which
    for sector in (1, 0):
        proj, cfgs = sector_projector(dims, esites, sector)
        init = MpDm.max_entangled_ex(model) if sector == 1 else MpDm.max_entangled_gs(model)
        for beta in (0.05, 0.5, 5.0):
            if time.time() - T0 > 1.5 * BUDGET:
                return
            nst = int(r.choice([1, 2, 4])) * (1 if tol == "exact" else max(1, int(np.ceil(beta / 2 / 0.02))))
            nst = min(nst, 150)
            try:
                ec = EvolveConfig(getattr(EvolveMethod, method), **{k: (-1j * beta / 2 / nst if v == "IDT" else v) for k, v in cfg.items()})
                a = init.copy()
                a.compress_config = CompressConfig(CompressCriteria.fixed, max_bonddim=64)
                tp = ThermalProp(a, evolve_config=ec, auto_expand=(sector == 1))
                tp.evolve(evolve_dt=-1j * beta / 2 / nst, nsteps=nst)
            except Exception as ex:
                rec = {"check": "thermal", "scheme": label, "sector": sector, "beta": beta, "nsteps": nst, "exc": repr(ex)[:300]}
                records.append(rec)
                fail("exception/thermal/" + label, rec)
                continue
            rho = proj @ sla.expm(-beta * h) @ proj
            z = np.trace(rho)
            e_ref = float(np.trace(rho @ h) / z)
            occ_e = [float(np.trace(rho @ np.diag(np.array([c[k] for c in cfgs], dtype=float))) / z) for k in esites]
            occ_v = [float(np.trace(rho @ np.diag(np.array([c[k] for c in cfgs], dtype=float))) / z) for k in vsites]
            got_e = float(np.real(tp.energies[-1]))
            got_oe = [float(x) for x in tp.e_occupations_array[-1]]
            got_ov = [float(x) for x in tp.ph_occupations_array[-1]]
            scale = max(1.0, abs(e_ref))
            dev = max([abs(got_e - e_ref) / scale] + [abs(a_ - b_) for a_, b_ in zip(got_oe + got_ov, occ_e + occ_v)])
            hn = float(np.linalg.norm(h, 2))
            bound = 1e-5 if tol == "exact" else 50 * nst * (hn * beta / 2 / nst) ** (tol + 1) + 1e-6
            rec = {"check": "thermal", "scheme": label, "sector": sector, "beta": beta, "nsteps": nst, "dev": dev, "bound": bound,
                   "energy": got_e, "energy_ref": e_ref}
            records.append(rec)
            if not dev <= bound:
                fail("thermal/" + label, rec)


def check_thermal_other_model(r):
    """ThermalProp(init_mpdm, h_mpo_model=M2) with M2 != init_mpdm.model: the purified state must be the normalised
    exp(-beta H2 / 2) applied to the initial purified operator, the averages those of H2 (the GIVEN Hamiltonian)."""
    nbas = int(r.choice([2, 3]))
    m1, h1, dims, info1 = holstein_model(2, nbas, r)
    m2, h2, dims2, info2 = holstein_model(2, nbas, r)         # other energies, couplings, hopping; same degrees of freedom
    esites, vsites = [0, 2], [1, 3]
    cfgs = list(itertools.product(*[range(d) for d in dims]))
    for label, method, nst_per in (("ps/krylov", "tdvp_ps", 2), ("taylor4", "prop_and_compress", None)):
        for beta in (0.5, 3.0):
            if time.time() - T0 > 1.5 * BUDGET:
                return
            nst = nst_per if nst_per else max(4, int(np.ceil(beta / 2 / 0.02)))
            init = MpDm.max_entangled_ex(m1)
            rho0 = dense_of(init)
            try:
                a = init.copy()
                a.compress_config = CompressConfig(CompressCriteria.fixed, max_bonddim=64)
                tp = ThermalProp(a, h_mpo_model=m2, evolve_config=EvolveConfig(getattr(EvolveMethod, method)))
                tp.evolve(evolve_dt=-1j * beta / 2 / nst, nsteps=nst)
            except Exception as ex:
                rec = {"check": "thermal-other-model", "scheme": label, "beta": beta, "exc": repr(ex)[:300]}
                records.append(rec)
                fail("exception/thermal-other-model", rec)
                continue
            ref = sla.expm(-beta / 2 * h2) @ rho0
            ref = ref / np.linalg.norm(ref)
            got = dense_of(tp.latest_mps)
            e_op = float(np.linalg.norm(got - ref))
            ex_ = lambda o: float(np.real(np.trace(ref.conj().T @ o @ ref)))
            occ_ref = [ex_(np.diag(np.array([c[k] for c in cfgs], dtype=float))) for k in esites + vsites]
            occ = [float(x) for x in tp.e_occupations_array[-1]] + [float(x) for x in tp.ph_occupations_array[-1]]
            dev = max([abs(a_ - b_) for a_, b_ in zip(occ, occ_ref)] + [abs(float(np.real(tp.energies[-1])) - ex_(h2)) / max(1.0, abs(ex_(h2)))])
            hn = float(np.linalg.norm(h2, 2))
            bound = 1e-5 if nst_per else 50 * nst * (hn * beta / 2 / nst) ** 5 + 1e-6
            rec = {"check": "thermal-other-model", "scheme": label, "beta": beta, "nsteps": nst, "operator_dist": e_op, "expectation_dev": dev,
                   "bound": bound, "occupations": occ, "occupations_ref_H2": occ_ref}
            records.append(rec)
            if not (dev <= bound and e_op <= 10 * bound):
                fail("thermal-other-model/" + label, rec)


THERMAL = [("ps/krylov", "tdvp_ps", {}, "exact"), ("ps2/krylov", "tdvp_ps2", {}, "exact"),
           ("tdrk4", "prop_and_compress_tdrk4", {}, 4), ("taylor4", "prop_and_compress", {}, 4),
           ("tdrk/C_RK4", "prop_and_compress_tdrk", {"rk_solver": "C_RK4", "guess_dt": "IDT"}, 4),
           ("tdvp_vmf", "tdvp_vmf", {}, "exact")]

table = scheme_table()
jobs = []
for kind in ("spin", "holstein"):
    for li in range(len(table)):
        jobs.append(("imag", kind, li))
for ti_ in range(len(THERMAL)):
    jobs.append(("thermal", "holstein", ti_))
jobs.append(("thermal-other-model", "holstein", 0))
for kind in ("spin", "holstein"):
    for li in range(0, len(table), 10):
        jobs.append(("imag-reuse", kind, li))
    jobs.append(("imag-adaptive", kind, 0))
jobs.append(("thermal-adaptive", "holstein", 0))
mine = [j for i, j in enumerate(jobs) if i % NSH == SHARD]
skipped = 0
for what, kind, li in mine:
    if time.time() - T0 > BUDGET:
        skipped += 1
        continue
    r = rng("%s/model" % kind)
    if kind == "spin":
        n = int(r.choice([3, 4]))
        model, h, dims = spin_model(n, r)
        mname, qn = "spin%d" % n, 0
    else:
        nb = int(r.choice([2, 3]))
        model, h, dims, info = holstein_model(2, nb, r)
        mname, qn = "holstein2x%d" % nb, 1
    st_r = rand_state(model, r, qn, 16)
    st_c = rand_state(model, r, qn, 16, complex_=True)
    r2 = rng("%s/%s/%d" % (what, kind, li))
    if what == "imag":
        label, method, cfg, knd = table[li]
        check_imag(label, method, cfg, knd, mname, model, h, st_c if li % 2 else st_r, "complex" if li % 2 else "real")
        if not method.startswith("tdvp") and li % 3 == 0:
            check_imag(label, method, cfg, knd, mname, model, h, MpDm.from_mps(st_r), "mpdm")
        elif method.startswith("tdvp_ps") and qn == 1:
            e = MpDm.from_mps(st_r)
            e.compress_config = CompressConfig(CompressCriteria.fixed, max_bonddim=64)
            check_imag(label, method, cfg, knd, mname, model, h, e.expand_bond_dimension(hint_mpo=Mpo(model), coef=1e-6), "mpdm-expanded")
    elif what == "thermal-other-model":
        check_thermal_other_model(r2)
    elif what == "imag-reuse":
        check_imag_reuse(mname, model, h, st_c if kind == "spin" else st_r, "complex" if kind == "spin" else "real", table[li:li + 10])
    elif what == "imag-adaptive":
        check_imag_adaptive(mname, model, h, st_r, "real")
    elif what == "thermal-adaptive":
        check_thermal_adaptive(r2)
    else:
        check_thermal(r2, THERMAL[li])

emit({"n": len(records), "failures": {k: v[:2] for k, v in failures.items()}, "nfail": {k: len(v) for k, v in failures.items()},
      "records": records if P.get("full") else [], "skipped": skipped, "wall": time.time() - T0})
