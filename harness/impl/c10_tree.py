"""C10 on trees: thermal purification and imaginary-time propagation for several TREE SHAPES.

A. tn.utils_eph.max_entangled_ex(basis_tree.add_auxiliary_space()) for a Holstein trimer on linear / binary / binary_mctdh / general_mctdh(3) / t3ns
   trees and two hand-built trees with electrons on internal nodes with two and three children: the beta = 0 state must be the
   (normalised) identity on the one-exciton sector (dense, P x Q), i.e. expectation values Tr(P1 O)/Tr(P1); after imaginary-time propagation to beta/2
   with every tree scheme the purified operator must be the normalised exp(-beta H/2) rho0 and occupations the dense Gibbs averages.
B. TTNS.evolve(ttno, -i tau) on inputs whose prefactor is not 1 (modulus != 1, complex phase; norm carried by the prefactor or by the tensors): the
   returned VECTOR (coeff x tensors) must be the normalised exp(-tau H) psi for every tree scheme and shape.
payload: {seed}
"""
import itertools
import time
import numpy as np
from c09_lib import *
from renormalizer.model.basis import BasisDummy
from renormalizer.tn import BasisTree, TTNO, TTNS, TreeNodeBasis
from renormalizer.tn.utils_eph import max_entangled_ex
from renormalizer.mps.mps import expand_bond_dimension_general

P = read_payload()
rs = np.random.RandomState(P["seed"] % (2 ** 31))
T0 = time.time()
BUDGET = float(P.get("budget_s", 150))
bad = []
recs = []
METHODS = {"ps": EvolveMethod.tdvp_ps, "ps2": EvolveMethod.tdvp_ps2, "vmf": EvolveMethod.tdvp_vmf, "pc": EvolveMethod.prop_and_compress_tdrk4}


def trimer(nbas=2):
    basis, terms = [], []
    w = [float(rs.uniform(0.7, 1.3)) for _ in range(3)]
    for i in range(3):
        basis += [ba.BasisSimpleElectron("e%d" % i), ba.BasisSHO("v%d" % i, w[i], nbas)]
        terms += [Op(r"a^\dagger a", "e%d" % i, float(rs.uniform(0.0, 0.6))), Op(r"b^\dagger b", "v%d" % i, w[i]),
                  Op(r"a^\dagger a", "e%d" % i, float(rs.uniform(0.3, 0.8))) * Op(r"b^\dagger+b", "v%d" % i)]
    for i, j in ((0, 1), (1, 2)):
        J = float(rs.uniform(0.3, 0.8))
        terms += [Op(r"a^\dagger a", ["e%d" % i, "e%d" % j], J), Op(r"a^\dagger a", ["e%d" % j, "e%d" % i], J)]
    return basis, terms


def shapes(basis):
    b = {x.dof: x for x in basis}
    out = [("linear", BasisTree.linear(basis)), ("binary", BasisTree.binary(basis)),
           # (max_entangled_ex asserts one physical set per node: the MCTDH trees are used with contracted primitives)
           ("binary_mctdh-contracted", BasisTree.binary_mctdh(basis, contract_primitive=True)),
           ("general_mctdh3-contracted", BasisTree.general_mctdh(basis, 3, contract_primitive=True)), ("t3ns", BasisTree.t3ns(basis))]
    # electrons on internal nodes: e0 root with two children; star: e1 root with three children
    n = {k: TreeNodeBasis([v]) for k, v in b.items()}
    n["e0"].add_child(n["v0"]); n["e0"].add_child(n["e1"]); n["e1"].add_child(n["v1"]); n["e1"].add_child(n["e2"]); n["e2"].add_child(n["v2"])
    out.append(("electrons-internal", BasisTree(n["e0"])))
    m = {k: TreeNodeBasis([v]) for k, v in b.items()}
    m["e1"].add_child(m["v1"]); m["e1"].add_child(m["e0"]); m["e1"].add_child(m["e2"]); m["e0"].add_child(m["v0"]); m["e2"].add_child(m["v2"])
    out.append(("star-on-electron", BasisTree(m["e1"])))
    return out


def dense_model(basis, terms):
    mpo = Mpo(Model(basis, terms))
    return np.asarray(mpo.todense())


basis, terms = trimer()
H = dense_model(basis, terms)
dims = [x.nbas for x in basis]
cfgs = list(itertools.product(*[range(d) for d in dims]))
nex = np.array([c[0] + c[2] + c[4] for c in cfgs])
P1 = np.diag((nex == 1).astype(float))
nops = [np.diag(np.array([c[k] for c in cfgs], dtype=float)) for k in range(6)]
D = len(cfgs)


def purified_dense(ttns, bt2):
    pset = [x for x in bt2.basis_list if not isinstance(x, BasisDummy) and not (isinstance(x.dof, tuple) and x.dof[0] == "Q")]
    pset = sorted(pset, key=lambda x: [y.dof for y in basis].index(x.dof))
    qset = [next(x for x in bt2.basis_list if isinstance(x.dof, tuple) and x.dof[0] == "Q" and (x.dofs == p.dofs or x.dof[1] == p.dofs or x.dof[1] == p.dof)) for p in pset]
    return np.asarray(ttns.todense(pset + qset)).reshape(D, D) * ttns.coeff


PART, NPARTS = int(P.get("part", 0)), int(P.get("nparts", 1))
for si, (sname, bt) in enumerate(shapes(basis)):
    if time.time() - T0 > BUDGET:
        break
    if si % NPARTS != PART:
        continue
    try:
        bt2 = bt.add_auxiliary_space()
        rho0 = max_entangled_ex(bt2)
        ttno = TTNO(bt, terms)
        d0 = purified_dense(rho0, bt2)
        ref0 = P1 / np.linalg.norm(P1)
        e0 = float(np.linalg.norm(d0 - ref0))
        occ0 = [float(np.real(rho0.expectation(TTNO(bt, Op(r"a^\dagger a", "e%d" % i))))) for i in range(3)]
        rec = {"what": "beta=0", "shape": sname, "dist_to_identity_on_1ex": e0, "e_occupations": occ0}
        recs.append(rec)
        if not (e0 <= 1e-12 and max(abs(o - 1.0 / 3) for o in occ0) <= 1e-12):
            bad.append(rec)
        heavy = sname in ("binary", "electrons-internal")
        for mname, beta, nst in ((("ps", 1.5, 3), ("ps2", 1.5, 3), ("pc", 0.6, 30), ("vmf", 0.6, 2)) if heavy else (("ps", 1.5, 3), ("ps2", 1.5, 3))):
            if time.time() - T0 > BUDGET:
                break
            a = rho0.copy()
            a.compress_config = CompressConfig(CompressCriteria.fixed, max_bonddim=64)
            if mname != "pc":
                a = expand_bond_dimension_general(a, hint_mpo=ttno)
            a.evolve_config = EvolveConfig(METHODS[mname], force_ovlp=False)
            a.compress_config = CompressConfig(CompressCriteria.fixed, max_bonddim=64)
            start = purified_dense(a, bt2)
            for _ in range(nst):
                a = a.evolve(ttno, -1j * beta / 2 / nst)
            got = purified_dense(a, bt2)
            ref = sla.expm(-beta / 2 * H) @ start
            ref = ref / np.linalg.norm(ref)
            e = float(np.linalg.norm(got - ref))
            rho = P1 @ sla.expm(-beta * H) @ P1
            z = np.trace(rho)
            occ_ref = [float(np.trace(rho @ nops[2 * i]) / z) for i in range(3)]
            occ = [float(np.real(a.expectation(TTNO(bt, Op(r"a^\dagger a", "e%d" % i))))) for i in range(3)]
            tol = 1e-6 if mname in ("ps", "ps2") else 2e-4
            rec = {"what": "thermal", "shape": sname, "scheme": mname, "beta": beta, "dist_to_dense": e, "e_occupations": occ, "gibbs": occ_ref}
            recs.append(rec)
            if not (e <= tol and max(abs(x - y) for x, y in zip(occ, occ_ref)) <= 10 * tol):
                bad.append(rec)
    except Exception as ex:
        bad.append({"what": "thermal tree", "shape": sname, "exc": repr(ex)[:300]})

# ---------------------------------------------------------------- B. prefactor handling of imaginary-time TTNS.evolve
sbasis = [ba.BasisHalfSpin(i) for i in range(5)]
smodel, sh, sdims = spin_model(5, rs)
sterms = list(smodel.ham_terms)
sbasis = list(smodel.basis)
for si, (sname, bt) in enumerate((("linear", BasisTree.linear(sbasis)), ("binary", BasisTree.binary(sbasis)), ("binary_mctdh", BasisTree.binary_mctdh(sbasis)), ("t3ns", BasisTree.t3ns(sbasis)))):
    if si % NPARTS != PART:
        continue
    ttno = TTNO(bt, sterms)
    order = [x for x in bt.basis_list if not isinstance(x, BasisDummy)]
    order = sorted(order, key=lambda x: x.dof)
    for mname in ("ps", "ps2", "vmf", "pc"):
        for where, c in (("coeff", 2.5), ("coeff", 0.6 * np.exp(0.8j)), ("tensors", 2.5)):
            if time.time() - T0 > BUDGET:
                break
            try:
                np.random.seed(int(rs.randint(0, 2 ** 31 - 1)))
                st = TTNS.random(bt, 0, 16)
                st.canonicalise()
                st.normalize("ttns_and_coeff")
                if where == "coeff":
                    st.coeff = st.coeff * c
                else:
                    st = st.scale(c)
                st.evolve_config = EvolveConfig(METHODS[mname], force_ovlp=False)
                st.compress_config = CompressConfig(CompressCriteria.fixed, max_bonddim=64)
                psi = np.asarray(st.todense(order)).ravel() * st.coeff
                tau = 0.05 if mname == "pc" else 0.2
                out = st.evolve(ttno, -1j * tau)
                got = np.asarray(out.todense(order)).ravel() * out.coeff
                ref = sla.expm(-tau * sh) @ psi
                ref = ref / np.linalg.norm(ref)
                # the phase of a complex prefactor is kept, the modulus normalised
                e = float(np.linalg.norm(got - ref))
                tol = {"ps": 1e-6, "ps2": 1e-6, "vmf": 2e-4, "pc": 1e-4}[mname]
                rec = {"what": "imag prefactor", "shape": sname, "scheme": mname, "where": where, "c": str(c), "dist_to_normalised_dense": e,
                       "norm_of_result": float(np.linalg.norm(got))}
                recs.append(rec)
                if not e <= tol:
                    bad.append(rec)
            except Exception as ex:
                bad.append({"what": "imag prefactor", "shape": sname, "scheme": mname, "where": where, "exc": repr(ex)[:300]})
emit({"n": len(recs), "bad": bad[:8], "nbad": len(bad), "samples": recs[:2], "wall": time.time() - T0})
