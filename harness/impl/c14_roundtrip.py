"""C14 round-trip correspondence on the implementation: dump + load of Mps / MpDm / Mpo / TTNS, comparing every
field exactly and then running further operations on the original and on the reloaded object.

stdin: {"cases": [case, ...]}   case = {"id", "kind": mps|mpdm|mpo|ttns, "nq": 1|2, "nsites", "cplx", "m_max",
        "gauge": [ops], "coeff": [re, im], "spill": bool, "tree": linear|binary|ternary, "legacy": null|"0.1"|"0.2"|"0.3", "seed"}
stdout: RESULT {"results": [{"id", "ok", "mismatch": [...], "info": {...}}]}
"""
import json
import os
import shutil
import sys
import tempfile
import traceback

import renormalizer  # noqa: F401
import numpy as np

from renormalizer import Model, Mps, Mpo, Op, BasisHalfSpin, BasisSHO, BasisSimpleElectron
from renormalizer.mps import MpDm

TOL = 1e-9


def make_model(nq, n):
    if nq == 1:
        basis = []
        for i in range(n):
            basis.append(BasisSimpleElectron("e%d" % i) if i % 2 == 0 else BasisSHO("v%d" % i, 1.0 + 0.1 * i, 3))
        terms = [Op(r"a^\dagger a", "e0", 0.3)]
        for i in range(n):
            if i % 2 == 1:
                terms.append(Op(r"b^\dagger b", "v%d" % i, 1.0 + 0.1 * i))
                terms.append(Op(r"a^\dagger a", "e%d" % (i - 1)) * Op(r"b^\dagger+b", "v%d" % i) * 0.2)
        es = [b.dof for b in basis if b.is_electron]
        for a, b in zip(es, es[1:]):
            terms += [Op(r"a^\dagger a", [a, b], 0.1), Op(r"a^\dagger a", [b, a], 0.1)]
        return Model(basis, terms), 1
    basis = [BasisHalfSpin(i, sigmaqn=[[0, 0], [1, 0]] if i % 2 == 0 else [[0, 0], [0, 1]]) for i in range(n)]
    terms = [Op("sigma_z", i, 0.5 + 0.1 * i) for i in range(n)]
    for i in range(n - 2):
        terms += [Op("sigma_+ sigma_-", [i, i + 2], 0.2), Op("sigma_- sigma_+", [i, i + 2], 0.2)]
    return Model(basis, terms), [1, 1]


def apply_gauge(mp, ops):
    for o in ops:
        if o == "cano":
            mp.canonicalise()
        elif o == "left":
            mp.ensure_left_canonical()
        elif o == "right":
            mp.ensure_right_canonical()
        elif isinstance(o, list) and o[0] == "stop":
            mp.canonicalise(stop_idx=o[1] % len(mp))
        elif isinstance(o, list) and o[0] == "move":
            mp.move_qnidx(o[1] % len(mp))
        elif o == "flip":
            mp.to_right = not mp.to_right
    return mp


def arr(x):
    return np.asarray(x.array if hasattr(x, "array") else x)


def cmp_arrays(name, a, b, mism, exact=True):
    a, b = np.asarray(a), np.asarray(b)
    if a.shape != b.shape:
        mism.append("%s: shape %s vs %s" % (name, a.shape, b.shape))
        return False
    if np.array_equal(a, b):
        return True
    if exact:
        mism.append("%s: values differ (max abs %g)" % (name, float(np.max(np.abs(a - b)))))
        return False
    scale = max(1.0, float(np.max(np.abs(a))))
    if float(np.max(np.abs(a - b))) > TOL * scale:
        mism.append("%s: differ beyond tolerance (max abs %g)" % (name, float(np.max(np.abs(a - b)))))
        return False
    return True


def cmp_chain_fields(o, l, mism, with_coeff):
    if len(o) != len(l):
        mism.append("site number %d vs %d" % (len(o), len(l)))
        return
    if type(o) is not type(l):
        mism.append("type %s vs %s" % (type(o).__name__, type(l).__name__))
    for i in range(len(o)):
        a, b = arr(o[i]), arr(l[i])
        if a.dtype != b.dtype:
            mism.append("tensor %d dtype %s vs %s" % (i, a.dtype, b.dtype))
        cmp_arrays("tensor %d" % i, a, b, mism)
    if np.dtype(o.dtype) != np.dtype(l.dtype):
        mism.append("dtype attribute %s vs %s" % (o.dtype, l.dtype))
    if len(o.qn) != len(l.qn):
        mism.append("number of bond label arrays %d vs %d" % (len(o.qn), len(l.qn)))
    else:
        for i in range(len(o.qn)):
            cmp_arrays("qn[%d]" % i, np.asarray(o.qn[i]).astype(int), np.asarray(l.qn[i]).astype(int), mism)
    if o.qnidx != l.qnidx:
        mism.append("qnidx %r vs %r" % (o.qnidx, l.qnidx))
    cmp_arrays("qntot", np.asarray(o.qntot), np.asarray(l.qntot), mism)
    if bool(o.to_right) != bool(l.to_right) or not isinstance(l.to_right, bool):
        mism.append("to_right %r vs %r" % (o.to_right, l.to_right))
    if with_coeff:
        if complex(o.coeff) != complex(l.coeff):
            mism.append("coeff %r vs %r" % (o.coeff, l.coeff))


def same_configs(o, l):
    l.compress_config = o.compress_config.copy()
    for a in ("evolve_config", "optimize_config"):
        if hasattr(o, a):
            setattr(l, a, getattr(o, a))


def both(name, f, o, l, mism, skipped, exact=False):
    """run the same further operation on the original and on the reloaded object; an operation the ORIGINAL
    rejects is not applicable (skipped) -- only a difference between the two is a round-trip failure"""
    try:
        r1 = f(o)
    except Exception as e:
        skipped.append("%s: not applicable to the original (%s)" % (name, type(e).__name__))
        return
    try:
        r2 = f(l)
    except Exception as e:
        mism.append("%s raised on the reloaded object only: %r" % (name, e))
        return
    if not isinstance(r1, (list, tuple)):
        r1, r2 = [r1], [r2]
    for i, (x, y) in enumerate(zip(r1, r2)):
        if isinstance(x, (bool, int)) and not isinstance(x, np.ndarray):
            if x != y:
                mism.append("%s[%d]: %r vs %r" % (name, i, x, y))
        else:
            cmp_arrays("%s[%d]" % (name, i), x, y, mism, exact=exact)


def cano(x):
    c = x.copy()
    c.move_qnidx(0 if c.to_right else len(c) - 1)
    c.canonicalise()
    return [arr(t) for t in c] + [np.asarray(q) for q in c.qn] + [int(c.qnidx), bool(c.to_right), c.todense() * c.coeff]


def later_ops_chain(o, l, mpo, mism, skipped):
    same_configs(o, l)
    both("expectation", lambda x: x.expectation(mpo), o, l, mism, skipped)
    both("move_qnidx+canonicalise", cano, o, l, mism, skipped)
    both("todense", lambda x: x.todense() * x.coeff, o, l, mism, skipped)

    def app(x):
        r = mpo.apply(x)
        return r.todense() * r.coeff
    both("apply", app, o, l, mism, skipped)

    def add(x):
        r = x.add(x)
        return r.todense() * r.coeff
    both("add", add, o, l, mism, skipped)



# ---------------------------------------------------------------------------------------------------
# container kinds of the fields (later behaviour depends on them: a 0-d ndarray prefactor is mutable and
# shared by copies, an object-ndarray `qn` is sliced as a VIEW) and long operation sequences with
# "the source object is unchanged" checks after every step
def kind_of(v):
    if isinstance(v, np.ndarray):
        if v.dtype == object:
            return "objarray"
        return "ndarray0d" if v.ndim == 0 else "ndarray"
    if isinstance(v, (bool, np.bool_)):
        return "pyscalar" if isinstance(v, bool) else "npscalar"
    if isinstance(v, (int, float, complex)):
        return "pyscalar"
    if isinstance(v, np.generic):
        return "npscalar"
    return type(v).__name__


def chain_types(x, with_coeff=True):
    t = {"qn": kind_of(x.qn) if not isinstance(x.qn, list) else "list",
         "qn_entry": kind_of(x.qn[0]) if not isinstance(x.qn[0], list) else "list",
         "qnidx": kind_of(x.qnidx), "qntot": kind_of(x.qntot) + ":" + str(getattr(x.qntot, "dtype", "")),
         "to_right": kind_of(x.to_right)}
    if with_coeff:
        t["coeff"] = kind_of(x.coeff)
    return t


def chain_snapshot(x):
    return {"mts": [np.array(arr(t)) for t in x], "qn": [np.array(q) for q in x.qn], "qnidx": int(x.qnidx),
            "to_right": bool(x.to_right), "qntot": np.array(x.qntot), "coeff": complex(np.asarray(x.coeff).item())}


def chain_changed(snap, x):
    out = []
    if int(x.qnidx) != snap["qnidx"]:
        out.append("qnidx %d -> %d" % (snap["qnidx"], x.qnidx))
    if bool(x.to_right) != snap["to_right"]:
        out.append("to_right")
    if not np.array_equal(np.array(x.qntot), snap["qntot"]):
        out.append("qntot")
    if complex(np.asarray(x.coeff).item()) != snap["coeff"]:
        out.append("coeff %r -> %r" % (snap["coeff"], complex(np.asarray(x.coeff).item())))
    for i, t in enumerate(x):
        if not np.array_equal(arr(t), snap["mts"][i]):
            out.append("tensor %d" % i)
    if len(x.qn) != len(snap["qn"]):
        out.append("number of label arrays")
    else:
        for i, q in enumerate(x.qn):
            if not np.array_equal(np.array(q), snap["qn"][i]):
                out.append("qn[%d] %s -> %s" % (i, snap["qn"][i].tolist(), np.array(q).tolist()))
    return out


def tree_snapshot(x):
    return {"t": [np.array(n.tensor) for n in x.node_list], "qn": [np.array(n.qn) for n in x.node_list],
            "coeff": complex(np.asarray(x.coeff).item())}


def tree_changed(snap, x):
    out = []
    if complex(np.asarray(x.coeff).item()) != snap["coeff"]:
        out.append("coeff %r -> %r" % (snap["coeff"], complex(np.asarray(x.coeff).item())))
    for i, n in enumerate(x.node_list):
        if not np.array_equal(n.tensor, snap["t"][i]):
            out.append("node %d tensor" % i)
        if not np.array_equal(n.qn, snap["qn"][i]):
            out.append("node %d qn" % i)
    return out


def run_sequence(steps, x, snapshot, changed):
    """steps: [(name, f)], f(x) -> list of arrays/scalars, must not modify x.  Returns per step
    ("ok", result) | ("raised", repr) and, after every step, what changed in x itself."""
    snap = snapshot(x)
    out = []
    for name, f in steps:
        try:
            r = f(x)
            res = ("ok", r if isinstance(r, (list, tuple)) else [r])
        except Exception as e:
            res = ("raised", "%s: %s" % (type(e).__name__, str(e)[:150]))
        try:
            ch = changed(snap, x)
        except Exception as e:
            ch = ["source object unusable after the step: %r" % (e,)]
        out.append((name, res, ch))
    return out


def compare_sequences(so, sl, mism, skipped):
    for (name, ro, cho), (_, rl, chl) in zip(so, sl):
        if cho:
            skipped.append("%s: changes the ORIGINAL object too (%s) -- not a round-trip matter" % (name, "; ".join(cho[:2])))
        elif chl:
            mism.append("step '%s' on an object DERIVED from the reloaded state changed the reloaded state itself: %s" % (name, "; ".join(chl[:3])))
        if ro[0] == "raised":
            skipped.append("%s: not applicable to the original (%s)" % (name, ro[1][:60]))
            continue
        if rl[0] == "raised":
            mism.append("step '%s' raised on the reloaded object only: %s" % (name, rl[1]))
            continue
        for i, (a, b) in enumerate(zip(ro[1], rl[1])):
            cmp_arrays("step '%s'[%d]" % (name, i), a, b, mism, exact=False)


def dense_c(x):
    return x.todense() * np.asarray(x.coeff).item()


def chain_steps(mpo, kind):
    from renormalizer.utils import CompressConfig, CompressCriteria

    def regauge(x):
        c = x.copy()
        c.move_qnidx(0 if c.to_right else len(c) - 1)
        c.canonicalise()
        return [dense_c(c), int(c.qnidx), bool(c.to_right)] + [np.asarray(q) for q in c.qn]

    def right_cano(x):
        c = x.copy()
        c.move_qnidx(0 if c.to_right else len(c) - 1)
        c.ensure_right_canonical()
        return [dense_c(c)]

    def compress(x):
        c = x.copy()
        c.move_qnidx(0 if c.to_right else len(c) - 1)
        c.compress_config = CompressConfig(CompressCriteria.fixed, max_bonddim=64)
        c = c.canonicalise().compress()
        return [dense_c(c)]

    def norm1(x):
        c = x.copy().normalize("mps_and_coeff")
        return [dense_c(c), np.asarray(c.coeff).item()]

    def norm2(x):
        c = x.copy().normalize("mps_norm_to_coeff")
        return [dense_c(c), np.asarray(c.coeff).item()]

    def evolve(x):
        c = x.copy()
        c.move_qnidx(0 if c.to_right else len(c) - 1)
        c.canonicalise()
        e = c.evolve(mpo, -0.05j)
        return [dense_c(e)]

    steps = [("expectation", lambda x: x.expectation(mpo)), ("copy+regauge", regauge), ("copy+ensure_right_canonical", right_cano),
             ("copy+lossless compress", compress), ("copy+normalize(mps_and_coeff)", norm1), ("copy+normalize(mps_norm_to_coeff)", norm2)]
    if kind == "mps":
        steps.append(("copy+imaginary-time evolve", evolve))
    steps += [("expectation again", lambda x: x.expectation(mpo)), ("copy+regauge again", regauge), ("todense again", dense_c)]
    return steps


def tree_steps(ttno):
    def tcano(x):
        c = x.copy()
        c.canonicalise()
        return [dense_c(c)] + [n.qn for n in c.node_list]

    def tcompress(x):
        c = x.copy()
        c.canonicalise()
        c.compress()
        return [dense_c(c)]

    def n1(x):
        c = x.copy().normalize("ttns_and_coeff")
        return [dense_c(c), np.asarray(c.coeff).item()]

    def n2(x):
        c = x.copy().normalize("ttns_norm_to_coeff")
        return [dense_c(c), np.asarray(c.coeff).item()]

    def cplx(x):
        c = x.to_complex()
        c.normalize("ttns_norm_to_coeff")
        return [dense_c(c)]

    def ev(x):
        e = x.evolve(ttno, -0.05j)
        return [dense_c(e)]

    def ev_real(x):
        e = x.evolve(ttno, 0.05)
        return [dense_c(e)]

    return [("expectation", lambda x: x.expectation(ttno)), ("copy+canonicalise", tcano), ("copy+compress", tcompress),
            ("copy+normalize(ttns_and_coeff)", n1), ("copy+normalize(ttns_norm_to_coeff)", n2), ("to_complex+normalize", cplx),
            ("imaginary-time evolve", ev), ("imaginary-time evolve again", ev), ("real-time evolve", ev_real),
            ("expectation again", lambda x: x.expectation(ttno)), ("todense again", dense_c)]


def legacy_file(src, dst, version):
    """rewrite a 0.4 dump into the key layout the loader expects of an older version (synthesised; the
    current library has no writer for these)"""
    with np.load(src, allow_pickle=True) as z:
        d = {k: z[k] for k in z.files}
    d = {k: v for k, v in d.items() if not k.startswith("subqn_")}
    d["version"] = version
    if version == "0.1":
        d["left"] = d.pop("to_right")
        d.pop("coeff")
    elif version == "0.2":
        d["tdh_wfns"] = np.array([0.0, d.pop("coeff").item(0)])
    np.savez(dst, **d)


def run_chain(case, tmp):
    mism = []
    info = {}
    np.random.seed(case["seed"] % (2 ** 31))
    model, qntot = make_model(case["nq"], case["nsites"])
    mpo = Mpo(model)
    kind = case["kind"]
    if kind == "mpo":
        obj = mpo.copy()
        if case["cplx"]:
            obj = obj.to_complex()
            obj = obj.scale(np.exp(0.37j))
        apply_gauge(obj, case["gauge"])
    else:
        m = Mps.random(model, qntot, case["m_max"])
        cplx_now = case["cplx"] and kind == "mps"
        if cplx_now:
            m = m.to_complex()
            for i in range(len(m)):
                m[i] = arr(m[i]) * np.exp(1j * (0.3 + 0.2 * i))
        apply_gauge(m, case["gauge"])
        if not case.get("default_coeff"):
            m.coeff = complex(*case["coeff"]) if cplx_now else float(case["coeff"][0])
        if kind == "mpdm":
            obj = mpo.apply(MpDm.from_mps(m))      # MpDm.from_mps casts to real: build real, make complex afterwards
            if case["cplx"]:
                obj = obj.to_complex()
                for i in range(len(obj)):
                    obj[i] = arr(obj[i]) * np.exp(1j * (0.3 + 0.2 * i))
            if not case.get("default_coeff"):
                obj.coeff = complex(*case["coeff"]) if case["cplx"] else float(case["coeff"][0])
        else:
            obj = m
    if case.get("spill"):
        obj.compress_config.dump_matrix_size = 16
        obj.compress_config.dump_matrix_dir = tmp
        for i in range(len(obj)):
            obj[i] = arr(obj[i])
        info["spilled"] = sum(1 for x in obj._mp if isinstance(x, str))
    info.update({"bond_dims": [int(x) for x in obj.bond_dims], "qnidx": int(obj.qnidx), "to_right": bool(obj.to_right),
                 "dtype": str(np.dtype(obj.dtype)), "coeff": repr(getattr(obj, "coeff", None))})
    fname = os.path.join(tmp, "state_%s.npz" % case["id"])
    obj.dump(fname)
    if not os.path.exists(fname):
        mism.append("dump wrote no file (silent failure)")
        return mism, info
    cls = {"mps": Mps, "mpdm": MpDm, "mpo": Mpo}[kind]
    legacy = case.get("legacy")
    if legacy:
        f2 = os.path.join(tmp, "legacy_%s.npz" % case["id"])
        legacy_file(fname, f2, legacy)
        fname = f2
    l = cls.load(model, fname)
    if legacy == "0.1":
        l.coeff = obj.coeff          # this format never stored the prefactor (documented by the loader's warning)
    cmp_chain_fields(obj, l, mism, with_coeff=(kind != "mpo"))
    skipped = []
    if kind == "mpo":
        mps = Mps.random(model, qntot, 4)
        same_configs(obj, l)
        soft = []     # an Mpo is not one of the object kinds of the property text: failures are reported, not alarmed
        both("operator matrix", lambda x: x.todense(), obj, l, mism, skipped)
        both("expectation with the operator", lambda x: mps.expectation(x), obj, l, soft, skipped)
        both("apply to a state", lambda x: x.apply(mps).todense(), obj, l, soft, skipped)
        both("conj_trans", lambda x: x.conj_trans().todense(), obj, l, soft, skipped)
        info["mpo_later_ops_failed"] = soft
        info["mpo_missing_attrs"] = sorted(a for a in vars(obj) if a not in vars(l))
    else:
        later_ops_chain(obj, l, mpo, mism, skipped)
        steps = chain_steps(mpo, kind)
        compare_sequences(run_sequence(steps, obj, chain_snapshot, chain_changed),
                          run_sequence(steps, l, chain_snapshot, chain_changed), mism, skipped)
        info["sequence_steps"] = len(steps)
    info["types_original"] = chain_types(obj, kind != "mpo")
    info["types_loaded"] = chain_types(l, kind != "mpo")
    info["skipped_ops"] = skipped
    return mism, info


def run_tree(case, tmp):
    from renormalizer.tn import BasisTree, TTNS, TTNO
    mism = []
    np.random.seed(case["seed"] % (2 ** 31))
    model, qntot = make_model(case["nq"], case["nsites"])
    shape = case.get("tree", "binary")
    if shape == "linear":
        bt = BasisTree.linear(model.basis)
    elif shape == "ternary":
        bt = BasisTree.ternary_mctdh(model.basis) if case["nq"] == 1 else BasisTree.binary(model.basis)
    else:
        bt = BasisTree.binary(model.basis)
    t = TTNS.random(bt, qntot, case["m_max"])
    if case["cplx"]:
        t = t.to_complex()
        for i, node in enumerate(t.node_list):
            node.tensor = node.tensor * np.exp(1j * (0.1 + 0.3 * i))
    if "cano" in case["gauge"]:
        t.canonicalise()
    if "compress" in case["gauge"]:
        t.compress_config.bond_dim_max_value = 3
        t.compress()
    if not case.get("default_coeff"):
        t.coeff = complex(*case["coeff"]) if case["cplx"] else float(case["coeff"][0])
    info = {"nodes": len(t.node_list), "bond_dims": [int(x) for x in np.asarray(t.bond_dims).ravel()], "coeff": repr(t.coeff),
            "dtype": str(t.node_list[0].tensor.dtype)}
    fname = os.path.join(tmp, "tree_%s.npz" % case["id"])
    t.dump(fname)
    if not os.path.exists(fname):
        mism.append("dump wrote no file (silent failure)")
        return mism, info
    l = TTNS.load(bt, fname)
    if len(l.node_list) != len(t.node_list):
        mism.append("node count")
        return mism, info
    for i, (a, b) in enumerate(zip(t.node_list, l.node_list)):
        if a.tensor.dtype != b.tensor.dtype:
            mism.append("node %d dtype %s vs %s" % (i, a.tensor.dtype, b.tensor.dtype))
        cmp_arrays("node %d tensor" % i, a.tensor, b.tensor, mism)
        cmp_arrays("node %d qn" % i, a.qn, b.qn, mism)
        pa = t.node_idx[a.parent] if a.parent is not None else -1
        pb = l.node_idx[b.parent] if b.parent is not None else -1
        if pa != pb:
            mism.append("node %d parent %d vs %d" % (i, pa, pb))
    if t.node_idx[t.root] != l.node_idx[l.root]:
        mism.append("root differs")
    if complex(t.coeff) != complex(l.coeff):
        mism.append("coeff %r vs %r" % (t.coeff, l.coeff))
    info["coeff_type_loaded"] = type(l.coeff).__name__
    skipped = []
    l.compress_config = t.compress_config.copy()
    both("todense", lambda x: x.todense() * x.coeff, t, l, mism, skipped)

    def tcano(x):
        c = x.copy()
        c.canonicalise()
        return [n.tensor for n in c.node_list] + [n.qn for n in c.node_list] + [c.todense() * c.coeff]
    both("canonicalise", tcano, t, l, mism, skipped)
    ttno = TTNO(bt, model.ham_terms)
    both("expectation", lambda x: x.expectation(ttno), t, l, mism, skipped)

    def tapp(x):
        r = ttno.apply(x)
        return r.todense() * r.coeff
    both("apply", tapp, t, l, mism, skipped)

    def tadd(x):
        r = x.add(x)
        return r.todense() * r.coeff
    both("add", tadd, t, l, mism, skipped)
    steps = tree_steps(ttno)
    compare_sequences(run_sequence(steps, t, tree_snapshot, tree_changed),
                      run_sequence(steps, l, tree_snapshot, tree_changed), mism, skipped)
    info["sequence_steps"] = len(steps)
    info["types_original"] = {"coeff": kind_of(t.coeff), "node_qn": kind_of(t.node_list[0].qn)}
    info["types_loaded"] = {"coeff": kind_of(l.coeff), "node_qn": kind_of(l.node_list[0].qn)}
    info["skipped_ops"] = skipped
    return mism, info


def emit(pl, obj):
    """large results go through a file: the orchestrator reads the child's stdout pipe only after exit"""
    if pl.get("out"):
        with open(pl["out"], "w") as fh:
            json.dump(obj, fh)
        print("RESULT " + json.dumps({"file": pl["out"]}))
    else:
        print("RESULT " + json.dumps(obj))


def main():
    pl = json.loads(sys.stdin.read())
    out = []
    tmp = tempfile.mkdtemp(prefix="c14rt_")
    try:
        for case in pl["cases"]:
            try:
                if case["kind"] == "ttns":
                    mism, info = run_tree(case, tmp)
                else:
                    mism, info = run_chain(case, tmp)
                out.append({"id": case["id"], "ok": not mism, "mismatch": mism[:8], "info": info})
            except Exception as e:
                out.append({"id": case["id"], "ok": False, "mismatch": ["case raised %r" % (e,), traceback.format_exc()[-800:]], "info": {}})
    finally:
        shutil.rmtree(tmp, ignore_errors=True)
    emit(pl, {"results": out})


if __name__ == "__main__":
    main()
