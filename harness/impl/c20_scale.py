"""C20 scale probe: both cover algorithms on long chain graphs (a tree with a perfect matching).

stdin : {"sizes": [n, ...]}
stdout: RESULT {"res": [{"n": n, "algo": algo, "ok": bool, "err": ..., "valid": bool, "size": int}, ...]}

Graph: U = V = {0..n-1}; u_i ~ v_i, v_{i+1} for i < n-1 and u_{n-1} ~ v_0.  The edges
(u_i, v_{i+1}), (u_{n-1}, v_0) form a perfect matching, so every minimum cover has exactly n vertices.
The greedy first choices (u_i -> v_i) force the last search to re-route the whole chain: the
augmenting path has length n, which is the recursion depth of `augment`.
"""
import json
import sys

from renormalizer.lib import bipartite_vertex_cover


def main():
    payload = json.load(sys.stdin)
    res = []
    for n in payload["sizes"]:
        g = [[i, i + 1] for i in range(n - 1)] + [[0]]
        for algo in ("Hopcroft-Karp", "Hungarian"):
            r = {"n": n, "algo": algo}
            try:
                ub, vb = bipartite_vertex_cover(g, algo=algo)
                cu = {i for i, b in enumerate(ub) if b}
                cv = {i for i, b in enumerate(vb) if b}
                r.update(ok=True, size=len(cu) + len(cv),
                         valid=all(u in cu or v in cv for u, adj in enumerate(g) for v in adj))
            except BaseException as e:      # noqa: BLE001  (RecursionError is the observation of interest)
                r.update(ok=False, err=type(e).__name__)
            res.append(r)
    print("RESULT " + json.dumps({"res": res}))


main()
