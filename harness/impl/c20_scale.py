"""C20 scale probe (implementation only): structures whose alternating / augmenting paths are longer than
CPython's default recursion limit.

stdin : {"chain": [n, ...], "path": [n, ...], "thin_operator": [n, ...]}
stdout: RESULT {"res": [{"what": ..., "n": n, "algo": algo, "ok": bool, "err": ..., "valid": bool, "size": int, "expected": int}, ...]}

chain(n)   U = V = {0..n-1}; u_i ~ v_i, v_{i+1} (i < n-1), u_{n-1} ~ v_0.  Certificate: the perfect matching
           {(u_i, v_{i+1})} + (u_{n-1}, v_0) -> every cover has >= n vertices.  The greedy first choices of the
           augmenting-path matcher force the last search to re-route the whole chain (recursion depth n).
           Run with both algorithms (the Hungarian failure is the known finding hungarian-recursion-limit).
path(n)    u0 - v0 - u1 - v1 - ... - v_{n-1} - u_n  (|U| = n+1, |V| = n).  Certificate: matching {(u_i, v_i)} of
           size n -> every cover has >= n vertices; a returned VALID cover of size n is therefore minimum.
           One U vertex is always unmatched, so new_konig has to follow an alternating path through the whole
           graph: this is the case new_konig was written for ("huge number of recursive calls").  Hopcroft-Karp only.
thin_operator(n)  the 2-site operator  sum_i A_i (B_i + B_{i-1}) + A_{n+1} (B_n + B_{n+1} + B_{n+2})  built with
           construct_symbolic_mpo(..., algo="Hopcroft-Karp"): n+2 left / n+3 right distinct terms, incidence =
           path(n) + a star; minimum cover n + 1 (matching of size n + 1: path matching + one star edge; cover:
           v_0..v_{n-1} + the star centre).  The bond dimension must be n + 1.
"""
import json
import sys

import numpy as np

from renormalizer.lib import bipartite_vertex_cover
from renormalizer.model import Op
from renormalizer.mps.symbolic_mpo import construct_symbolic_mpo


def cover_result(g, algo, expected):
    r = {"algo": algo, "expected": expected}
    try:
        ub, vb = bipartite_vertex_cover(g, algo=algo)
        cu = {i for i, b in enumerate(ub) if b}
        cv = {i for i, b in enumerate(vb) if b}
        r.update(ok=True, size=len(cu) + len(cv),
                 valid=all(u in cu or v in cv for u, adj in enumerate(g) for v in adj))
    except BaseException as e:      # noqa: BLE001  (RecursionError is the observation of interest)
        r.update(ok=False, err=type(e).__name__)
    return r


def chain(n):
    return [[i, i + 1] for i in range(n - 1)] + [[0]]


def path(n):
    g = [[] for _ in range(n + 1)]
    for i in range(n):
        g[i].append(i)
        g[i + 1].append(i)
    return g


def is_matching(g, pairs):
    return all(v in g[u] for u, v in pairs) and len({u for u, _ in pairs}) == len(pairs) == len({v for _, v in pairs})


def thin_operator(n, algo):
    primary_ops = [Op.identity("s0"), Op.identity("s1")]
    left, right = [], []
    for i in range(n + 2):
        left.append(len(primary_ops))
        primary_ops.append(Op("A%d" % i, "s0"))
    for j in range(n + 3):
        right.append(len(primary_ops))
        primary_ops.append(Op("B%d" % j, "s1"))
    table = []
    for i in range(n):
        table.append([left[i], right[i]])
        table.append([left[i + 1], right[i]])
    for j in (n, n + 1, n + 2):
        table.append([left[n + 1], right[j]])
    table = np.array(table, dtype=np.uint16)
    factor = np.linspace(1.0, 2.0, len(table))
    r = {"algo": algo, "expected": n + 1, "terms": len(table)}
    try:
        mpo = construct_symbolic_mpo(table, primary_ops, factor, algo=algo)[0]
        bond = int(mpo[0].shape[1])
        r.update(ok=True, size=bond, valid=(int(mpo[1].shape[0]) == bond and bond <= min(n + 2, n + 3)))
    except BaseException as e:      # noqa: BLE001
        r.update(ok=False, err=type(e).__name__)
    return r


def main():
    payload = json.load(sys.stdin)
    res = []
    for n in payload.get("chain", []):
        g = chain(n)
        assert is_matching(g, [(i, i + 1) for i in range(n - 1)] + [(n - 1, 0)])       # certificate: |M| = n
        for algo in ("Hopcroft-Karp", "Hungarian"):
            res.append(dict(cover_result(g, algo, n), what="chain", n=n))
    for n in payload.get("path", []):
        g = path(n)
        assert is_matching(g, [(i, i) for i in range(n)])                               # certificate: |M| = n
        res.append(dict(cover_result(g, "Hopcroft-Karp", n), what="path", n=n))
    for n in payload.get("thin_operator", []):
        res.append(dict(thin_operator(n, "Hopcroft-Karp"), what="thin-operator", n=n))
    print("RESULT " + json.dumps({"res": res}))


main()
