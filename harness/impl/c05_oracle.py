"""C05 dense oracle (failing-input search) on the real code: Mps.compress / TTNS.compress.

stdin : {"cases": [case, ...]}      (see harness/c05.py: gen_oracle_cases)
stdout: RESULT {"results": [{"case":…, "ok":bool, "fails":[…], "stats":{…}}, …]}

Every check is made against an independent dense NumPy computation:
  bond dimensions <= limit (per-bond list, global M, temp_m_trunc), >= 1;
  threshold criterion: kept normalised singular values (except the forced first) >= thr, discarded <= thr;
  ||psi'|| <= ||psi||;
  max_b D_b <= ||psi - psi'||^2 <= sum_b D_b,  D_b = sum_{a >= m_b} s_a(psi at bond b)^2, s = dense SVD of the
  ORIGINAL state, m_b = bond dimension of the result;
  returned singular values (ret_s=True): descending, first cut = dense spectrum, later cuts interlace (<=);
  chains only: ||psi - psi'||^2 = sum over steps of the discarded s^2 = ||psi||^2 - ||psi'||^2.
Tolerance 1e-9 relative to ||psi|| (1e-9 ||psi||^2 for squared quantities).
"""
import json
import sys

import numpy as np

TOL = 1e-9


# ------------------------------------------------------------------------------------------ chains
def build_model(name, n):
    from renormalizer import BasisHalfSpin, BasisSHO, BasisSimpleElectron, Model
    if name in ("spin", "dense_bell", "dense_ghz", "dense_rankdef", "dense_random"):
        basis = [BasisHalfSpin(i) for i in range(n)]
        qntot = 0
    elif name == "spin_qn":
        basis = [BasisHalfSpin(i, sigmaqn=[0, 1]) for i in range(n)]
        qntot = n // 2
    elif name == "spin_qn2":
        basis = [BasisHalfSpin(i, sigmaqn=[[0, 0], [1, 0]] if i % 2 == 0 else [[0, 0], [0, 1]]) for i in range(n)]
        qntot = np.array([max(((n + 1) // 2) // 2, 1), max((n // 2) // 2, 1)])
    elif name == "holstein":
        basis = []
        for i in range(n):
            if i % 2 == 0:
                basis.append(BasisSimpleElectron(("e", i)))
            else:
                basis.append(BasisSHO(("v", i), 1.0, 3))
        qntot = 1
    else:
        raise ValueError(name)
    return Model(basis, []), qntot


def dense_state(name, n, rng, cplx):
    if name == "dense_bell":          # product of Bell pairs: every odd bond has two equal singular values
        pair = np.array([1.0, 0, 0, 1.0]) / np.sqrt(2)
        v = np.ones(1)
        for _ in range(n // 2):
            v = np.kron(v, pair)
        if n % 2:
            v = np.kron(v, np.array([1.0, 0]))
    elif name == "dense_ghz":
        v = np.zeros(2 ** n)
        v[0] = v[-1] = 1 / np.sqrt(2)
    elif name == "dense_rankdef":     # rank-2 across every cut, generic entries
        a = [rng.standard_normal(2) for _ in range(n)]
        b = [rng.standard_normal(2) for _ in range(n)]
        va, vb = np.ones(1), np.ones(1)
        for x, y in zip(a, b):
            va, vb = np.kron(va, x), np.kron(vb, y)
        v = va + 0.5 * vb
    else:
        v = rng.standard_normal(2 ** n)
    if cplx:
        v = v * np.exp(1j * 0.3) + 1j * 0.25 * np.roll(v, 1)
    return v / np.linalg.norm(v) * (1.0 if name != "dense_random" else 1.7)


def make_mps(case):
    from renormalizer import Mps
    seed = int(case["seed"])
    np.random.seed(seed)
    rng = np.random.default_rng(seed)
    n = case["n"]
    model, qntot = build_model(case["model"], n)
    if case["model"].startswith("dense_"):
        mps = Mps.from_dense(model, dense_state(case["model"], n, rng, case["complex"]))
        mps.qnidx = n - 1
        mps.to_right = False
        mps.qntot = np.array([0])
    else:
        mps = Mps.random(model, qntot, case["m_max"], percent=1.0)
        if case["complex"]:
            other = Mps.random(model, qntot, case["m_max"], percent=1.0)
            mps = mps.to_complex().add(other.scale(0.7j))
            mps.canonicalise().canonicalise()
        if case.get("scale"):
            mps = mps.scale(case["scale"])
    if case["dir"] == "right":
        mps.canonicalise()             # centre to site 0, next sweep goes right
        assert mps.to_right and mps.qnidx == 0
    else:
        assert (not mps.to_right) and mps.qnidx == n - 1
    return mps


def install_config(obj, cfg, nb):
    from renormalizer.utils import CompressConfig, CompressCriteria
    cc = CompressConfig(getattr(CompressCriteria, cfg["crit"]), threshold=cfg["thr"], max_bonddim=cfg["M"])
    if cfg.get("max_dims") is not None:
        cc.max_dims = np.array(cfg["max_dims"], dtype=int)
    obj.compress_config = cc
    lim = None
    if cfg.get("temp") is not None:
        t = cfg["temp"]
        lim = list(t) if isinstance(t, list) else [t] * nb
    elif cfg["crit"] != "threshold":
        lim = list(cfg["max_dims"]) if cfg.get("max_dims") is not None else [cfg["M"]] * nb
    return lim


def common_checks(fails, stats, d0, d1, sv_at, m_at, limits, bonds, cfg, s_rows, n0, final_is_step=True):
    """sv_at[b]: dense spectrum of the original at bond b; m_at[b]: resulting dimension; s_rows[b]: returned s."""
    n1 = np.linalg.norm(d1)
    dist2 = float(np.linalg.norm(d0 - d1) ** 2)
    if n1 > n0 * (1 + TOL):
        fails.append({"what": "norm increased", "before": n0, "after": float(n1)})
    D = {}
    for b in bonds:
        m = m_at[b]
        if m < 1:
            fails.append({"what": "bond dimension < 1", "bond": b, "dim": m})
        if limits is not None and m > limits[b]:
            fails.append({"what": "bond dimension exceeds limit", "bond": b, "dim": m, "limit": int(limits[b])})
        D[b] = float(np.sum(sv_at[b][m:] ** 2))
    ub = sum(D.values())
    lb = max(D.values()) if D else 0.0
    tol2 = TOL * n0 * n0
    if np.sqrt(dist2) > np.sqrt(ub) + TOL * n0:
        fails.append({"what": "distance exceeds root of summed discarded weights of the original", "dist2": dist2, "sum_D": ub})
    if np.sqrt(dist2) < np.sqrt(lb) - TOL * n0:
        fails.append({"what": "distance below the largest single-bond discarded weight", "dist2": dist2, "max_D": lb})
    for b in bonds:
        s = np.asarray(s_rows[b], dtype=float)
        if np.any(np.diff(s) > TOL * n0):
            fails.append({"what": "returned singular values not descending", "bond": b, "s": s.tolist()[:12]})
        k = min(len(s), len(sv_at[b]))
        if np.any(s[:k] > sv_at[b][:k] + 1e-8 * n0) or np.any(s[k:] > 1e-8 * n0):
            fails.append({"what": "step singular values exceed those of the original (interlacing)", "bond": b,
                          "s": s.tolist()[:12], "dense": sv_at[b].tolist()[:12]})
        if cfg.get("temp") is None and cfg["crit"] in ("threshold", "both"):
            m = m_at[b]
            nrm = np.linalg.norm(s)
            if nrm > 0:
                ns = s / nrm
                # kept ones (except the forced first) weakly above, discarded weakly below -- `both` may cut
                # further, so only the `kept above` half applies there unless the limit was not binding
                if np.any(ns[1:m] < cfg["thr"] - 1e-9):
                    fails.append({"what": "kept a singular value below the threshold", "bond": b, "ns": ns.tolist()[:12], "m": m})
                binding = cfg["crit"] == "both" and limits is not None and m >= limits[b]
                # (trees: a later economic QR in push_cano_to_parent may shrink the bond below the kept count of
                #  its truncation step, so the final dimension says nothing about what that step discarded)
                if final_is_step and not binding and np.any(ns[m:] > cfg["thr"] + 1e-9):
                    fails.append({"what": "discarded a singular value above the threshold", "bond": b, "ns": ns.tolist()[:12], "m": m})
    stats.update({"dist2": dist2, "sum_D": ub, "max_D": lb, "norm0": float(n0), "norm1": float(n1),
                  "truncating": bool(ub > 1e-14 * n0 * n0)})
    return dist2, tol2


class GesddFault:
    """FAULT PATH: makes the k-th `scipy.linalg.svd(..., lapack_driver="gesdd")` call issued while compress() runs raise
    LinAlgError (what SciPy does when gesdd does not converge); every other call is the genuine routine.  The code
    under test calls `scipy.linalg.svd` through the module attribute, so that attribute is wrapped."""

    def __init__(self, fail_at):
        self.fail_at = fail_at
        self.count = 0
        self.fired = 0

    def __enter__(self):
        import scipy.linalg
        self.mod = scipy.linalg
        self.real = scipy.linalg.svd
        if self.fail_at:
            def flaky(a, *args, **kwargs):
                if kwargs.get("lapack_driver", "gesdd") == "gesdd":
                    self.count += 1
                    if self.count == self.fail_at:
                        self.fired += 1
                        raise self.mod.LinAlgError("SVD did not converge (injected)")
                return self.real(a, *args, **kwargs)
            self.mod.svd = flaky
        return self

    def __exit__(self, *exc):
        self.mod.svd = self.real
        return False


def chain_check(new, cfg, limits, fails, stats, fault=None):
    """`new`: a canonical chain with its compression settings installed; compresses it IN PLACE and checks the
    result against the dense vector it represented before."""
    n = len(new)
    d0 = np.asarray(new.todense()).ravel().copy()
    n0 = np.linalg.norm(d0)
    dims = [b.nbas for b in new.model.basis]
    before = list(new.bond_dims)
    to_right = bool(new.to_right)
    temp = cfg.get("temp")
    with GesddFault(fault) as inj:
        new, s_arr = new.compress(temp_m_trunc=temp, ret_s=True)
    stats["fault_fired"] = inj.fired
    d1 = np.asarray(new.todense()).ravel()
    after = list(new.bond_dims)
    if after[0] != 1 or after[-1] != 1 or len(after) != n + 1:
        fails.append({"what": "boundary bond dimensions", "after": after})
    bonds = list(range(1, n))
    sv_at = {b: np.linalg.svd(d0.reshape(int(np.prod(dims[:b])), -1), compute_uv=False) for b in bonds}
    m_at = {b: after[b] for b in bonds}
    order = [k + 1 for k in range(n - 1)] if to_right else [n - 1 - k for k in range(n - 1)]
    s_rows = {b: np.asarray(s_arr[k]) for k, b in enumerate(order)}
    dist2, tol2 = common_checks(fails, stats, d0, d1, sv_at, m_at, limits, bonds, cfg, s_rows, n0)
    # first cut = dense spectrum of the original
    if bonds:
        b0 = order[0]
        s = s_rows[b0]
        k = min(len(s), len(sv_at[b0]))
        if np.max(np.abs(s[:k] - sv_at[b0][:k])) > 1e-8 * n0:
            fails.append({"what": "first-cut singular values differ from the dense spectrum", "bond": b0})
    # exact error identity with the step discards, and norm Pythagoras
    step = float(sum(np.sum(s_rows[b][m_at[b]:] ** 2) for b in bonds))
    if abs(dist2 - step) > 10 * tol2:
        fails.append({"what": "error identity: dist^2 != sum of step discards", "dist2": dist2, "step_sum": step})
    if abs((n0 ** 2 - np.linalg.norm(d1) ** 2) - dist2) > 10 * tol2:
        fails.append({"what": "norm identity: |psi|^2 - |psi'|^2 != dist^2", "dist2": dist2,
                      "loss": float(n0 ** 2 - np.linalg.norm(d1) ** 2)})
    stats.update({"before": before, "after": after, "to_right": to_right, "step_sum": step})


def check_mps(case):
    fails, stats = [], {}
    try:
        mps = make_mps(case)
    except Exception as e:
        raise Skip("state construction failed: %s: %s" % (type(e).__name__, str(e)[:120]))
    new = mps.copy()
    limits = install_config(new, case["cfg"], case["n"] + 1)
    chain_check(new, case["cfg"], limits, fails, stats, fault=case.get("gesdd_fail_at"))
    return fails, stats


# ------------------------------------------------------------------------------------------- trees
def build_tree(parents, qn, nb):
    from renormalizer import BasisHalfSpin, BasisSHO
    from renormalizer.tn.node import TreeNodeBasis
    from renormalizer.tn.treebase import BasisTree
    n = len(parents)
    if qn:
        bl = [BasisHalfSpin(i, sigmaqn=[0, 1]) for i in range(n)]
    else:
        bl = [BasisSHO(i, 1.0, nb) for i in range(n)]
    nodes = [TreeNodeBasis([b]) for b in bl]
    root = None
    for i, p in enumerate(parents):
        if p < 0:
            root = nodes[i]
        else:
            nodes[p].add_child(nodes[i])
    return BasisTree(root), bl


def subtree_basis(node):
    res = []

    def rec(x):
        res.extend(x.basis_sets)
        for c in x.children:
            rec(c)
    rec(node)
    return res


def make_ttns(case):
    from renormalizer.tn.tree import TTNS
    seed = int(case["seed"])
    np.random.seed(seed)
    parents = case["parents"]
    n = len(parents)
    basis, bl = build_tree(parents, case["qn"], case.get("nb", 3))
    qntot = n // 2 if case["qn"] else 0
    t = TTNS.random(basis, qntot, case["m_max"])
    if case["complex"]:
        o = TTNS.random(basis, qntot, case["m_max"])
        t = t.to_complex().add(o.scale(0.7j))
    t.canonicalise()
    if case.get("scale"):
        t = t.scale(case["scale"])
    return t, basis, bl


def tree_check(new, basis, bl, cfg, limits, fails, stats, fault=None):
    """`new`: a canonical TTNS with its compression settings installed; compressed IN PLACE and checked"""
    d0 = np.asarray(new.todense(bl)).copy()
    n0 = np.linalg.norm(d0)
    before = list(new.bond_dims)
    with GesddFault(fault) as inj:
        new, s_arr = new.compress(temp_m_trunc=cfg.get("temp"), ret_s=True)
    stats["fault_fired"] = inj.fired
    d1 = np.asarray(new.todense(bl))
    after = list(new.bond_dims)
    bonds = [k for k, nd in enumerate(new.node_list) if nd.parent is not None]
    rootk = [k for k, nd in enumerate(new.node_list) if nd.parent is None]
    if len(rootk) != 1 or after[rootk[0]] != 1:
        fails.append({"what": "root bond dimension", "after": after})
    sv_at = {}
    for k in bonds:
        sub = subtree_basis(basis.node_list[k])
        idx = [bl.index(b) for b in sub]
        rest = [i for i in range(len(bl)) if i not in idx]
        mat = np.transpose(d0, idx + rest).reshape(int(np.prod([d0.shape[i] for i in idx])), -1)
        sv_at[k] = np.linalg.svd(mat, compute_uv=False)
    m_at = {k: after[k] for k in bonds}
    s_rows = {k: np.asarray(s_arr[k]) for k in bonds}
    dist2, tol2 = common_checks(fails, stats, d0.ravel(), d1.ravel(), sv_at, m_at, limits, bonds, cfg, s_rows, n0,
                                final_is_step=False)
    step = float(sum(np.sum(s_rows[k][m_at[k]:] ** 2) for k in bonds))
    # NOT a requirement on trees (the tree sweep is not a nested sequence of projections); recorded only
    stats.update({"before": before, "after": after, "step_sum": step,
                  "identity_gap": float(abs(dist2 - step))})


def check_ttns(case):
    fails, stats = [], {}
    try:
        t, basis, bl = make_ttns(case)
    except Exception as e:
        raise Skip("state construction failed: %s: %s" % (type(e).__name__, str(e)[:120]))
    new = t.copy()
    limits = install_config(new, case["cfg"], len(case["parents"]) + 1)
    tree_check(new, basis, bl, case["cfg"], limits, fails, stats, fault=case.get("gesdd_fail_at"))
    return fails, stats


# ----------------------------------------------------------------------------------------- histories
def config_snapshot(cc):
    md = cc.max_dims
    return {"id": id(cc), "criteria": str(cc.criteria), "threshold": float(cc.threshold), "M": int(cc.bond_dim_max_value),
            "max_dims": None if md is None else [int(x) for x in np.asarray(md)]}


def check_history(case):
    """One base state (never compressed itself); several descendants (copy / add / apply -- all go through
    metacopy -> CompressConfig.copy) are compressed one after the other in this process, each with ITS OWN limit,
    set by attribute on the descendant's config or by assigning a fresh CompressConfig.  Every result must obey its
    own limit and the error bounds; the base (state and configuration) must be unchanged at the end."""
    from renormalizer.utils import CompressConfig, CompressCriteria
    fails, stats = [], {"ops": []}
    b = case["base"]
    tree = b["kind"] == "ttns"
    try:
        if tree:
            base, basis, bl = make_ttns(b)
        else:
            base = make_mps(b)
    except Exception as e:
        raise Skip("state construction failed: %s: %s" % (type(e).__name__, str(e)[:120]))
    dense = (lambda x: np.asarray(x.todense(bl)).ravel()) if tree else (lambda x: np.asarray(x.todense()).ravel())
    base_dense = dense(base).copy()
    snap0 = config_snapshot(base.compress_config)
    nb = (len(b["parents"]) if tree else b["n"]) + 1
    for k, op in enumerate(case["ops"]):
        try:
            if op["derive"] == "copy":
                d = base.copy()
            elif op["derive"] == "add":
                d = base.add(base.scale(0.5))
                d.canonicalise()
                if not tree and d.to_right != base.to_right:
                    d.canonicalise()
            elif op["derive"] == "apply":
                from renormalizer import Op

                def diag_op(bs):          # a quantum-number conserving one-site operator for this basis set
                    name = type(bs).__name__
                    sym = {"BasisHalfSpin": "sigma_z", "BasisSHO": r"b^\dagger b", "BasisSimpleElectron": r"a^\dagger a"}[name]
                    return Op(sym, bs.dofs[0] if isinstance(bs.dofs, list) else bs.dof)
                if tree:
                    from renormalizer.tn.tree import TTNO
                    d = TTNO(basis, [diag_op(bl[0]), diag_op(bl[-1])]).apply(base)
                else:
                    from renormalizer import Mpo
                    d = Mpo(base.model, diag_op(base.model.basis[0]) + diag_op(base.model.basis[-1])).apply(base)
                d.canonicalise()
                if not tree and d.to_right != base.to_right:
                    d.canonicalise()
            else:
                raise ValueError(op["derive"])
        except Exception as e:
            raise Skip("descendant construction failed: %s: %s" % (type(e).__name__, str(e)[:120]))
        crit = getattr(CompressCriteria, op["crit"])
        if op["how"] == "attr":
            # the idiom of the package's own tests
            d.compress_config.criteria = crit
            d.compress_config.bond_dim_max_value = op["M"]
            d.compress_config.threshold = op["thr"]
        else:
            d.compress_config = CompressConfig(crit, threshold=op["thr"], max_bonddim=op["M"])
        cfg = {"crit": op["crit"], "thr": op["thr"], "M": op["M"]}
        limits = None if op["crit"] == "threshold" else [op["M"]] * nb
        f, st = [], {}
        try:
            if tree:
                tree_check(d, basis, bl, cfg, limits, f, st)
            else:
                chain_check(d, cfg, limits, f, st)
        except Exception as e:
            f.append({"what": "exception", "type": type(e).__name__, "msg": str(e)[:200]})
        for x in f:
            x["op_index"] = k
            x["op"] = op
            x["what"] = "history: " + x["what"]
        fails += f
        stats["ops"].append({"op": op, "after": st.get("after"), "truncating": st.get("truncating")})
        if d.compress_config is base.compress_config:
            fails.append({"what": "history: descendant shares the configuration object of the base", "op_index": k, "op": op})
    snap1 = config_snapshot(base.compress_config)
    if snap1 != snap0:
        fails.append({"what": "history: configuration of the source state changed", "before": snap0, "after": snap1})
    if np.linalg.norm(dense(base) - base_dense) > 1e-12 * max(1.0, np.linalg.norm(base_dense)):
        fails.append({"what": "history: source state changed"})
    stats["truncating"] = any(o["truncating"] for o in stats["ops"])
    return fails, stats


class Skip(Exception):
    pass


def run_case(case):
    try:
        fails, stats = {"mps": check_mps, "ttns": check_ttns, "history": check_history}[case["kind"]](case)
    except Skip as e:
        return {"case": case, "ok": True, "skipped": str(e), "fails": [], "stats": {}}
    except Exception as e:      # an exception on an accepted input is a failure of the property
        import traceback
        tb = traceback.format_exc().strip().splitlines()
        return {"case": case, "ok": False, "fails": [{"what": "exception", "type": type(e).__name__, "msg": str(e)[:300],
                                                      "where": tb[-3:]}], "stats": {}}
    return {"case": case, "ok": not fails, "fails": fails, "stats": stats}


def replay(case):
    r = run_case(case)
    print(json.dumps(r, default=str)[:3000])
    return 0 if r["ok"] else 1


if __name__ == "__main__":
    payload = json.load(sys.stdin)
    out = [run_case(c) for c in payload["cases"]]
    print("RESULT " + json.dumps({"results": out}, default=str))
