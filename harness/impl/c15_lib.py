"""C15 implementation-side library: builds renormalizer Op/OpSum values from JSON expression programs,
runs them, and exports the results field by field (symbols, dofs, qn, exact factor).

Program node grammar (JSON):
  {"t":"op","syms":[ids],"dofs":[ids],"share":bool,"f":SC,"qn":null|[[ints]...],"qnstyle":"none|int|flat|nested","listdof":bool}
  {"t":"ident","dofs":[ids],"single":bool,"qs":k,"f":SC}
  {"t":"sc", ...SC}                       SC = {"k":kind,"re":int,"im":int,"ex":int}  value (re + i im) * 2**ex
  {"t":"list","items":[nodes]} {"t":"opsum","items":[nodes]}
  {"t":"bin","op":"+-*/","a":node,"b":node,"aug":bool}
  {"t":"iadd","a":node,"b":node} {"t":"neg","a":node}
  {"t":"simplify","a":node,"atol":null|SC} {"t":"squeeze","a":node}
  {"t":"mksum","a":node} {"t":"mklist","a":node} {"t":"copy","a":node}
  {"t":"sprod","items":[nodes]} {"t":"oprod","items":[nodes]} {"t":"sum","items":[nodes]}
  {"t":"var","i":k}
A program is {"lets":[nodes], "body":node}.
"""
import math
import operator
import warnings

import numpy as np

from renormalizer.model import Op, OpSum


def dof_obj(d):
    if isinstance(d, dict):
        return tuple(dof_obj(x) for x in d["tuple"])
    return d


class Tables:
    def __init__(self, syms, dofs):
        self.syms = list(syms)
        self.dofs = [dof_obj(d) for d in dofs]
        self.sym_id = {s.replace(r"b^\dagger + b", r"b^\dagger+b"): i for i, s in enumerate(self.syms)}
        self.dof_id = {d: i for i, d in enumerate(self.dofs)}


def scalar(sc):
    k, re, im, ex = sc["k"], sc["re"], sc["im"], sc["ex"]
    fre, fim = math.ldexp(re, ex), math.ldexp(im, ex)
    if k == "int":
        return int(fre)
    if k == "bool":
        return bool(int(fre))
    if k == "float":
        return float(fre)
    if k == "complex":
        return complex(fre, fim)
    if k in ("i64", "i32", "i8"):
        return {"i64": np.int64, "i32": np.int32, "i8": np.int8}[k](int(fre))
    if k == "f32":
        return np.float32(fre)
    if k == "f64":
        return np.float64(fre)
    if k == "c128":
        return np.complex128(complex(fre, fim))
    if k == "c64":
        return np.complex64(complex(fre, fim))
    if k == "arri":
        return np.array(int(fre))
    if k == "arrf":
        return np.array(float(fre))
    raise ValueError("unknown scalar kind %r" % (k,))


def build(node, tb, env):
    t = node["t"]
    if t == "op":
        symbol = " ".join(tb.syms[i] for i in node["syms"])
        dofs = [tb.dofs[i] for i in node["dofs"]]
        if node.get("share"):
            dof = dofs[0]
        elif len(dofs) == 1 and not node.get("listdof"):
            dof = dofs[0]
        else:
            dof = dofs
        qn = node.get("qn")
        st = node.get("qnstyle", "nested")
        if qn is None or st == "none":
            q = None
        elif st == "int":
            q = qn[0][0]
        elif st == "flat":
            q = [x[0] for x in qn]
        elif st == "array":
            q = [np.array(x) for x in qn]
        else:
            q = [list(x) for x in qn]
        return Op(symbol, dof, scalar(node["f"]), q)
    if t == "ident":
        dofs = [tb.dofs[i] for i in node["dofs"]]
        return Op.identity(dofs[0] if node.get("single") else dofs, qn_size=node["qs"], factor=scalar(node["f"]))
    if t == "sc":
        return scalar(node)
    if t == "var":
        return env[node["i"]]
    # ---- composite nodes: operands first, then the operation, then the object-identity audit
    if "items" in node:
        kids = [build(x, tb, env) for x in node["items"]]
    else:
        kids = [build(node[k], tb, env) for k in ("a", "b") if isinstance(node.get(k), dict)]
    audit = _AUDIT[-1] if _AUDIT else None
    snap = [export(o, tb) for o in kids] if audit is not None else None
    v = apply_node(node, kids)
    if audit is not None:
        audit_node(node, kids, snap, v, tb, audit)
    return v


def apply_node(node, kids):
    t = node["t"]
    if t == "list":
        return list(kids)
    if t == "opsum":
        return OpSum(kids)
    if t == "bin":
        a, b = kids
        o = node["op"]
        if node.get("aug"):
            f = {"+": operator.iadd, "-": operator.isub, "*": operator.imul, "/": operator.itruediv}[o]
        else:
            f = {"+": operator.add, "-": operator.sub, "*": operator.mul, "/": operator.truediv}[o]
        return f(a, b)
    if t == "iadd":
        a, b = kids
        a += b
        return a
    if t == "neg":
        return -kids[0]
    if t == "simplify":
        if node.get("atol") is None:
            return kids[0].simplify()
        return kids[0].simplify(atol=scalar(node["atol"]))
    if t == "squeeze":
        return kids[0].squeeze_identity()
    if t == "mksum":
        return OpSum(kids[0])
    if t == "mklist":
        return list(kids[0])
    if t == "copy":
        return kids[0].copy()
    if t == "sprod":
        return OpSum.product(kids)
    if t == "oprod":
        return Op.product(kids)
    if t == "sum":
        return sum(kids)
    raise ValueError("unknown node %r" % (t,))


_AUDIT = []          # stack of problem lists; empty = auditing off


def audit_node(node, kids, snap, v, tb, problems):
    """Object-identity discipline of the algebra (first principles, independent of the Coq model):
      * an operation leaves its operands unchanged (deep field-by-field comparison before / after);
      * a list-like result (OpSum or list) of a NON in-place operation is a new object -- it `is` none of its
        operands -- so that mutating it in place (`+=`) cannot change what an operand denotes; this is checked
        by actually appending a sentinel term to the result and re-comparing the operands, then undoing it;
      * an in-place operation (`+=` on an OpSum / list) may return (and mutate) its left operand only.
    `OpSum.product([x])` returns `x` itself on the unchanged tree (documented in notes/C15.md) and is exempt."""
    t = node["t"]
    inplace = t == "iadd" or (t == "bin" and node.get("aug") and node["op"] == "+")
    label = t + (":" + node["op"] if t == "bin" else "")
    for i, o in enumerate(kids):
        if inplace and i == 0 and o is v:
            continue
        if export(o, tb) != snap[i]:
            problems.append({"what": "operand changed by the operation", "node": label, "operand": i})
    if not isinstance(v, list):
        return
    exempt = inplace or (t == "sprod" and len(kids) == 1)
    aliased = [i for i, o in enumerate(kids) if o is v]
    if aliased and not exempt:
        problems.append({"what": "result is the operand object itself", "node": label, "operand": aliased[0],
                         "operand_kinds": [type(o).__name__ for o in kids], "operand_lens": [len(o) if isinstance(o, list) else None for o in kids]})
    if exempt:
        return
    n0 = len(v)
    before = [export(o, tb) for o in kids]
    try:
        sentinel = Op("I", tb.dofs[0], 7.0)
        if isinstance(v, OpSum):
            v += sentinel
        else:
            v.append(sentinel)
        for i, o in enumerate(kids):
            if export(o, tb) != before[i]:
                problems.append({"what": "mutating the result in place changes an operand (aliasing)", "node": label, "operand": i,
                                 "operand_kinds": [type(x).__name__ for x in kids]})
    finally:
        del v[n0:]


def frac(x):
    x = float(x)
    if not math.isfinite(x):
        return None
    n, d = x.as_integer_ratio()
    return [n, d]


def export_op(o, tb):
    prob = []
    try:
        syms = [tb.sym_id[s] for s in o.split_symbol]
    except KeyError:
        syms = None
        prob.append("unknown symbol in %r" % (o.split_symbol,))
    try:
        dofs = [tb.dof_id[d] for d in o.dofs]
    except (KeyError, TypeError):
        dofs = None
        prob.append("unknown dof in %r" % (o.dofs,))
    if o.symbol.replace(r"b^\dagger + b", r"b^\dagger+b") != " ".join(o.split_symbol):
        prob.append("symbol string %r inconsistent with split_symbol %r" % (o.symbol, o.split_symbol))
    f = o.factor
    if not isinstance(f, (float, complex, np.floating, np.complexfloating)):
        prob.append("factor has type %s" % type(f).__name__)
    c = complex(f)
    qn = []
    for q in o.qn_list:
        if not isinstance(q, np.ndarray) or q.ndim != 1:
            prob.append("qn entry is %r" % (q,))
        qn.append([int(x) for x in np.asarray(q).reshape(-1)])
    if len(o.qn_list) != len(o.dofs) or len(o.split_symbol) != len(o.dofs):
        prob.append("field lengths differ")
    return {"syms": syms, "dofs": dofs, "qn": qn, "re": frac(c.real), "im": frac(c.imag),
            "ftype": type(f).__name__, "prob": prob}


def export(v, tb):
    if isinstance(v, Op):
        return {"tag": "op", "terms": [export_op(v, tb)]}
    if isinstance(v, OpSum):
        if not all(isinstance(x, Op) for x in v):
            return {"tag": "other", "repr": repr(v)[:200]}
        return {"tag": "opsum", "terms": [export_op(x, tb) for x in v]}
    if isinstance(v, list):
        if not all(isinstance(x, Op) for x in v):
            return {"tag": "other", "repr": repr(v)[:200]}
        return {"tag": "list", "terms": [export_op(x, tb) for x in v]}
    if isinstance(v, (int, float, complex, np.generic)) or (isinstance(v, np.ndarray) and v.ndim == 0):
        c = complex(v)
        return {"tag": "scalar", "re": frac(c.real), "im": frac(c.imag), "ptype": type(v).__name__}
    return {"tag": "other", "repr": repr(v)[:200]}


def run_program(prog, tb):
    """Returns the exported result, or {"tag":"err","exc":name,"msg":...} when the expression is rejected."""
    try:
        with warnings.catch_warnings():
            warnings.simplefilter("error", RuntimeWarning)
            env = []
            problems = []
            _AUDIT.append(problems)
            try:
                for n in prog.get("lets", []):
                    env.append(build(n, tb, env))
                before = [export(v, tb) for v in env]
                v = build(prog["body"], tb, env)
            finally:
                _AUDIT.pop()
            res = export(v, tb)
            after = [export(x, tb) for x in env]
            if before != after:
                res["mutated_operand"] = [i for i, (x, y) in enumerate(zip(before, after)) if x != y]
            if problems:
                res["audit"] = problems[:5]
            return res, v
    except Exception as e:  # noqa: BLE001 - every exception class is an outcome to report
        return {"tag": "err", "exc": type(e).__name__, "msg": str(e)[:160], "where": raised_in(e)}, None


def raised_in(e):
    """name of the innermost function of renormalizer/model/op.py on the traceback (call site of a failure)"""
    tb, name = e.__traceback__, None
    while tb is not None:
        co = tb.tb_frame.f_code
        if co.co_filename.replace("\\", "/").endswith("renormalizer/model/op.py"):
            name = co.co_name
        tb = tb.tb_next
    return name


def same_result(res, exp):
    """res: export dict ; exp: expected in the same format (factors as [num, den] pairs) with tag."""
    if exp["tag"] == "err":
        return res["tag"] == "err"
    if res["tag"] != exp["tag"] or len(res.get("terms", [])) != len(exp.get("terms", [])):
        return False
    from fractions import Fraction
    for a, b in zip(res["terms"], exp["terms"]):
        if a["prob"] or a["syms"] != b["syms"] or a["dofs"] != b["dofs"] or a["qn"] != b["qn"]:
            return False
        for key in ("re", "im"):
            if a[key] is None:
                return False
            x, y = Fraction(*a[key]), Fraction(*b[key])
            if x != y and abs(x - y) > Fraction(1, 10 ** 12) * max(abs(x), abs(y)):
                return False
    return True


def replay(case):
    """Used by repro snippets.  case = {"syms","dofs","prog","expected"}; returns 1 while the
    implementation's result differs from the model's expected value, 0 otherwise."""
    tb = Tables(case["syms"], case["dofs"])
    res, _ = run_program(case["prog"], tb)
    ok = same_result(res, case["expected"]) and not res.get("mutated_operand") and not res.get("audit")
    print("implementation:", res)
    print("model expects :", case["expected"])
    return 0 if ok else 1


# ---------------------------------------------------------------- Model.check_operator_terms
def run_ct(case, tb):
    """case = {"items": [programs], "known": [dof ids]}.  Builds Model(basis, items) with one half-spin basis per
    known dof and returns (export of model.ham_terms as a list, first-principles verdict).
    The verdict does not use the Coq model: ham_terms must be exactly the input terms (same objects, same order)
    whose factor is != 0, the separate call model.check_operator_terms(items) must agree, and nothing may raise
    when every item is an Op / OpSum on known dofs."""
    from renormalizer.model import Model
    from renormalizer.model.basis import BasisHalfSpin
    order = case.get("repeat") or list(range(len(case["items"])))
    built = {}
    for i in order:                               # every referenced item is built once; repeats are the same object
        if i in built:
            continue
        res, v = run_program(case["items"][i], tb)
        if res["tag"] == "err":
            return {"tag": "err", "exc": res.get("exc"), "msg": res.get("msg"), "where": "item"}, {"ok": True, "why": "item rejected"}
        built[i] = v
    vals = [built[i] for i in order]
    basis = [BasisHalfSpin(tb.dofs[i]) for i in case["known"]]
    known = set(tb.dofs[i] for i in case["known"])
    flat, wellformed = [], True
    for v in vals:
        if isinstance(v, Op):
            flat.append(v)
        elif isinstance(v, OpSum):
            flat.extend(v)
        else:
            wellformed = False
    wellformed = wellformed and all(d in known for o in flat for d in o.dofs)
    try:
        with warnings.catch_warnings():
            warnings.simplefilter("error", RuntimeWarning)
            ham = Model(basis, list(vals)).ham_terms
            again = Model(basis, []).check_operator_terms(list(vals))
    except Exception as e:  # noqa: BLE001
        verdict = {"ok": not wellformed, "why": ("raises %s on well-formed terms: %s" % (type(e).__name__, str(e)[:100])) if wellformed else "malformed input rejected"}
        return {"tag": "err", "exc": type(e).__name__, "msg": str(e)[:160], "where": "Model"}, verdict
    if not wellformed:
        return export(list(ham), tb), {"ok": True, "why": "malformed input accepted"}
    want = [o for o in flat if o.factor != 0]
    verdict = {"ok": True, "why": ""}
    if len(ham) != len(want) or any(a is not b for a, b in zip(ham, want)):
        dropped = [repr(o) for o in want if not any(o is h for h in ham)]
        verdict = {"ok": False, "why": "ham_terms is not the list of input terms with factor != 0; wrongly dropped: %s" % dropped[:3]}
    elif len(again) != len(ham) or any(a is not b for a, b in zip(again, ham)):
        verdict = {"ok": False, "why": "check_operator_terms(terms) differs from Model(basis, terms).ham_terms"}
    return export(list(ham), tb), verdict


def replay_ct(case):
    """repro entry point for the check-terms stream: 1 while Model construction drops / alters / rejects terms it
    must keep, 0 otherwise"""
    tb = Tables(case["syms"], case["dofs"])
    res, verdict = run_ct(case, tb)
    print("ham_terms:", res)
    print("verdict  :", verdict)
    return 0 if verdict["ok"] else 1
