"""replay snippet for the effective-operator tie (text only; imported by harness/c08.py under plain python3)"""
REPRO = r'''
import sys, json
sys.path.insert(0, "/verif/harness/impl")
import numpy as np, c08_heff as Hf
case = json.loads(%r)
r = Hf.run_case(case)
# independent reference: plain numpy einsum of the definition, rows = bra indices, columns = ket indices
cx = lambda x: (np.array(x, dtype=float)[..., 0] + 1j * np.array(x, dtype=float)[..., 1])
L, R, cmo, C = cx(r["L"]), cx(r["R"]), [cx(x) for x in r["cmo"]], cx(r["cstruct"])
mask = np.array(r["mask"], dtype=bool)
if case["omega"]:
    if case["two"]:
        out = np.einsum("xbcy,bptf,ctqi,frug,iusj,zgjw,yqsw->xprz", L, cmo[0], cmo[0], cmo[1], cmo[1], R, C, optimize=True)
    else:
        out = np.einsum("xbcy,bptf,ctqi,zfiw,yqw->xpz", L, cmo[0], cmo[0], R, C, optimize=True)
else:
    if case["two"]:
        out = np.einsum("xby,bpqf,frsg,zgw,yqsw->xprz", L, cmo[0], cmo[1], R, C, optimize=True)
    else:
        out = np.einsum("xby,bpqf,zfw,yqw->xpz", L, cmo[0], R, C, optimize=True)
ref = out[mask]
d = np.abs(cx(r["hv_direct"]) - ref).max(); i = np.abs(cx(r["hv_iter"]) - ref).max()
print("case", case); print("max |get_ham_direct @ c - reference| =", d, "   max |hop_expr(c) - reference| =", i)
sys.exit(1 if (%s) else 0)
'''


