"""C02: exhaustive run of the BasisTree builders and of approximate_partition on the real code.

stdin : {"maxlen": int, "label_maxlen": int, "orders": [2,3,4], "part_maxlen": int, "part_maxn": int}
stdout: RESULT {"trees": [{"key": [...], "enc": [...] | null, "err": str | null, "once": bool, "detail": str}], "parts": [...]}

Encoding of a tree (pre-order = BasisTree.node_list): per node [n_children, n_sets, codes...] with a
real basis set i (dof = i) -> i+1 and a BasisDummy((label, j)) -> -(j+1).
`once`: the property itself checked on the implementation's object -- every supplied basis set occurs
exactly once in basis_list (and in basis_list_postorder), a node holding a BasisDummy holds nothing
else, dummy DoF names are pairwise distinct, dof_list has no duplicates.
"""
import itertools
import json
import sys

import renormalizer  # noqa: F401
from renormalizer import BasisHalfSpin
from renormalizer.model.basis import BasisDummy
from renormalizer.tn import BasisTree
from renormalizer.tn.treebase import approximate_partition


def enc(t):
    out = []
    for n in t.node_list:
        out += [len(n.children), n.n_sets]
        for b in n.basis_sets:
            out.append(-(b.dof[1] + 1) if isinstance(b, BasisDummy) else b.dof + 1)
    return out


def once(t, bl):
    real = [b for b in t.basis_list if not isinstance(b, BasisDummy)]
    real_po = [b for b in t.basis_list_postorder if not isinstance(b, BasisDummy)]
    msgs = []
    if sorted(id(b) for b in real) != sorted(id(b) for b in bl):
        msgs.append("basis_list is not a permutation of the input")
    if sorted(id(b) for b in real_po) != sorted(id(b) for b in bl):
        msgs.append("basis_list_postorder is not a permutation of the input")
    for n in t.node_list:
        if any(isinstance(b, BasisDummy) for b in n.basis_sets) and n.n_sets != 1:
            msgs.append("a dummy node carries further basis sets")
    dl = t.dof_list
    if len(set(map(str, dl))) != len(dl):
        msgs.append("duplicate DoF names")
    if len(t.postorder_list()) != len(t.node_list):
        msgs.append("pre/post-order sizes differ")
    return (not msgs), "; ".join(msgs)


def run(key, f, n):
    bl = [BasisHalfSpin(i) for i in range(n)]
    rec = {"key": key, "enc": None, "err": None, "once": None, "detail": ""}
    try:
        t = f(bl)
    except Exception as e:
        rec["err"] = "%s: %s" % (type(e).__name__, e)
        return rec
    rec["enc"] = enc(t)
    rec["once"], rec["detail"] = once(t, bl)
    return rec


def main():
    p = json.load(sys.stdin)
    trees = []
    for n in range(0, p["maxlen"] + 1):
        trees.append(run(["linear", n], BasisTree.linear, n))
        trees.append(run(["binary", n], BasisTree.binary, n))
        trees.append(run(["t3ns", n], BasisTree.t3ns, n))
        for o in p["orders"]:
            trees.append(run(["mctdh", n, o, "no"], lambda bl, o=o: BasisTree.general_mctdh(bl, o), n))
            trees.append(run(["mctdh", n, o, "all"], lambda bl, o=o: BasisTree.general_mctdh(bl, o, contract_primitive=True), n))
            if 2 <= n <= p["label_maxlen"]:
                for code in range(2 ** n):
                    lab = [bool((code >> i) & 1) for i in range(n)]
                    trees.append(run(["mctdh", n, o, "label", code],
                                     lambda bl, o=o, lab=lab: BasisTree.general_mctdh(bl, o, contract_primitive=True, contract_label=lab), n))
    parts = []
    for ln in range(0, p["part_maxlen"] + 1):
        for ng in range(1, p["part_maxn"] + 1):
            parts.append({"len": ln, "n": ng, "groups": approximate_partition(list(range(ln)), ng)})
    print("RESULT " + json.dumps({"trees": trees, "parts": parts}))


if __name__ == "__main__":
    main()
