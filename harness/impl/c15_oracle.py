"""C15 dense oracle (independent NumPy reference; not part of any theorem's trusted base).

For every expression program: run it in the implementation and, node by node, compare the dense matrix
of the implementation's value (own kron of basis.op_mat of single symbols) with the matrix expression
of the operands (matrix +, -, @, scalar *, /).  At the root additionally compare with
Mpo(model, terms).todense() when every per-site word is one the basis classes implement as a product.
stdin: JSON payload {syms, dofs, programs}; stdout: RESULT <json>."""
import json
import sys
import warnings

import numpy as np

import c15_lib as L
from renormalizer.model import Op, OpSum, Model
from renormalizer.model import basis as ba
from renormalizer.mps import Mpo

TOL = 1e-9


class Space:
    """kron-embedded local matrices of a real Model: dof table ["s0", "v", "e", "s1"]"""
    def __init__(self, tb):
        self.tb = tb
        self.basis = [ba.BasisHalfSpin("s0"), ba.BasisSHO("v", omega=1.0, nbas=3),
                      ba.BasisSimpleElectron("e"), ba.BasisHalfSpin("s1")]
        self.model = Model(self.basis, [])
        self.dims = [b.nbas for b in self.basis]
        self.dim = int(np.prod(self.dims))
        self.site = {b.dof: i for i, b in enumerate(self.basis)}
        self.cache = {}

    def local(self, sym, dof):
        return np.asarray(self.basis[self.site[dof]].op_mat(sym), dtype=complex)

    def letter(self, sym, dof):
        k = (sym, dof)
        if k not in self.cache:
            i = self.site[dof]
            mats = [np.eye(d, dtype=complex) for d in self.dims]
            mats[i] = self.local(sym, dof)
            full = mats[0]
            for m in mats[1:]:
                full = np.kron(full, m)
            self.cache[k] = full
        return self.cache[k]

    def word(self, syms, dofs):
        m = np.eye(self.dim, dtype=complex)
        for s, d in zip(syms, dofs):
            m = m @ self.letter(s, d)
        return m

    def of_op(self, o):
        return complex(o.factor) * self.word(o.split_symbol, o.dofs)

    def scale_of(self, v):
        """natural magnitude of a value: sum over its terms of |factor| * sqrt(dim) * prod |letter|_2 (an upper bound
        of the Frobenius norm of the term, never zero for a non-zero factor -- a nilpotent word such as
        "sigma_+ sigma_+" still counts with its coefficient).  Every tolerance of this oracle is relative to it
        (DESIGN 12: 1e-9 relative to the operand norms), so the comparisons are invariant under a global scale."""
        if isinstance(v, Op):
            b = float(np.sqrt(self.dim))
            for s_, d_ in zip(v.split_symbol, v.dofs):
                k = ("n", s_, d_)
                if k not in self.cache:
                    self.cache[k] = float(np.linalg.norm(self.local(s_, d_), 2))
                b *= self.cache[k]
            return abs(complex(v.factor)) * b
        if isinstance(v, list):
            return sum(self.scale_of(o) for o in v)
        return abs(complex(v))


    def of_value(self, v):
        if isinstance(v, Op):
            return self.of_op(v)
        if isinstance(v, list):
            m = np.zeros((self.dim, self.dim), dtype=complex)
            for o in v:
                m = m + self.of_op(o)
            return m
        return complex(v)     # scalars stay scalars


class RandomSpace(Space):
    """an arbitrary interpretation satisfying the contract of the theorems: every site is a 2-dim tensor
    factor, "I" is the unit, every other (symbol, dof) a fixed pseudo-random complex 2x2 matrix; dofs on
    the same site share the factor (so they do not commute), dofs on different sites commute"""
    def __init__(self, tb, site=None):
        self.tb = tb
        self.model = None
        if site is None:
            site = list(range(len(tb.dofs)))
        used = sorted(set(x for x in site if x is not None))
        self.site = {d: used.index(site[i]) for i, d in enumerate(tb.dofs) if site[i] is not None}
        self.dims = [2] * len(used)
        self.dim = 2 ** len(used)
        self.cache = {}

    def local(self, sym, dof):
        if sym == "I":
            return np.eye(2, dtype=complex)
        rs = np.random.RandomState((self.tb.sym_id[sym] * 131 + self.tb.dof_id[dof] * 7 + 12345) % (2 ** 31))
        return np.round(rs.normal(size=(2, 2)) * 2) / 2 + 1j * np.round(rs.normal(size=(2, 2)) * 2) / 2


def okey(o):
    k = tuple((s, d) for s, d in zip(o.split_symbol, o.dofs) if s != "I")
    return k if k else (("I", None),)       # all-identity terms: which dof carries the "I" is immaterial


SPIN_OK = {"I", "X", "Z", "sigma_+", "sigma_-"}
SHO_OK1 = {"I", "x", "b", r"b^\dagger", r"b^\dagger+b", "n"}
EL_OK = {("I",), ("a",), (r"a^\dagger",), (r"a^\dagger", "a")}


def mpo_eligible(sp, terms, expect):
    # Mpo() rejects empty / all-zero term lists, and (observed, outside C15) raises a NumPy ValueError
    # for terms that cancel exactly; only non-zero operators are compared through this route
    if not terms or all(t.factor == 0 for t in terms) or np.linalg.norm(expect) <= 1e-9 * sp.scale_of(list(terms)):
        return False
    for t in terms:
        per = {}
        for s, d in zip(t.split_symbol, t.dofs):
            per.setdefault(d, []).append(s)
        for d, w in per.items():
            b = sp.basis[sp.site[d]]
            if isinstance(b, ba.BasisHalfSpin):
                if not set(w) <= SPIN_OK:
                    return False
            elif isinstance(b, ba.BasisSHO):
                if not ((len(w) == 1 and w[0] in SHO_OK1) or w == [r"b^\dagger", "b"]):
                    return False
            else:
                if tuple(w) not in EL_OK:
                    return False
    return True


def check_program(prog, sp, tb):
    """Returns {"status": "ok"|"rejected"|"bad", ...}."""
    dense = {}          # id(node) -> matrix expression value
    bad = []
    stats = {"nodes": 0, "mpo": 0}
    env_vals = []
    env_dense = []

    def norm(x):
        return float(np.linalg.norm(x)) if isinstance(x, np.ndarray) else abs(x)

    def mexpr(node, value):
        t = node["t"]
        ch = lambda key: dense[id(node[key])]
        items = lambda: [dense[id(x)] for x in node["items"]]
        zero = np.zeros((sp.dim, sp.dim), dtype=complex)
        if t in ("op", "ident", "sc"):
            return sp.of_value(value)           # leaves: definition of the denotation
        if t == "var":
            return env_dense[node["i"]]
        if t == "sum" and not node["items"]:
            return complex(0)               # python: sum([]) == 0
        if t in ("list", "opsum", "sum"):
            m = zero
            for x in items():
                m = m + x
            return m
        if t == "bin":
            a, b = ch("a"), ch("b")
            o = node["op"]
            if o == "+":
                return a + b
            if o == "-":
                return a - b
            if o == "*":
                if isinstance(a, np.ndarray) and isinstance(b, np.ndarray):
                    return a @ b
                return a * b
            return a / b
        if t == "iadd":
            return ch("a") + ch("b")
        if t == "neg":
            return -ch("a")
        if t == "simplify":
            a = ch("a")
            atol = 0.0 if node.get("atol") is None else float(L.scalar(node["atol"]))
            if atol <= 0:
                return a
            # tolerance clause: |out - in| <= atol * sum over dropped keys of |word|
            out = sp.of_value(value)
            inp = node["_in_keys"]
            outk = [okey(o) for o in value]
            ID = (("I", None),)
            n_id_in = len(set(node["_in_idkeys"]))          # distinct all-identity terms (by first dof)
            n_id_out = sum(1 for k in outk if k == ID)
            non_id_out = [k for k in outk if k != ID]
            if len(set(non_id_out)) != len(non_id_out) or not set(outk) <= set(inp) or n_id_out > n_id_in:
                bad.append({"what": "simplify keys", "in": repr(inp)[:200], "out": repr(outk)[:200]})
            slack = atol * (sum(np.linalg.norm(sp.word([s for s, _ in k], [d for _, d in k]), 2)
                                for k in set(inp) - set(outk) if k != ID) + max(0, n_id_in - n_id_out))
            diff2 = float(np.linalg.norm(out - a, 2))          # spectral norm on both sides of the bound
            if diff2 > slack * (1 + 1e-9) + TOL * (norm(a) + node["_in_scale"]):
                bad.append({"what": "simplify changes the operator beyond atol", "atol": atol,
                            "diff": diff2, "allowed": float(slack)})
            return out
        if t in ("squeeze", "mksum", "mklist", "copy"):
            return ch("a")
        if t in ("sprod", "oprod"):
            its = items()
            if not its:
                return zero                 # OpSum.product([]) is documented to be the empty sum
            m = its[0]
            for x in its[1:]:
                m = (m @ x) if (isinstance(m, np.ndarray) and isinstance(x, np.ndarray)) else m * x
            return m
        raise ValueError(t)

    def hook(node, value):
        stats["nodes"] += 1
        e = mexpr(node, value)
        dense[id(node)] = e
        got = sp.of_value(value)
        if isinstance(e, np.ndarray) != isinstance(got, np.ndarray):
            # scalar zero added to an operator etc. never reaches here: both sides are values of the node
            bad.append({"what": "kind mismatch", "node": node["t"]})
            return
        if norm(got - e) > TOL * (norm(e) + sp.scale_of(value)):
            bad.append({"what": "dense(value) != matrix expression", "node": node["t"], "op": node.get("op"),
                        "diff": norm(got - e), "norm": norm(e), "value": repr(value)[:300]})

    def build(node, env):
        # same dispatch as c15_lib.build, with the hook after every node and the simplify input keys
        t = node["t"]
        for key in ("a", "b"):
            if key in node and isinstance(node[key], dict):
                node["_" + key] = build(node[key], env)
        if "items" in node:
            node["_items"] = [build(x, env) for x in node["items"]]
        if t in ("op", "ident", "sc"):
            v = L.build(node, tb, env)
        elif t == "var":
            v = env[node["i"]]
        elif t == "list":
            v = list(node["_items"])
        elif t == "opsum":
            v = OpSum(node["_items"])
        elif t == "bin":
            import operator as op_
            o = node["op"]
            f = ({"+": op_.iadd, "-": op_.isub, "*": op_.imul, "/": op_.itruediv} if node.get("aug") else
                 {"+": op_.add, "-": op_.sub, "*": op_.mul, "/": op_.truediv})[o]
            v = f(node["_a"], node["_b"])
        elif t == "iadd":
            v = node["_a"]
            v += node["_b"]
        elif t == "neg":
            v = -node["_a"]
        elif t == "simplify":
            node["_in_scale"] = sp.scale_of(node["_a"]) if isinstance(node["_a"], list) else 0.0
            node["_in_keys"] = [okey(o) for o in node["_a"]] if isinstance(node["_a"], list) else []
            node["_in_idkeys"] = [o.dofs[0] for o in node["_a"] if okey(o) == (("I", None),)] if isinstance(node["_a"], list) else []
            v = node["_a"].simplify() if node.get("atol") is None else node["_a"].simplify(atol=L.scalar(node["atol"]))
        elif t == "squeeze":
            v = node["_a"].squeeze_identity()
        elif t == "mksum":
            v = OpSum(node["_a"])
        elif t == "mklist":
            v = list(node["_a"])
        elif t == "copy":
            v = node["_a"].copy()
        elif t == "sprod":
            v = OpSum.product(node["_items"])
        elif t == "oprod":
            v = Op.product(node["_items"])
        elif t == "sum":
            v = sum(node["_items"])
        else:
            raise ValueError(t)
        hook(node, v)
        return v

    try:
        with warnings.catch_warnings():
            warnings.simplefilter("error", RuntimeWarning)
            for n in prog.get("lets", []):
                v = build(n, env_vals)
                env_vals.append(v)
                env_dense.append(dense[id(n)])
            root = build(prog["body"], env_vals)
    except Exception as e:  # noqa: BLE001
        if bad:
            return {"status": "bad", "bad": bad, "stats": stats}
        return {"status": "rejected", "exc": type(e).__name__, "msg": str(e)[:120], "stats": stats}
    expect = dense[id(prog["body"])]
    # Mpo route
    if sp.model is not None and isinstance(root, (Op, list)) and isinstance(expect, np.ndarray):
        cands = [("raw", [root] if isinstance(root, Op) else list(root))]
        if isinstance(root, OpSum):
            try:
                cands.append(("simplified", list(root.simplify())))
            except Exception as e:  # noqa: BLE001
                bad.append({"what": "simplify() raised on an accepted sum", "exc": type(e).__name__, "msg": str(e)[:120]})
        for name, terms in cands:
            if not mpo_eligible(sp, terms, expect):
                continue
            try:
                # at tiny global scales the default "qr" construction of the unchanged tree raises IndexError
                # (C01 known finding qr-construction-not-scale-invariant): scaled programs use Hopcroft-Karp
                d = (Mpo(sp.model, terms, algo="Hopcroft-Karp") if prog.get("hk") else Mpo(sp.model, terms)).todense()
            except Exception as e:  # noqa: BLE001
                bad.append({"what": "Mpo construction raised", "which": name, "exc": type(e).__name__, "msg": str(e)[:160]})
                continue
            stats["mpo"] += 1
            if np.linalg.norm(d - expect) > TOL * (np.linalg.norm(expect) + sp.scale_of(list(terms))):
                bad.append({"what": "Mpo(model, terms).todense() != matrix expression", "which": name,
                            "diff": float(np.linalg.norm(d - expect)), "norm": float(np.linalg.norm(expect))})
    if bad:
        return {"status": "bad", "bad": bad, "stats": stats, "value": repr(root)[:400]}
    return {"status": "ok", "stats": stats, "nterms": (len(root) if isinstance(root, list) else 1)}


def strip(node):
    """remove the private keys added by build (so a program can be re-run)"""
    if isinstance(node, dict):
        return {k: strip(v) for k, v in node.items() if not k.startswith("_")}
    if isinstance(node, list):
        return [strip(x) for x in node]
    return node


def check_split(sp_case, tb):
    """split_elementary: elementary operators sorted by site, one site each, factor 1, and
    factor * product(elementary operators) == the operator (letters on one site do not commute here)"""
    sp = RandomSpace(tb, sp_case["site"])
    res, v = L.run_program(sp_case["prog"], tb)
    if not isinstance(v, Op):
        return {"status": "rejected"}
    d2s = {tb.dofs[i]: s for i, s in enumerate(sp_case["site"]) if s is not None}
    try:
        ops, fac = v.split_elementary(d2s)
    except Exception as e:  # noqa: BLE001
        return {"status": "bad", "bad": [{"what": "split_elementary raised", "exc": type(e).__name__, "msg": str(e)[:120]}]}
    bad = []
    sites = []
    for o in ops:
        st = set(d2s[d] for d in o.dofs)
        if len(st) != 1:
            bad.append({"what": "elementary operator spans several sites", "op": repr(o)})
        sites.append(min(st))
        if o.factor != 1:
            bad.append({"what": "elementary operator factor is not 1", "op": repr(o)})
    if sites != sorted(set(sites)):
        bad.append({"what": "sites not strictly increasing", "sites": sites})
    m = complex(fac) * np.eye(sp.dim, dtype=complex)
    for o in ops:
        m = m @ sp.of_op(o)
    e = sp.of_op(v)
    if np.linalg.norm(m - e) > TOL * (np.linalg.norm(e) + sp.scale_of(v)):
        bad.append({"what": "factor * product of elementary operators != operator", "diff": float(np.linalg.norm(m - e))})
    return {"status": "bad", "bad": bad, "op": repr(v)} if bad else {"status": "ok"}


def check_scaled(case, sp, tb):
    """Model construction under global and mixed scales.  case = {"prog": program giving an Op / OpSum,
    "ks": [k...], "mixed": [k per term]}.  For every scale c = 2**k the term list is scaled in three ways (through
    the algebra `c * sum`, `sum * c`, and by rebuilding every Op with factor*c) and, once, term by term with the mixed
    exponents.  Model(basis, scaled).ham_terms must keep exactly the terms with factor != 0, unchanged (same objects),
    its dense meaning must be c times the dense meaning at c = 1 (scaling by a power of two is exact in binary64, the
    comparison is relative), and Mpo(model, terms, algo="Hopcroft-Karp").todense() must agree when the words are ones
    the basis classes implement.  The default qr construction is not used here (C01 known finding at tiny scales)."""
    res, v = L.run_program(case["prog"], tb)
    if not isinstance(v, (Op, OpSum)):
        return {"status": "rejected"}
    base = OpSum([v]) if isinstance(v, Op) else v
    if not len(base):
        return {"status": "rejected"}
    bad = []
    ncmp = 0
    ref = [sp.of_op(o) for o in base]

    def one(label, terms, exps):
        nonlocal ncmp
        want = [t for t in terms if t.factor != 0]
        try:
            ham = Model(sp.basis, list(terms)).ham_terms
            again = sp.model.check_operator_terms(OpSum(terms))
        except Exception as e:  # noqa: BLE001
            bad.append({"what": "Model construction raised", "how": label, "exc": type(e).__name__, "msg": str(e)[:120]})
            return
        ncmp += 1
        if len(ham) != len(want) or any(a is not b for a, b in zip(ham, want)) or len(again) != len(ham) \
                or any(a is not b for a, b in zip(again, ham)):
            lost = [repr(t) for t in want if not any(t is h for h in ham)]
            bad.append({"what": "Model drops or alters terms with non-zero factor", "how": label, "lost": lost[:3],
                        "kept": len(ham), "expected": len(want)})
            return
        expect = np.zeros((sp.dim, sp.dim), dtype=complex)
        for m, k in zip(ref, exps):
            expect = expect + np.ldexp(m.real, k) + 1j * np.ldexp(m.imag, k)
        got = sp.of_value(list(ham))
        scale = sum(float(np.ldexp(sp.scale_of(o), k)) for o, k in zip(base, exps))
        if np.linalg.norm(got - expect) > TOL * scale:
            bad.append({"what": "dense(Model(c*H).ham_terms) != c * dense(H)", "how": label,
                        "diff": float(np.linalg.norm(got - expect)), "norm": float(np.linalg.norm(expect))})
        if mpo_eligible(sp, ham, expect):
            try:
                d = Mpo(sp.model, list(terms), algo="Hopcroft-Karp").todense()
                if np.linalg.norm(d - expect) > TOL * scale:
                    bad.append({"what": "Mpo(model, c*H, Hopcroft-Karp).todense() != c * dense(H)", "how": label,
                                "diff": float(np.linalg.norm(d - expect)), "norm": float(np.linalg.norm(expect))})
            except Exception as e:  # noqa: BLE001
                bad.append({"what": "Mpo(model, c*H, Hopcroft-Karp) raised", "how": label, "exc": type(e).__name__, "msg": str(e)[:120]})

    try:
        with warnings.catch_warnings():
            warnings.simplefilter("error", RuntimeWarning)
            for k in case["ks"]:
                c = float(np.ldexp(1.0, k))
                one("c*H k=%d" % k, list(c * base), [k] * len(base))
                one("H*c k=%d" % k, list(base * np.float64(c)), [k] * len(base))
                one("rebuilt k=%d" % k, [Op(o.symbol, o.dofs, o.factor * c, o.qn_list) for o in base], [k] * len(base))
            mixed = [case["mixed"][i % len(case["mixed"])] for i in range(len(base))]
            one("mixed %s" % mixed[:6], [o * float(np.ldexp(1.0, k)) for o, k in zip(base, mixed)], mixed)
    except Exception as e:  # noqa: BLE001
        bad.append({"what": "scaling the operator sum raised", "exc": type(e).__name__, "msg": str(e)[:120]})
    if bad:
        return {"status": "bad", "bad": bad, "value": repr(base)[:300]}
    return {"status": "ok", "compared": ncmp, "nterms": len(base)}


# ------------------------------------------------------------------------------------------------
# history across models: the same Op / OpSum objects evaluated in models that group the dofs differently
_AD = np.array([[0., 0.], [1., 0.]])
_PAULI = {"I": np.eye(2), "X": np.array([[0., 1.], [1., 0.]]), "Z": np.array([[1., 0.], [0., -1.]]),
          "sigma_+": np.array([[0., 1.], [0., 0.]]), "sigma_-": np.array([[0., 0.], [1., 0.]])}
_NB = 3
_B = np.diag(np.sqrt(np.arange(1, _NB)), k=1)
_SHO = {"I": np.eye(_NB), "b": _B, r"b^\dagger": _B.T, r"b^\dagger + b": _B + _B.T, "x": (_B + _B.T) / np.sqrt(2.0),
        "n": np.diag(np.arange(_NB)).astype(float)}
# site layouts: ("E1", dof) one electronic dof per site, ("EV", [dofs]) vacuum + one state per dof,
# ("EM", [dofs]) one state per dof (no vacuum), ("V",) the oscillator, ("S",) the spin
LAYOUTS = {
    "A": [("E1", "e0"), ("E1", "e1"), ("V",), ("S",)],
    "B": [("EV", ["e0", "e1"]), ("V",), ("S",)],
    "C": [("S",), ("V",), ("E1", "e1"), ("E1", "e0")],
    "D": [("V",), ("S",), ("EV", ["e1", "e0"])],
    "E": [("EM", ["e0", "e1"]), ("V",), ("S",)],
}


def _basis_of(layout):
    out = []
    for st in layout:
        if st[0] == "E1":
            out.append(ba.BasisSimpleElectron(st[1]))
        elif st[0] == "EV":
            out.append(ba.BasisMultiElectronVac(list(st[1])))
        elif st[0] == "EM":
            out.append(ba.BasisMultiElectron(list(st[1]), [1] * len(st[1])))
        elif st[0] == "V":
            out.append(ba.BasisSHO("v", omega=1.0, nbas=_NB))
        else:
            out.append(ba.BasisHalfSpin("s0"))
    return out


def _unit(n, i, j):
    m = np.zeros((n, n))
    m[i, j] = 1.0
    return m


def _ref_term(layout, spec):
    """first-principles matrix of one term (without its factor) in a layout"""
    el = spec.get("elec")
    mats = []
    for st in layout:
        if st[0] == "E1":
            m = np.eye(2)
            if el:
                if el[0] in ("c", "ca") and "e%d" % el[1] == st[1]:
                    m = m @ _AD
                if (el[0] == "a" and "e%d" % el[1] == st[1]) or (el[0] == "ca" and "e%d" % el[2] == st[1]):
                    m = m @ _AD.T
            mats.append(m)
        elif st[0] in ("EV", "EM"):
            off = 1 if st[0] == "EV" else 0
            n = len(st[1]) + off
            idx = lambda k: st[1].index("e%d" % k) + off
            if not el:
                m = np.eye(n)
            elif el[0] == "ca":
                m = _unit(n, idx(el[1]), idx(el[2]))
            elif el[0] == "c":
                m = _unit(n, idx(el[1]), 0)
            else:
                m = _unit(n, 0, idx(el[1]))
            mats.append(m)
        elif st[0] == "V":
            m = np.eye(_NB)
            for s_ in spec.get("sho", []):
                m = m @ _SHO[s_]
            mats.append(m)
        else:
            m = np.eye(2)
            for s_ in spec.get("spin", []):
                m = m @ _PAULI[s_]
            mats.append(m)
    full = np.eye(1)
    for m in mats:
        full = np.kron(full, m)
    return full


def _build_term(spec):
    import random
    rr = random.Random(spec["perm"])
    el = spec.get("elec")
    seqs = []
    if el:
        e = []
        if el[0] in ("c", "ca"):
            e.append((r"a^\dagger", "e%d" % el[1]))
        if el[0] == "a":
            e.append(("a", "e%d" % el[1]))
        if el[0] == "ca":
            e.append(("a", "e%d" % el[2]))
        seqs.append(e)
    if spec.get("sho"):
        seqs.append([(s_, "v") for s_ in spec["sho"]])
    if spec.get("spin"):
        seqs.append([(s_, "s0") for s_ in spec["spin"]])
    letters = []
    seqs = [list(q) for q in seqs if q]
    while seqs:                                    # random interleaving that keeps every sequence in order
        q = rr.choice(seqs)
        letters.append(q.pop(0))
        seqs = [x for x in seqs if x]
    if not letters:
        letters = [("I", "s0")]
    # leaves of one or two letters, multiplied with the public algebra
    leaves, i = [], 0
    while i < len(letters):
        if i + 1 < len(letters) and rr.random() < 0.3:
            (s1, d1), (s2, d2) = letters[i], letters[i + 1]
            leaves.append(Op(s1 + " " + s2, [d1, d2]))
            i += 2
        else:
            leaves.append(Op(letters[i][0], letters[i][1]))
            i += 1
    f = L.scalar(spec["f"])
    how = rr.choice(["chain", "product", "sprod"])
    if how == "chain" or len(leaves) == 1:
        t = leaves[0]
        for x in leaves[1:]:
            t = t * x
    elif how == "product":
        t = Op.product(leaves)
    else:
        t = OpSum.product(leaves)
    t = (t * f) if rr.random() < 0.5 else (f * t)
    return t, letters


def check_history(case):
    """case = {"terms": [spec], "repeat": [indices], "models": [layout names in the order of use]}.
    The term objects are built ONCE and then used in every model of the sequence: split_elementary must be the
    stable regrouping of the term's letters by THAT model's sites (sites increasing, factor 1, returned factor the
    term's), Model(...).ham_terms must keep the objects (also repeated ones), and
    Mpo(model, terms, Hopcroft-Karp).todense() must equal the first-principles matrix of that layout."""
    bad = []
    try:
        built = [_build_term(sp_) for sp_ in case["terms"]]
    except Exception as e:  # noqa: BLE001
        return {"status": "rejected", "exc": type(e).__name__, "msg": str(e)[:120]}
    objs = [b[0] for b in built]
    ham0 = objs[0] + objs[1] if len(objs) > 1 else OpSum([objs[0]])
    for o in objs[2:]:
        ham0 = ham0 + o
    terms = ham0 + [objs[i] for i in case.get("repeat", [])]          # the same objects once more
    order = list(range(len(objs))) + list(case.get("repeat", []))
    ncmp = 0
    for name in case["models"]:
        layout = LAYOUTS[name]
        basis = _basis_of(layout)
        try:
            model = Model(basis, list(terms))
        except Exception as e:  # noqa: BLE001
            bad.append({"what": "Model construction raised", "model": name, "exc": type(e).__name__, "msg": str(e)[:120]})
            continue
        want = [t for t in terms if t.factor != 0]
        if len(model.ham_terms) != len(want) or any(a is not b for a, b in zip(model.ham_terms, want)):
            bad.append({"what": "Model.ham_terms loses or alters (repeated) term objects", "model": name,
                        "kept": len(model.ham_terms), "expected": len(want)})
        d2s = model.dof_to_siteidx
        for t in objs:
            try:
                ops, f = t.split_elementary(d2s)
            except Exception as e:  # noqa: BLE001
                bad.append({"what": "split_elementary raised", "model": name, "exc": type(e).__name__, "msg": str(e)[:120]})
                continue
            letters = list(zip(t.split_symbol, t.dofs))
            sites = sorted(set(d2s[d] for _, d in letters))
            expect = [[(s_, d) for s_, d in letters if d2s[d] == st] for st in sites]
            got = [list(zip(o.split_symbol, o.dofs)) for o in ops]
            if got != expect or any(o.factor != 1 for o in ops) or f != t.factor:
                bad.append({"what": "split_elementary is not the regrouping of the letters by this model's sites", "model": name,
                            "op": repr(t), "got": repr(ops)[:200], "expected": repr(expect)[:200], "history": case["models"]})
                break
        dim = int(np.prod([b.nbas for b in basis]))
        ref = np.zeros((dim, dim), dtype=complex)
        scale = 0.0
        for i in order:
            m = _ref_term(layout, case["terms"][i])
            ref = ref + complex(objs[i].factor) * m
            scale += abs(complex(objs[i].factor)) * np.sqrt(dim) * max(1.0, float(np.linalg.norm(m, 2)))
        if np.linalg.norm(ref) <= 1e-9 * scale or all(t.factor == 0 for t in terms):
            continue                                   # Mpo() refuses the zero operator (see notes, exclusion A)
        try:
            d = Mpo(model, list(terms), algo="Hopcroft-Karp").todense()
        except Exception as e:  # noqa: BLE001
            bad.append({"what": "Mpo(model, terms, Hopcroft-Karp) raised", "model": name, "exc": type(e).__name__, "msg": str(e)[:160],
                        "history": case["models"]})
            continue
        ncmp += 1
        if d.shape != ref.shape or np.linalg.norm(d - ref) > TOL * scale:
            bad.append({"what": "Mpo(model, terms).todense() != first-principles matrix of this layout", "model": name,
                        "history": case["models"], "diff": float(np.linalg.norm(d - ref)) if d.shape == ref.shape else None,
                        "norm": float(np.linalg.norm(ref))})
    if bad:
        return {"status": "bad", "bad": bad, "terms": repr(list(terms))[:400]}
    return {"status": "ok", "compared": ncmp}


def replay(case):
    """repro entry point: 1 while the property fails on this input (wrong matrix, or raising on an
    expression that must be accepted), 0 otherwise"""
    tb = L.Tables(case["syms"], case["dofs"])
    if "split" in case:
        r = check_split(case["split"], tb)
    elif "scaled" in case:
        r = check_scaled(case["scaled"], Space(tb), tb)
    elif "history" in case:
        r = check_history(case["history"])
    else:
        sp = Space(tb) if case.get("space", "model") == "model" else RandomSpace(tb)
        r = check_program(strip(case["prog"]), sp, tb)
    print(r)
    if r["status"] == "bad":
        return 1
    if r["status"] == "rejected" and case.get("must_accept"):
        return 1
    return 0


def main():
    pl = json.load(sys.stdin)
    tb = L.Tables(pl["syms"], pl["dofs"])
    sp = Space(tb) if pl.get("space", "model") == "model" else RandomSpace(tb)
    out = []
    for prog in pl.get("programs", []):
        out.append(check_program(prog, sp, tb))
    spl = [check_split(c, tb) for c in pl.get("splits", [])]
    scl = [check_scaled(c, sp, tb) for c in pl.get("scaled", [])]
    hist = [check_history(c) for c in pl.get("history", [])]
    print("RESULT " + json.dumps({"results": out, "splits": spl, "scaled": scl, "history": hist}, default=str))


if __name__ == "__main__":
    main()
