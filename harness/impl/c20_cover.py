"""C20 implementation runner: bipartite_vertex_cover on a batch of graphs (both algorithms).

stdin : {"cases": [{"g": [[v,...],...], "np": bool, "inject": null | [u or -1, ...]}, ...]}
stdout: RESULT {"file": payload["out"], "n": ...}; the file holds {"res": [per case dict]}

Per case and algorithm the vertex SETS described by the two boolean tables are reported
({i : i < len(table) and table[i]}), the table lengths, the matching actually used
(SciPy's result is captured by a wrapper around the name `maximum_bipartite_matching` inside the
module; for "Hungarian" the function max_bipartite_matching2 is called directly) and any exception.
With "inject" the SciPy call is replaced by the given table (-1 = None): this drives new_konig with
non-maximum matchings to observe where its asserts fire.
An independent oracle (bit-mask brute force over subsets of U) gives the minimum cover size.
"""
import json
import sys

import numpy as np

import renormalizer.lib.bipartite_matching.bipartite_matching as bm
from renormalizer.lib import bipartite_vertex_cover

_scipy_matching = bm.maximum_bipartite_matching
_log = {}


def _wrapped(graph, perm_type="row"):
    if _log.get("inject") is not None:
        out = np.array(_log["inject"], dtype=np.int32)
    else:
        out = _scipy_matching(graph, perm_type=perm_type)
    _log["match"] = [int(x) for x in out]
    _log["shape"] = [int(graph.shape[0]), int(graph.shape[1])]
    return out


bm.maximum_bipartite_matching = _wrapped


def brute_min_cover(g):
    nU = len(g)
    nb = [0] * nU
    for u, adj in enumerate(g):
        for v in adj:
            nb[u] |= 1 << int(v)
    full = (1 << nU) - 1
    # forced[S] = union of neighbour sets of the U vertices in S
    forced = [0] * (1 << nU)
    for s in range(1, 1 << nU):
        low = s & -s
        forced[s] = forced[s ^ low] | nb[low.bit_length() - 1]
    best = None
    for chosen in range(1 << nU):
        c = bin(chosen).count("1") + bin(forced[full ^ chosen]).count("1")
        if best is None or c < best:
            best = c
    return best


def tables_to_sets(ub, vb):
    cu = [i for i, b in enumerate(ub) if b]
    cv = [i for i, b in enumerate(vb) if b]
    return cu, cv


def run_one(case, oracle_limit):
    g = case["g"]
    if case.get("np"):
        arg = [np.array(adj, dtype=np.int32) for adj in g]
    else:
        arg = [list(adj) for adj in g]
    out = {}
    for tag, algo in (("hk", "Hopcroft-Karp"), ("hu", "Hungarian")):
        r = {}
        _log.clear()
        if tag == "hk":
            _log["inject"] = case.get("inject")
        elif case.get("inject") is not None:
            continue
        try:
            ub, vb = bipartite_vertex_cover(arg, algo=algo)
            cu, cv = tables_to_sets(ub, vb)
            r.update(ok=True, cu=cu, cv=cv, lenU=len(ub), lenV=len(vb),
                     types=sorted({type(b).__name__ for b in list(ub) + list(vb)}))
        except Exception as e:          # noqa: BLE001  (the kind of exception is part of the observation)
            r.update(ok=False, err=type(e).__name__, msg=str(e)[:120])
        if tag == "hk":
            r["match"] = _log.get("match")
            r["shape"] = _log.get("shape")
        else:
            try:
                m = bm.max_bipartite_matching2(arg)
                r["match"] = [-1 if x is None else int(x) for x in m]
            except Exception as e:      # noqa: BLE001
                r["match"] = None
                r["match_err"] = type(e).__name__
        out[tag] = r
    if len(g) <= oracle_limit:
        out["min"] = brute_min_cover(g)
    return out


def main():
    payload = json.load(sys.stdin)
    lim = payload.get("oracle_limit", 14)
    res = [run_one(c, lim) for c in payload["cases"]]
    # the shared runner reads stdout only after exit: large results go through a file
    with open(payload["out"], "w") as f:
        json.dump({"res": res}, f, separators=(",", ":"))
    print("RESULT " + json.dumps({"file": payload["out"], "n": len(res)}))


main()
