"""C20 dense oracle for the bond-dimension clause.

stdin : {"cases": [{"n": nsite, "terms": [[[sym_idx per site], coef], ...]}, ...], "algos": [...]}
        coef is a float (dyadic stream) or an exact rational [num, den] (decimal stream)
file payload["out"]: {"res": [{"bd": {algo: [...]}, "exp": [...], "nL": [...], "nR": [...], "dense_err": {algo: float}} ...]}

For every case a half-spin chain operator  sum_t coef_t * prod_i sym_{t,i}  is built with
renormalizer.Mpo(model, terms, algo=algo).  Independently of the package the term list is merged
(duplicate strings summed), and at every cut k the incidence matrix between the distinct left
partial terms t[:k] and the distinct right partial terms t[k:] is formed; its minimum vertex cover
is found by brute force (bit masks over the smaller side).  `exp` is that number per cut
(boundaries 1), nL/nR the numbers of distinct left/right parts.
In the decimal stream the operator is DEFINED by exact Fractions: duplicates are merged exactly, strings
whose coefficients cancel over the rationals are not part of the operator (even if 0.1 + 0.2 - 0.3 != 0
in binary64) and must not occupy a bond; the package receives the correctly rounded doubles.
A logger around symbolic_mpo.bipartite_vertex_cover records with which algorithm the cover routine is
really called (dispatch_ok: one call per site, all with the requested algorithm).
The dense matrix of the Mpo is also compared with the kron-sum of the terms (sanity of the
decomposition that produced those bond dimensions).
"""
import json
import sys
from fractions import Fraction

import numpy as np

from renormalizer import Model, Mpo, Op
from renormalizer.model import basis as ba
import renormalizer.mps.symbolic_mpo as _sm

# logger around the name `bipartite_vertex_cover` inside symbolic_mpo: which algorithm is really used?
_cover_calls = []
_orig_cover = _sm.bipartite_vertex_cover


def _logged_cover(bigraph, algo="Hopcroft-Karp"):
    _cover_calls.append(algo)
    return _orig_cover(bigraph, algo=algo)


_sm.bipartite_vertex_cover = _logged_cover

SYMS = ["I", "sigma_x", "sigma_z", "sigma_+", "sigma_-"]
MATS = {
    "I": np.eye(2),
    "sigma_x": np.array([[0.0, 1.0], [1.0, 0.0]]),
    "sigma_z": np.array([[1.0, 0.0], [0.0, -1.0]]),
    "sigma_+": np.array([[0.0, 1.0], [0.0, 0.0]]),
    "sigma_-": np.array([[0.0, 0.0], [1.0, 0.0]]),
}


def min_cover(edges, nL, nR):
    if nR < nL:
        edges = [(r, l) for (l, r) in edges]
        nL, nR = nR, nL
    nb = [0] * nL
    for l, r in edges:
        nb[l] |= 1 << r
    full = (1 << nL) - 1
    forced = [0] * (1 << nL)
    for s in range(1, 1 << nL):
        low = s & -s
        forced[s] = forced[s ^ low] | nb[low.bit_length() - 1]
    return min(bin(c).count("1") + bin(forced[full ^ c]).count("1") for c in range(1 << nL))


def run_case(case, algos):
    n = case["n"]
    basis = [ba.BasisHalfSpin(i) for i in range(n)]
    ops = []
    merged = {}
    for idxs, coef in case["terms"]:
        t = tuple(SYMS[i] for i in idxs)
        exact = Fraction(coef[0], coef[1]) if isinstance(coef, (list, tuple)) else Fraction(coef)
        coef = float(exact)
        merged[t] = merged.get(t, Fraction(0)) + exact
        nz = [(s, i) for i, s in enumerate(t) if s != "I"]
        if nz:
            ops.append(Op(" ".join(s for s, _ in nz), [i for _, i in nz], coef))
        else:
            ops.append(Op("I", 0, coef))
    merged = {t: c for t, c in merged.items() if c != 0}       # exact cancellation: not part of the operator
    keys = sorted(merged)
    exp, nLs, nRs = [1], [1], [1]
    for k in range(1, n):
        L = sorted({t[:k] for t in keys})
        R = sorted({t[k:] for t in keys})
        li = {x: i for i, x in enumerate(L)}
        ri = {x: i for i, x in enumerate(R)}
        edges = sorted({(li[t[:k]], ri[t[k:]]) for t in keys})
        exp.append(min_cover(edges, len(L), len(R)))
        nLs.append(len(L))
        nRs.append(len(R))
    exp.append(1)
    nLs.append(1)
    nRs.append(1)
    dense_ref = None
    if n <= 7:
        dense_ref = np.zeros((2 ** n, 2 ** n))
        for t, c in merged.items():
            m = np.ones((1, 1))
            for s in t:
                m = np.kron(m, MATS[s])
            dense_ref += float(c) * m
    out = {"exp": exp, "nL": nLs, "nR": nRs, "bd": {}, "dense_err": {}, "err": {}, "dispatch_ok": {}, "cover_calls": {}}
    model = Model(basis, ops)
    for algo in algos:
        try:
            del _cover_calls[:]
            mpo = Mpo(model, algo=algo)
            out["bd"][algo] = [int(x) for x in mpo.bond_dims]
            # a graph algorithm must decide every site through bipartite_vertex_cover(algo=<requested>)
            # (one call per site; none when the merged table has a single term: construct_symbolic_mpo shortcut)
            want = n if len(keys) > 1 else 0
            out["cover_calls"][algo] = sorted(set(_cover_calls)) + [len(_cover_calls)]
            out["dispatch_ok"][algo] = (len(_cover_calls) == want and all(a == algo for a in _cover_calls))
            if dense_ref is not None:
                d = np.asarray(mpo.todense())
                out["dense_err"][algo] = float(np.max(np.abs(d - dense_ref)) / max(1.0, float(np.max(np.abs(dense_ref)))))
        except Exception as e:          # noqa: BLE001
            out["err"][algo] = "%s: %s" % (type(e).__name__, str(e)[:150])
    return out


def main():
    payload = json.load(sys.stdin)
    algos = payload.get("algos", ["Hopcroft-Karp", "Hungarian"])
    res = [run_case(c, algos) for c in payload["cases"]]
    # the shared runner reads stdout only after exit: large results go through a file
    with open(payload["out"], "w") as f:
        json.dump({"res": res}, f, separators=(",", ":"))
    print("RESULT " + json.dumps({"file": payload["out"], "n": len(res)}))


main()
