"""C10: closed-form propagator and its phase / shift bookkeeping.

A. tie to Model/Prop.v (exact_prop / vib_energy): for HolsteinModels with frequencies that are multiples of 1/8
   (so that the exponents are exact) the tensors of Mpo.exact_propagator(model, x, "GS", shift) are returned in
   the model's terms: bond dimensions, per-site diagonals as exponents log(d_n)/x, off-diagonal maximum, the
   factor on the last site; the harness compares the exponents with vib_energy evaluated in Coq.
B. oracle: dense(exact_propagator) for GS and EX space vs scipy expm of the independently assembled local
   Hamiltonian (sum_k omega_k b^+b [+ term10 (b^+ + b)] + shift), real, imaginary and complex x, shift != 0.
C. oracle + bookkeeping: Mps.evolve_exact / MpDm.evolve_exact with a non-zero offset: the INPUT is unchanged
   (prefactor and tensors), result.coeff = input.coeff * exp(-i offset dt), tensors x prefactor =
   exp(-i dt H_local) applied to the input; ThermalProp.evolve_exact (exact=True) vs dense normalised exp(-tau H_loc).
payload: {seed, n}
"""
import itertools
import numpy as np
from c09_lib import *
from renormalizer.model import HolsteinModel, Mol, Phonon
from renormalizer.mps import ThermalProp

P = read_payload()
rs = np.random.RandomState(P["seed"] % (2 ** 31))
tie = []
bad = []
n_or = 0


def hmodel(nmol, nmode, rs, scheme=2, degenerate=False):
    oms = [[float(rs.randint(1, 17)) / 8.0 for _ in range(nmode)] for _ in range(nmol)]
    nb = [[int(rs.choice([2, 3])) for _ in range(nmode)] for _ in range(nmol)]
    dis = [[float(rs.randint(0, 9)) / 8.0 for _ in range(nmode)] for _ in range(nmol)]
    if degenerate:
        # modes with the same frequency and number of levels but different displacements (within and across molecules):
        # in EX space their local propagators differ
        w0, n0 = oms[0][0], 3
        k = 0
        for i in range(nmol):
            for j in range(nmode):
                oms[i][j], nb[i][j] = w0, n0
                dis[i][j] = [0.875, -0.5, 0.25, 1.125][k % 4]
                k += 1
    mols = []
    for i in range(nmol):
        phs = [Phonon.simple_phonon(Quantity(oms[i][k]), Quantity(dis[i][k]), nb[i][k]) for k in range(nmode)]
        mols.append(Mol(Quantity(float(rs.randint(0, 5)) / 4.0), phs))
    model = HolsteinModel(mols, Quantity(0.0), scheme=scheme)
    return model, oms, nb


def site_kinds(model):
    """None for an electronic site, (omega, nbas, term10) for a vibrational site, in site order (scheme < 4)"""
    out = []
    for mol in model:
        out.append(None)
        for ph in mol.ph_list:
            out.append((float(ph.omega[0]), int(ph.pbond), float(ph.term10)))
    return out


def local_dense(kinds, x, shift, ex):
    mats = []
    for k in kinds:
        if k is None:
            mats.append(np.eye(2, dtype=complex))
        else:
            w, nb, t10 = k
            b = np.diag(np.sqrt(np.arange(1, nb)), 1)
            hloc = w * (b.T @ b) + (t10 * (b.T + b) if ex else 0.0)
            mats.append(sla.expm(x * hloc))
    return kron_all(mats) * np.exp(shift * x)


for it in range(int(P.get("n", 4))):
    nmol, nmode = int(rs.choice([1, 2])), int(rs.choice([1, 2]))
    if it == 0:
        nmol, nmode = 1, 2
    elif it == 1:
        nmol, nmode = 2, 1
    model, oms, nb = hmodel(nmol, nmode, rs, degenerate=(it < 2))
    kinds = site_kinds(model)
    # ------------------------------------------------------------------ A. structure in the model's terms
    x = float(rs.choice([-0.5, 0.25, -1.0]))
    shift = float(rs.randint(-8, 9)) / 8.0
    mpo = Mpo.exact_propagator(model, x, "GS", shift)
    rec = {"x": x, "shift": shift, "bond_dims": [int(d) for d in mpo.bond_dims], "sites": [], "ws": [None if k is None else k[0] for k in kinds],
           "nbas": [2 if k is None else k[1] for k in kinds]}
    last = len(mpo) - 1
    for i, mt in enumerate(mpo):
        a = np.asarray(mt.array)
        d = np.diagonal(a[0, :, :, 0]).copy()
        off = float(np.abs(a[0, :, :, 0] - np.diag(d)).max())
        fac = 1.0
        if i == last:
            fac = float(np.exp(shift * x))
            d = d / fac
        rec["sites"].append({"exponents": [float(np.log(v) / x) for v in d], "offdiag": off, "shape": list(a.shape), "scaled": i == last})
    tie.append(rec)
    # ------------------------------------------------------------------ B. dense oracle, GS and EX, complex x, non-zero shift
    for space in ("GS", "EX"):
        for xx in (float(rs.uniform(-0.6, -0.05)), 1j * float(rs.uniform(0.1, 1.0)), complex(rs.uniform(-0.3, 0), rs.uniform(-1, 1))):
            sh = float(rs.uniform(-1.5, 1.5))
            mp = Mpo.exact_propagator(model, xx, space, sh)
            got = np.asarray(mp.todense())
            exp_ = local_dense(kinds, xx, sh, space == "EX")
            e = relerr(got, exp_)
            n_or += 1
            if not e <= 1e-10 or max(mp.bond_dims) != 1:
                bad.append({"what": "exact_propagator dense", "space": space, "x": str(xx), "shift": sh, "relerr": e, "bond_dims": [int(d) for d in mp.bond_dims]})
    # ------------------------------------------------------------------ C. evolve_exact bookkeeping with a non-zero offset
    offset = float(rs.uniform(0.3, 2.0))
    h_mpo = Mpo(model, offset=Quantity(offset))
    dt = float(rs.uniform(0.2, 1.5))
    dims = [2 if k is None else k[1] for k in kinds]
    for form in ("mps", "mpdm"):
        for space in ("GS", "EX"):
            np.random.seed(int(rs.randint(0, 2 ** 31 - 1)))
            qn = 0 if space == "GS" else 1
            st = Mps.random(model, qn, 6, percent=1.0)
            st.coeff = complex(rs.uniform(0.5, 1.5), rs.uniform(-0.5, 0.5))
            if form == "mpdm":
                st = MpDm.from_mps(st)
            c0 = complex(st.coeff)
            t0 = [np.asarray(m.array).copy() for m in st]
            psi = dense_of(st)
            out = st.evolve_exact(h_mpo, dt, space)
            unchanged = (complex(st.coeff) == c0) and all(np.array_equal(np.asarray(m.array), a) for m, a in zip(st, t0))
            u = local_dense(kinds, -1j * dt, 0.0, space == "EX")
            ref = u @ psi if form == "mps" else psi @ u        # MpDm.evolve_exact applies the propagator on the lower index
            e = relerr(dense_of(out), ref)
            phase_ok = abs(complex(out.coeff) - c0 * np.exp(-1j * offset * dt)) <= 1e-12 * abs(c0)
            n_or += 1
            if not (unchanged and e <= 1e-10 and phase_ok):
                bad.append({"what": "evolve_exact bookkeeping", "form": form, "space": space, "offset": offset, "dt": dt, "input_unchanged": bool(unchanged),
                            "relerr_total": e, "phase_on_result": bool(phase_ok), "coeff_in_before": str(c0), "coeff_in_after": str(complex(st.coeff)),
                            "coeff_out": str(complex(out.coeff))})
    # imaginary evolve_dt through Mps/MpDm.evolve_exact: exp(-tau H_loc) (un-normalised), decay factor in the prefactor
    for form in ("mps", "mpdm"):
        np.random.seed(int(rs.randint(0, 2 ** 31 - 1)))
        st = Mps.random(model, 0, 4, percent=1.0)
        if form == "mpdm":
            st = MpDm.from_mps(st)
        psi = dense_of(st)
        tau = float(rs.uniform(0.2, 1.0))
        n_or += 1
        try:
            out = st.evolve_exact(h_mpo, -1j * tau, "GS")
            u = local_dense(kinds, -tau, 0.0, False)
            ref = u @ psi if form == "mps" else psi @ u
            e = relerr(dense_of(out), ref)
            if not e <= 1e-10:
                bad.append({"what": "evolve_exact imaginary dt", "form": form, "tau": tau, "relerr": e})
        except Exception as ex:
            bad.append({"what": "evolve_exact imaginary dt", "form": form, "tau": tau, "exc": repr(ex)[:200]})
    # ------------------------------------------------------------------ ThermalProp exact=True
    ndiag = [np.diag(np.arange(d, dtype=float)) for d in dims]

    def site_op(k):
        return kron_all([ndiag[i] if i == k else np.eye(d) for i, d in enumerate(dims)])
    vsites = [i for i, k in enumerate(kinds) if k is not None]
    hfull = np.asarray(Mpo(model).todense())

    def thermal_exact(init, space, what, beta, nst):
        """init: any purified density operator; reference = exp(-beta/2 H_loc) acting on the PHYSICAL (upper) index, normalised;
        compared as dense operators and through Tr(rho^+ O rho)"""
        global n_or
        rho0 = dense_of(init)
        tp = ThermalProp(init.copy(), exact=True, space=space)
        tp.evolve(evolve_dt=-1j * beta / 2 / nst, nsteps=nst)
        fin = tp.latest_mps
        got = dense_of(fin)
        u = local_dense(kinds, -beta / 2, 0.0, space == "EX")
        ref = u @ rho0
        ref = ref / np.linalg.norm(ref)
        e = relerr(got, ref)
        occ = [float(x) for x in np.real(fin.ph_occupations)]
        occ_ref = [float(np.real(np.trace(ref.conj().T @ site_op(k) @ ref))) for k in vsites]
        en, en_ref = float(np.real(tp.energies[-1])), float(np.real(np.trace(ref.conj().T @ hfull @ ref)))
        dev = max([abs(a - b) for a, b in zip(occ, occ_ref)] + [abs(en - en_ref) / max(1.0, abs(en_ref))])
        n_or += 1
        if not (e <= 1e-9 and dev <= 1e-9):
            bad.append({"what": "ThermalProp exact", "init": what, "space": space, "beta": beta, "nsteps": nst, "relerr_operator": e,
                        "expectation_dev": dev, "ph_occupations": occ, "ph_occupations_ref": occ_ref})

    def rank_one(psi, phi):
        """|psi><phi| as a purified operator with off-diagonal structure (phi in the zero-exciton sector: the auxiliary
        index carries no quantum number)"""
        from renormalizer.mps.svd_qn import add_outer
        o = MpDm.from_mps(psi)
        for i, (a, b) in enumerate(zip(psi, phi)):
            a, b = np.asarray(a.array), np.asarray(b.array)
            t = np.einsum("apb,cqd->acpqbd", a, b).reshape(a.shape[0] * b.shape[0], a.shape[1], b.shape[1], a.shape[2] * b.shape[2])
            o[i] = t
        o.qn = [add_outer(np.array(q1), np.array(q2)).reshape(-1, q1.shape[1]) for q1, q2 in zip(psi.qn, phi.qn)]
        o.coeff = psi.coeff * phi.coeff
        return o

    for space in ("GS", "EX"):
        beta = float(rs.choice([0.1, 1.0, 4.0]))
        nst = int(rs.choice([1, 3, 5]))
        thermal_exact(MpDm.max_entangled_gs(model) if space == "GS" else MpDm.max_entangled_ex(model), space, "max-entangled", beta, nst)
        # random operator |psi><phi| with off-diagonal structure (the propagator must act on the physical index)
        np.random.seed(int(rs.randint(0, 2 ** 31 - 1)))
        psi_ = Mps.random(model, 0 if space == "GS" else 1, 4, percent=1.0)
        phi_ = Mps.random(model, 0, 3, percent=1.0)
        thermal_exact(rank_one(psi_, phi_), space, "random |psi><phi|", beta, nst)
    # vibrations equilibrated on the ground surface, vertical excitation a^dagger, cooling on the excited surface
    tp0 = ThermalProp(MpDm.max_entangled_gs(model), exact=True, space="GS")
    tp0.evolve(evolve_dt=-1j * float(rs.choice([0.5, 2.0])) / 2, nsteps=1)
    exc = Mpo.onsite(model, r"a^\dagger").apply(tp0.latest_mps, canonicalise=True)
    exc.normalize("mps_and_coeff")
    thermal_exact(exc, "EX", "a^dagger thermal(GS)", float(rs.choice([0.5, 2.0, 4.0])), int(rs.choice([1, 3])))

# ---------------------------------------------------------------------- exact integer data for the purified-state theorems
def int_mps(model, qn, m, r):
    np.random.seed(int(r.randint(0, 2 ** 31 - 1)))
    st = Mps.random(model, qn, m, percent=1.0)
    for i in range(len(st)):
        a = np.asarray(st[i].array)
        st[i] = np.round(2.0 * a / max(np.abs(a).max(), 1e-300))
    st.coeff = 1.0
    return st


def chain_of(mp):
    return [{"d": int(np.asarray(m.array).shape[-1]), "t": np.asarray(m.array).astype(int).tolist()} for m in mp]


def rank_one_int(psi, phi):
    from renormalizer.mps.svd_qn import add_outer
    o = MpDm.from_mps(psi)
    for i, (a, b) in enumerate(zip(psi, phi)):
        a, b = np.asarray(a.array), np.asarray(b.array)
        o[i] = np.einsum("apb,cqd->acpqbd", a, b).reshape(a.shape[0] * b.shape[0], a.shape[1], b.shape[1], a.shape[2] * b.shape[2])
    o.qn = [add_outer(np.array(q1), np.array(q2)).reshape(-1, q1.shape[1]) for q1, q2 in zip(psi.qn, phi.qn)]
    o.coeff = 1.0
    return o


ints = []
for it in range(int(P.get("n_int", 3))):
    nsite = 3
    basis = [ba.BasisHalfSpin(i) for i in range(nsite)]
    smodel = Model(basis, [Op("Z", 0, 1.0)])
    psi_i = int_mps(smodel, 0, 2, rs)
    dm = MpDm.from_mps(psi_i)
    rec = {"from_mps": {"chain": chain_of(psi_i), "pdims": [2] * nsite, "dense": np.asarray(dm.todense()).astype(int).tolist()}}
    # purification: |psi><phi| (off-diagonal structure), integer product-sum operator
    phi_i = int_mps(smodel, 0, 2, rs)
    rho = rank_one_int(psi_i, phi_i)
    ops = Op("Z X", [0, 1], float(rs.randint(1, 4))) + Op("X X", [1, 2], float(rs.randint(1, 4))) + Op("Z", 2, float(rs.randint(-3, 4)))
    ompo = Mpo(smodel, ops)
    otens = [np.asarray(m.array) for m in ompo]
    rec["purification"] = {"kets": chain_of(rho), "ops": [{"d": int(t.shape[-1]), "t": t.astype(int).tolist()} for t in otens],
                           "ops_integer": bool(all(np.array_equal(t, np.round(t)) for t in otens)),
                           "pdims": [2] * nsite, "qdims": [2] * nsite, "value": float(np.real(rho.expectation(ompo)))}
    # maximally entangled ground-surface state of a Holstein-type model, not normalised (entries 1) and normalised
    nb = [int(rs.choice([2, 3])) for _ in range(2)]
    hbasis, kinds_me = [], []
    for i in range(2):
        hbasis += [ba.BasisSimpleElectron("e%d" % i), ba.BasisSHO("v%d" % i, 1.0, nb[i])]
        kinds_me += [None, nb[i]]
    hmodel_ = Model(hbasis, [Op(r"a^\dagger a", "e0", 1.0)])
    me = MpDm.from_mps(Mps.ground_state(hmodel_, True, normalize=False))
    men = MpDm.max_entangled_gs(hmodel_)
    dn = np.asarray(men.todense()) * men.coeff
    dd = np.asarray(me.todense())
    cst = float(np.prod([1.0 / np.sqrt(k) for k in kinds_me if k is not None]))
    rec["max_entangled"] = {"kinds": kinds_me, "pdims": [2 if k is None else k for k in kinds_me], "dense": dd.astype(int).tolist(),
                            "integer": bool(np.array_equal(dd, np.round(dd))),
                            "normalised_is_const_times_unnormalised": bool(np.abs(dn - cst * dd).max() <= 1e-14)}
    ints.append(rec)

emit({"tie": tie, "bad": bad[:10], "nbad": len(bad), "n_oracle": n_or, "ints": ints})
