"""Runs one of the C09 / C10 implementation-side scripts, selected by payload["script"], so that shards of
different scripts can share one parallel pool (ctx.impl_par).  The payload is handed on unchanged on stdin."""
import io
import json
import os
import runpy
import sys

raw = sys.stdin.read()
P = json.loads(raw or "{}")
name = P.get("script", "")
if not (name.startswith(("c09_", "c10_")) and name.endswith(".py") and "/" not in name):
    print("RESULT " + json.dumps({"error": "unknown script %r" % name}))
    sys.exit(2)
sys.stdin = io.StringIO(raw)
runpy.run_path(os.path.join(os.path.dirname(os.path.abspath(__file__)), name), run_name="__main__")
