import json, sys
import numpy as np
from renormalizer.utils import rk

out = {"methods": list(rk.method_list), "tabs": {}, "taylor": {}}
for m in rk.method_list:
    r = rk.RungeKutta(m)
    a, b, c = r.tableau
    out["tabs"][m] = {"a": np.asarray(a).tolist(), "b": np.asarray(b).tolist(), "c": np.asarray(c).tolist(),
                      "stage": int(r.stage), "order": [int(x) for x in r.order],
                      "ti": np.atleast_2d(r.runge_kutta_ti_coefficient()).tolist()}
for o in range(0, 31):
    out["taylor"][str(o)] = rk.TaylorExpansion(o).coeff.tolist()
print("RESULT " + json.dumps(out))
