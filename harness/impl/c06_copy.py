"""C06 models built by copying basis sets (BasisSet.copy(new_dof), TI1DModel) with NON-DEFAULT quantum numbers.
First-principles charges = those the user gave to the unit-cell basis sets, repeated per cell.  Checked:
  (copy)      every copied basis set has the template's sigmaqn / nbas;
  (operator)  the labels of Mpo(model) describe its blocks w.r.t. the first-principles charges (dense NumPy invariant);
  (states)    hartree_product_state and Mps.random: stored qntot = first-principles charge of the configuration / sector, labels
              valid w.r.t. the first-principles charges, dense weight outside the first-principles sector zero;
  (product)   H|psi> stays in the first-principles sector and survives canonicalise + lossless compress.
stdin {"seed", "ncases", "out"}"""
import itertools
import json
import random
import sys
import traceback

import numpy as np

import c03_gen as G
import c06_check
from renormalizer import Mps, Mpo, Op, BasisSimpleElectron, BasisHalfSpin, BasisSHO, BasisMultiElectron, BasisMultiElectronVac
from renormalizer.model import TI1DModel
from renormalizer.utils import CompressConfig, CompressCriteria

PRELUDE = r'''
import random, sys, json, numpy as np
sys.path.insert(0, "/verif/harness/impl")
import c03_gen as G, c06_check, c06_copy as N
'''


def cell_basis(desc):
    out = []
    for k, b in enumerate(desc["cell"]):
        if b[0] == "elec":
            out.append(BasisSimpleElectron("e%d" % k, sigmaqn=b[1]))
        elif b[0] == "spin":
            out.append(BasisHalfSpin("s%d" % k, sigmaqn=b[1]))
        elif b[0] == "multi":
            out.append(BasisMultiElectron(["m%d_%d" % (k, j) for j in range(len(b[1]))], b[1]))
        elif b[0] == "mev":
            out.append(BasisMultiElectronVac(["x%d_%d" % (k, j) for j in range(b[1])]))
        else:
            out.append(BasisSHO("v%d" % k, omega=1.0, nbas=b[1]))
    return out


def build(desc):
    """(model, template basis per site, first-principles charges per site)"""
    cell = cell_basis(desc)
    ncomp = desc["ncomp"]

    def q(c):
        return c if ncomp > 1 else c[0]

    local, nonlocal_ = [], []
    for k, (b, bb) in enumerate(zip(desc["cell"], cell)):
        sg = np.asarray(bb.sigmaqn).reshape(bb.nbas, -1)
        if b[0] == "elec":
            c = (sg[1] - sg[0]).tolist()
            local.append(Op(r"a^\dagger a", ["e%d" % k, "e%d" % k], desc["f"][k], qn=[q(c), q([-x for x in c])]))
            nonlocal_.append(Op(r"a^\dagger a", [(0, "e%d" % k), (1, "e%d" % k)], desc["t"][k], qn=[q(c), q([-x for x in c])]))
            nonlocal_.append(Op(r"a^\dagger a", [(1, "e%d" % k), (0, "e%d" % k)], desc["t"][k], qn=[q(c), q([-x for x in c])]))
        elif b[0] == "spin":
            c = (sg[0] - sg[1]).tolist()          # sigma_+ = |0><1|
            local.append(Op("sigma_z", "s%d" % k, desc["f"][k], qn=[q([0] * ncomp)]))
            nonlocal_.append(Op("sigma_+ sigma_-", [(0, "s%d" % k), (1, "s%d" % k)], desc["t"][k], qn=[q(c), q([-x for x in c])]))
            nonlocal_.append(Op("sigma_- sigma_+", [(0, "s%d" % k), (1, "s%d" % k)], desc["t"][k], qn=[q([-x for x in c]), q(c)]))
        elif b[0] == "sho":
            local.append(Op(r"b^\dagger b", "v%d" % k, desc["f"][k], qn=[q([0] * ncomp), q([0] * ncomp)]))
        elif b[0] == "multi":
            d0 = "m%d_0" % k
            local.append(Op(r"a^\dagger a", [d0, d0], desc["f"][k], qn=[q(sg[0].tolist()), q((-sg[0]).tolist())]))
        else:
            d0 = "x%d_0" % k
            local.append(Op(r"a^\dagger a", [d0, d0], desc["f"][k]))
    model = TI1DModel(cell, local, nonlocal_, desc["ncell"])
    template = cell * desc["ncell"]
    fp = [np.asarray(b.sigmaqn).reshape(b.nbas, -1).tolist() for b in template]
    return model, template, fp


def fp_sites(fp):
    return [{"nbas": len(x), "sigmaqn": x} for x in fp]


def gen_desc(rng):
    ncomp = rng.choice([1, 1, 2])
    cell = []
    for _ in range(rng.choice([1, 1, 2])):
        r = rng.random()
        if ncomp == 1:
            if r < 0.4:
                cell.append(["elec", rng.choice([[0, 2], [0, 2], [0, 3], [0, 1], [1, 0]])])
            elif r < 0.65:
                cell.append(["spin", rng.choice([[0, 1], [1, 0], [0, 2]])])
            elif r < 0.8:
                cell.append(["multi", rng.choice([[0, 2, 2], [0, 1, 1], [1, 1, 1]])])
            elif r < 0.9:
                cell.append(["mev", 2])
            else:
                cell.append(["sho", rng.choice([2, 3])])
        else:
            if r < 0.5:
                cell.append(["elec", rng.choice([[[0, 0], [1, 0]], [[0, 0], [0, 1]], [[0, 0], [2, 0]], [[0, 0], [1, 1]]])])
            elif r < 0.8:
                cell.append(["spin", rng.choice([[[0, 0], [1, 0]], [[0, 0], [0, 2]], [[0, 1], [1, 0]]])])
            else:
                cell.append(["multi", rng.choice([[[0, 0], [1, 0], [0, 1]], [[0, 0], [2, 0], [2, 0]]])])
    if not any(b[0] in ("elec", "spin") for b in cell):
        cell.append(["elec", [0, 2] if ncomp == 1 else [[0, 0], [0, 2]]])
    return {"ncomp": ncomp, "cell": cell, "ncell": rng.choice([2, 2, 3]), "f": [round(rng.uniform(-1, 1), 3) for _ in cell],
            "t": [round(rng.uniform(-1, 1), 3) for _ in cell]}


def run_case(cs, fails, stats):
    rng = random.Random(cs)
    desc = gen_desc(rng)
    nsite = len(desc["cell"]) * desc["ncell"]
    if nsite > 6:
        desc["ncell"] = 2
    lines = "desc = json.loads(%r)\nmodel, template, fp = N.build(desc)\n" % json.dumps(desc)

    def fail(key, detail, code):
        fails.append({"key": key, "detail": dict(detail, desc=desc), "repro": PRELUDE + lines + code, "case_seed": cs})

    try:
        model, template, fp = build(desc)
    except Exception as ex:
        fail("copy-model:exception", {"exception": repr(ex), "tb": traceback.format_exc()[-500:]}, "")
        return
    stats["cases"] = stats.get("cases", 0) + 1
    # (copy)
    for k, (b, t) in enumerate(zip(model.basis, template)):
        stats["checks"] = stats.get("checks", 0) + 1
        if b.nbas != t.nbas or not np.array_equal(np.asarray(b.sigmaqn).reshape(b.nbas, -1), np.asarray(t.sigmaqn).reshape(t.nbas, -1)) or type(b) is not type(t):
            fail("basis-copy:sigmaqn", {"site": k, "class": type(t).__name__, "template_sigmaqn": np.asarray(t.sigmaqn).tolist(), "copy_sigmaqn": np.asarray(b.sigmaqn).tolist()},
                 "bad = [k for k, (b, t) in enumerate(zip(model.basis, template)) if not np.array_equal(np.asarray(b.sigmaqn).reshape(b.nbas, -1), np.asarray(t.sigmaqn).reshape(t.nbas, -1))]\n"
                 "print('sites whose copied basis lost the template charges:', bad, [np.asarray(model.basis[k].sigmaqn).tolist() for k in bad])\nsys.exit(1 if bad else 0)\n")
            return
    sites = fp_sites(fp)
    charges = G.config_charges(sites)
    # (operator)
    try:
        H = Mpo(model)
    except Exception as ex:
        fail("copy-model:mpo-exception", {"exception": repr(ex)}, "from renormalizer import Mpo\nMpo(model)\n")
        return
    stats["checks"] = stats.get("checks", 0) + 1
    if c06_check.op_labels_describe_blocks(H, verbose=False, sigmas=fp):
        fail("operator-labels:copied-model", {"qn": [np.asarray(x).tolist() for x in H.qn]},
             "from renormalizer import Mpo\nsys.exit(c06_check.op_labels_describe_blocks(Mpo(model), sigmas=fp))\n")
        return
    # (states)
    cfg = [rng.randrange(s["nbas"]) for s in sites]
    sector = [int(x) for x in np.sum([np.array(s["sigmaqn"][c]) for s, c in zip(sites, cfg)], axis=0)]
    cond = {}
    for b, c in zip(model.basis, cfg):
        if c:
            cond[b.dofs[0] if b.multi_dof else b.dof] = int(c)
    code_p = "from renormalizer import Mps\np = Mps.hartree_product_state(model, %r)\n" % (cond,)
    try:
        p = Mps.hartree_product_state(model, cond)
    except Exception as ex:
        fail("copy-model:product-exception", {"exception": repr(ex)}, code_p)
        return
    stats["checks"] = stats.get("checks", 0) + 1
    v = G.dense_state(p) * p.coeff
    out = np.any(charges != np.array(sector), axis=1)
    qt = [int(x) for x in np.asarray(p.qntot).reshape(-1)]
    if qt != sector or np.linalg.norm(v[out]) > 1e-10 * np.linalg.norm(v) or c06_check.labels_describe_blocks(p, sites, verbose=False):
        fail("copied-model:product-state-sector", {"configuration": cfg, "first_principles_sector": sector, "stored_qntot": qt},
             code_p + "qt = [int(x) for x in np.asarray(p.qntot).reshape(-1)]\nprint('stored qntot', qt, 'first-principles charge of the configuration', %r)\n"
                      "sys.exit(1 if qt != %r or c06_check.labels_describe_blocks(p, N.fp_sites(fp)) else 0)\n" % (sector, sector))
        return
    s2 = rng.randrange(2 ** 31)
    np.random.seed(s2)
    try:
        psi = Mps.random(model, np.array(sector), rng.randint(4, 8), percent=1.0)
    except (FloatingPointError, ValueError):
        stats["random_rejected"] = stats.get("random_rejected", 0) + 1
        return
    stats["checks"] = stats.get("checks", 0) + 1
    v = G.dense_state(psi)
    if np.linalg.norm(v[out]) > 1e-10 * np.linalg.norm(v) or c06_check.labels_describe_blocks(psi, sites, verbose=False):
        fail("copied-model:random-state-sector", {"first_principles_sector": sector, "weight_outside": float(np.linalg.norm(v[out]))},
             "from renormalizer import Mps\nnp.random.seed(%d); psi = Mps.random(model, np.array(%r), 6, percent=1.0)\nsys.exit(c06_check.labels_describe_blocks(psi, N.fp_sites(fp)))\n" % (s2, sector))
        return
    # (product)
    ref = G.dense_op(H) @ v
    if np.linalg.norm(ref) > 1e-9 * np.linalg.norm(G.dense_op(H)) * np.linalg.norm(v):
        stats["checks"] = stats.get("checks", 0) + 1
        r = H.apply(psi)
        r.compress_config = CompressConfig(CompressCriteria.fixed, max_bonddim=4096)
        r.ensure_left_canonical()
        r.compress()
        w = G.dense_state(r) * r.coeff
        err = float(np.linalg.norm(w - ref) / np.linalg.norm(ref))
        lk = float(np.linalg.norm(w[out]) / np.linalg.norm(ref))
        if not (err <= 1e-9 and lk <= 1e-10):
            fail("copied-model:H-psi", {"rel_err": err, "weight_outside_first_principles_sector": lk}, "")
            return


def main():
    payload = json.loads(sys.stdin.read() or "{}")
    seed = int(payload.get("seed", 0))
    ncases = int(payload.get("ncases", 40))
    fails, stats = [], {}
    for k in range(ncases):
        try:
            run_case(seed * 100129 + k, fails, stats)
        except Exception as ex:
            fails.append({"key": "copy-generator:exception", "detail": {"exception": repr(ex), "tb": traceback.format_exc()[-900:]}, "repro": None, "case_seed": seed * 100129 + k})
    seen, out = set(), []
    for f in fails:
        if f["key"] not in seen:
            seen.add(f["key"]); out.append(f)
    res = {"failures": out, "stats": stats, "exports": []}
    if payload.get("out"):
        with open(payload["out"], "w") as f:
            json.dump(res, f, default=str)
        print("RESULT " + json.dumps({"file": payload["out"]}))
    else:
        print("RESULT " + json.dumps(res, default=str))


if __name__ == "__main__":
    main()
