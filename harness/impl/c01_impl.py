"""C01 correspondence exporter.  stdin: {"cases":[...], "algos":[...], "swap": bool}.
For every case and algorithm: _terms_to_table, construct_symbolic_mpo with the vertex-cover / QR
witnesses logged (wrappers around _decompose_graph, _decompose_qr, bipartite_vertex_cover,
scipy.linalg.qr), the symbolic out-op lists per bond, the tables after every site, the symbolic
matrices of compose_symbolic_mo, bond dimensions, qn, qntot; the dense oracle; optionally a sequence
of adjacent swaps through Mpo.try_swap_site with the inputs / witnesses / outputs of swap_site."""
import json
import sys
import traceback

import renormalizer  # noqa: F401
import numpy as np
import scipy.linalg

import c01_lib as L
from renormalizer.model import Model
from renormalizer.mps import Mpo
from renormalizer.mps import symbolic_mpo as sm

LOG = []          # per-site records of the current construction
_orig_graph = sm._decompose_graph
_orig_qr = sm._decompose_qr
_orig_bvc = sm.bipartite_vertex_cover
_orig_scipy_qr = scipy.linalg.qr
_cur = {}


def cnum(x):
    x = complex(x)
    return [float(x.real), float(x.imag)]


def keyl(a):
    return [int(v) for v in a]


def exp_outops(out_ops):
    res = []
    for oo in out_ops:
        if isinstance(oo, sm.OpTuple):       # the single-term fast path stores a bare OpTuple per bond
            oo = [oo]
        res.append([[keyl(o.symbol), cnum(o.factor)] for o in oo])
    return res


def bvc_wrap(bigraph, algo="Hopcroft-Karp"):
    res = _orig_bvc(bigraph, algo=algo)
    _cur["bvc"] = ([bool(b) for b in res[0]], [bool(b) for b in res[1]], [keyl(x) for x in bigraph])
    return res


def graph_wrap(term_row, term_col, non_red, in_ops_list, factor, primary_ops, algo, k=1):
    _cur.clear()
    shape = non_red.shape
    rows_first = shape[0] < shape[1]
    tr = [keyl(r) for r in term_row]
    tc = [keyl(c) for c in term_col]
    out = _orig_graph(term_row, term_col, non_red, in_ops_list, factor, primary_ops, algo, k)
    ub, vb, big = _cur["bvc"]
    rowbool, colbool = (ub, vb) if rows_first else (vb, ub)
    out_ops, table, fac = out
    LOG.append({"kind": "graph", "term_row": tr, "term_col": tc, "rowbool": rowbool, "colbool": colbool,
                "u_is_rows": rows_first, "bigraph": big,
                "out_ops": exp_outops(out_ops), "table": [keyl(r) for r in table],
                "factor": [cnum(f) for f in np.asarray(fac).reshape(-1)]})
    return out


def qr_wrap(term_row, term_col, non_red, in_ops_list, factor, primary_ops, algo, k=1):
    tr = [keyl(r) for r in term_row]
    tc = [keyl(c) for c in term_col]
    nr = non_red.copy()
    nr.data = np.asarray(factor)[nr.data - 1]
    gamma = np.asarray(nr.todense())
    cap = {}

    def qr_spy(a, *args, **kw):
        res = _orig_scipy_qr(a, *args, **kw)
        cap["qrp"] = res
        cap["a"] = np.array(a)
        return res
    scipy.linalg.qr = qr_spy
    try:
        out = _orig_qr(term_row, term_col, non_red, in_ops_list, factor, primary_ops, algo, k)
    finally:
        scipy.linalg.qr = _orig_scipy_qr
    if "qrp" in cap:
        q, r, p = cap["qrp"]
        called = True
    else:                       # single-column branch of the code: q = gamma, r = [[1]], p = [0]
        q, r, p = gamma, np.array([[1.0]]), np.array([0])
        called = False
    out_ops, table, fac = out
    LOG.append({"kind": "qr", "term_row": tr, "term_col": tc, "scipy_called": called,
                "gamma": [[cnum(v) for v in row] for row in np.asarray(gamma)],
                "q": [[cnum(v) for v in row] for row in np.asarray(q)],
                "r": [[cnum(v) for v in row] for row in np.asarray(r)],
                "p": [int(v) for v in p],
                "out_ops": exp_outops(out_ops), "table": [keyl(r_) for r_ in table],
                "factor": [cnum(f) for f in np.asarray(fac).reshape(-1)]})
    return out


sm._decompose_graph = graph_wrap
sm._decompose_qr = qr_wrap
sm.bipartite_vertex_cover = bvc_wrap

SWAPLOG = []
_orig_swap = sm.swap_site


def swap_wrap(out_ops_list, primary_ops, swap_jw, algo="Hopcroft-Karp"):
    start = len(LOG)
    rec = {"b1_len": len(out_ops_list[0]), "b2": exp_outops(out_ops_list[1]), "b3": exp_outops(out_ops_list[2]),
           "nprim": len(primary_ops), "algo": algo, "swap_jw": bool(swap_jw)}
    _jw.clear()
    try:
        res = _orig_swap(out_ops_list, primary_ops, swap_jw, algo=algo)
    except Exception as e:
        rec["error"] = "%s: %s" % (type(e).__name__, str(e)[:200])
        rec["steps"] = LOG[start:]
        SWAPLOG.append(rec)
        raise
    rec["steps"] = LOG[start:]
    rec["nprim2"] = len(primary_ops)            # swap_jw=True extends primary_ops in place
    rec["jw_map"] = _jw.get("map", [])
    rec["nb2"] = exp_outops(res[0])
    rec["nb3"] = exp_outops(res[1])
    SWAPLOG.append(rec)
    return res


_orig_jwmap = sm.table_and_factor_swapped_jw
_jw = {}


def jwmap_wrap(table, factor, primary_ops):
    tin = [keyl(r) for r in table]
    fin = [complex(f) for f in factor]
    res = _orig_jwmap(table, factor, primary_ops)
    tout, fout = res
    m = {}
    for ri, fi, ro, fo in zip(tin, fin, tout, fout):
        m[(ri[1], ri[2])] = [int(ri[1]), int(ri[2]), int(ro[1]), int(ro[2]), cnum(complex(fo) / fi)]
    _jw["map"] = list(m.values())
    return res


sm.table_and_factor_swapped_jw = jwmap_wrap

import renormalizer.mps.mpo as mpomod
sm.swap_site = swap_wrap
mpomod.swap_site = swap_wrap


def op_key(op):
    return [[str(d), s] for s, d in zip(op.split_symbol, op.dofs)]


def run_case(case, algos, do_swap):
    out = {"id": case["id"], "algos": {}}
    basis, terms, offset = L.build(case)
    model = Model(basis, [])
    try:
        ref = L.ref_dense(case)
    except Exception:
        out["error"] = "reference failed: " + traceback.format_exc()[-400:]
        return out
    # the table as Mpo.__init__ builds it
    try:
        cterms = model.check_operator_terms(terms)
        table, primary_ops, factor = sm._terms_to_table(model, cterms, -offset.as_au())
        out["table"] = [keyl(r) for r in table]
        out["factor"] = [cnum(f) for f in factor]
        out["primary"] = [op_key(op) for op in primary_ops]
        out["primary_qn"] = [[int(v) for v in np.asarray(op.qn).reshape(-1)] for op in primary_ops]
    except Exception as e:
        out["table_error"] = "%s: %s" % (type(e).__name__, str(e)[:200])
    for algo in case.get("algos", algos):
        rec = {}
        del LOG[:]
        try:
            mpo, _model_used = L.make_mpo(case, algo)
        except Exception as e:
            rec["error"] = "%s: %s" % (type(e).__name__, str(e)[:300])
            rec["trace"] = traceback.format_exc()[-600:]
            out["algos"][algo] = rec
            continue
        rec["steps"] = list(LOG)
        rec["out_ops_list"] = [exp_outops(b) for b in mpo.symbolic_out_ops_list]
        rec["bond_dims"] = [int(x) for x in mpo.bond_dims]
        rec["qn"] = [[[int(v) for v in np.asarray(q).reshape(-1)] for q in b] for b in mpo.qn]
        rec["qntot"] = [int(v) for v in np.asarray(mpo.qntot).reshape(-1)]
        rec["qnidx"] = int(mpo.qnidx)
        rec["dtype"] = str(mpo.dtype)
        # symbolic matrices of compose_symbolic_mo: entries (in, out, [(primary index, factor)])
        p2i = {}
        for i, op in enumerate(mpo.primary_ops):
            p2i[json.dumps(op_key(op))] = i
        mos = []
        for mo in mpo.symbolic_mpo:
            ent = []
            for (a, i), lst in np.ndenumerate(mo):
                if lst:
                    ent.append([int(a), int(i), [[p2i[json.dumps(op_key(o))], cnum(o.factor)] for o in lst]])
            mos.append({"shape": [int(mo.shape[0]), int(mo.shape[1])], "entries": ent})
        rec["mos"] = mos
        try:
            rec["dense_err"] = L.rel_err(mpo.todense(), ref)
        except Exception as e:
            rec["dense_err"] = None
            rec["dense_exc"] = "%s: %s" % (type(e).__name__, str(e)[:200])
        if case.get("jw_swaps"):
            # exchanges WITH the Jordan-Wigner rule (symbolic correspondence only; the physics is property C17)
            order = list(range(len(case["sites"])))
            sw = []
            for pos in case["jw_swaps"]:
                order[pos], order[pos + 1] = order[pos + 1], order[pos]
                nb = [L.make_basis(i, case["sites"][i]) for i in order]
                del SWAPLOG[:]
                item = {"pos": pos, "jw": True}
                try:
                    mpo.try_swap_site(Model(nb, []), True)
                except Exception as e:
                    item["error"] = "%s: %s" % (type(e).__name__, str(e)[:200])
                item["log"] = list(SWAPLOG)
                sw.append(item)
                if "error" in item:
                    break
            rec["jw_swaps"] = sw
        if do_swap and case.get("swaps"):
            order = list(range(len(case["sites"])))
            sw = []
            for pos in case["swaps"]:
                order[pos], order[pos + 1] = order[pos + 1], order[pos]
                nb = [L.make_basis(i, case["sites"][i]) for i in order]
                new_model = Model(nb, [])
                del SWAPLOG[:]
                item = {"pos": pos, "order": list(order)}
                try:
                    mpo.try_swap_site(new_model, False)
                    item["dense_err"] = L.rel_err(mpo.todense(), L.ref_dense(case, order))
                    item["bond_dims"] = [int(x) for x in mpo.bond_dims]
                except Exception as e:
                    item["error"] = "%s: %s" % (type(e).__name__, str(e)[:200])
                item["log"] = list(SWAPLOG)
                sw.append(item)
                if "error" in item:
                    break
            rec["swaps"] = sw
        out["algos"][algo] = rec
    return out


def main():
    payload = json.load(sys.stdin)
    np.random.seed(int(payload.get("seed", 0)) % (2 ** 32))
    res = []
    for case in payload["cases"]:
        try:
            res.append(run_case(case, payload["algos"], payload.get("swap", False)))
        except Exception:
            res.append({"id": case["id"], "error": traceback.format_exc()[-800:]})
    if payload.get("out"):          # large result: written to a file (the pipe of the parallel runner is not drained while running)
        with open(payload["out"], "w") as f:
            json.dump({"results": res}, f)
        print("RESULT " + json.dumps({"file": payload["out"]}))
    else:
        print("RESULT " + json.dumps({"results": res}))


main()
