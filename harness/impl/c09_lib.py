"""Shared helpers for the C09 / C10 implementation-side scripts (run with /venv/bin/python on /repo).

Independent dense references are built here with numpy/scipy only (kron-free: the dense Hamiltonian is
taken from an independent term-by-term kron construction, NOT from Mpo.todense, see dense_h)."""
import json
import sys
import warnings

warnings.filterwarnings("ignore")
import renormalizer  # noqa: F401  (must be imported before numpy for RENO_NUM_THREADS)
import numpy as np
import scipy.linalg as sla
from fractions import Fraction

from renormalizer.model import Model, Op
from renormalizer.model import basis as ba
from renormalizer.mps import Mps, Mpo, MpDm
from renormalizer.utils import EvolveMethod, EvolveConfig, CompressConfig, CompressCriteria, Quantity

np.seterr(all="ignore")


def read_payload():
    return json.loads(sys.stdin.read() or "{}")


def emit(res):
    print("RESULT " + json.dumps(res, default=lambda o: o.item() if hasattr(o, "item") else str(o)))


# ----------------------------------------------------------------------------- models
def spin_terms(n, rs):
    """Heisenberg-like chain with random couplings and fields; list of (factor, [(symbol, site)...])."""
    terms = []
    for i in range(n - 1):
        jx, jy, jz = rs.uniform(0.3, 1.0, 3)
        terms.append((jx, [("X", i), ("X", i + 1)]))
        terms.append((-jy, [("iY", i), ("iY", i + 1)]))      # Y Y = -(iY)(iY)
        terms.append((jz, [("Z", i), ("Z", i + 1)]))
    for i in range(n):
        terms.append((rs.uniform(-0.5, 0.5), [("Z", i)]))
        terms.append((rs.uniform(-0.5, 0.5), [("X", i)]))
    return terms


SPIN_MAT = {"X": np.array([[0., 1.], [1., 0.]]), "iY": np.array([[0., 1.], [-1., 0.]]),
            "Z": np.array([[1., 0.], [0., -1.]]), "I": np.eye(2)}


def spin_model(n, rs, scale=1.0):
    terms = [(f * scale, ops) for f, ops in spin_terms(n, rs)]
    basis = [ba.BasisHalfSpin(i) for i in range(n)]
    ham = []
    for f, ops in terms:
        ham.append(Op(" ".join(s for s, _ in ops), [d for _, d in ops], f))
    model = Model(basis, ham)
    dims = [2] * n
    h = np.zeros((2 ** n, 2 ** n))
    for f, ops in terms:
        mats = [np.eye(2)] * n
        mats = list(mats)
        for s, d in ops:
            mats[d] = mats[d] @ SPIN_MAT[s]
        h += f * kron_all(mats)
    return model, h, dims


def kron_all(mats):
    out = np.ones((1, 1))
    for m in mats:
        out = np.kron(out, m)
    return out


def holstein_model(nmol, nbas, rs, scale=1.0, J=None, with_coupling=True):
    """Sites e0 v0 e1 v1 ...; one mode per molecule; quantum number = number of excitons."""
    basis = []
    ham = []
    w = [scale * rs.uniform(0.7, 1.3) for _ in range(nmol)]
    e0 = [scale * rs.uniform(0.0, 0.6) for _ in range(nmol)]
    g = [scale * rs.uniform(0.3, 0.8) if with_coupling else 0.0 for _ in range(nmol)]
    if J is None:
        J = scale * rs.uniform(0.4, 0.9)
    for i in range(nmol):
        basis.append(ba.BasisSimpleElectron("e%d" % i))
        basis.append(ba.BasisSHO("v%d" % i, w[i], nbas))
        ham.append(Op(r"a^\dagger a", "e%d" % i, e0[i]))
        ham.append(Op(r"b^\dagger b", "v%d" % i, w[i]))
        if with_coupling:
            ham.append(Op(r"a^\dagger a", "e%d" % i, g[i]) * Op(r"b^\dagger+b", "v%d" % i))
    for i in range(nmol - 1):
        ham.append(Op(r"a^\dagger a", ["e%d" % i, "e%d" % (i + 1)], J))
        ham.append(Op(r"a^\dagger a", ["e%d" % (i + 1), "e%d" % i], J))
    model = Model(basis, ham)
    # independent dense Hamiltonian
    dims = [2, nbas] * nmol
    n = len(dims)
    ad = np.array([[0., 0.], [1., 0.]])
    a = ad.T
    b = np.diag(np.sqrt(np.arange(1, nbas)), 1)
    bd = b.T

    def emb(mats):
        full = [np.eye(d) for d in dims]
        for k, m in mats.items():
            full[k] = m
        return kron_all(full)
    h = np.zeros((int(np.prod(dims)),) * 2)
    for i in range(nmol):
        h += e0[i] * emb({2 * i: ad @ a}) + w[i] * emb({2 * i + 1: bd @ b})
        if with_coupling:
            h += g[i] * emb({2 * i: ad @ a, 2 * i + 1: bd + b})
    for i in range(nmol - 1):
        h += J * (emb({2 * i: ad, 2 * i + 2: a}) + emb({2 * i + 2: ad, 2 * i: a}))
    info = {"w": w, "e0": e0, "g": g, "J": J, "nbas": nbas, "nmol": nmol}
    return model, h, dims, info


# ----------------------------------------------------------------------------- states
def dense_of(mp):
    """represented vector (Mps) or matrix (MpDm): tensors x prefactor"""
    return np.asarray(mp.todense()) * mp.coeff


def rand_state(model, rs, qntot, m, complex_=False):
    np.random.seed(int(rs.randint(0, 2 ** 31 - 1)))
    a = Mps.random(model, qntot, m, percent=1.0)
    if complex_:
        b = Mps.random(model, qntot, m, percent=1.0)
        a = a.to_complex().add(b.scale(1j * rs.uniform(0.3, 1.0)))
        a = a.scale(np.exp(1j * rs.uniform(0, 6.28)))
    a.canonicalise().canonicalise()
    a.normalize("mps_and_coeff")
    return a


def set_cfg(mp, method, m_max=64, criteria="fixed", **kw):
    cm = kw.pop("cfgmod", None)
    mp.evolve_config = EvolveConfig(getattr(EvolveMethod, method) if isinstance(method, str) else method, **kw)
    if cm:
        for k, v in cm.items():
            setattr(mp.evolve_config, k, v)
    crit = {"fixed": CompressCriteria.fixed, "both": CompressCriteria.both, "threshold": CompressCriteria.threshold}[criteria]
    mp.compress_config = CompressConfig(crit, threshold=1e-14, max_bonddim=m_max)
    return mp


def relerr(a, b):
    a = np.asarray(a).ravel()
    b = np.asarray(b).ravel()
    return float(np.linalg.norm(a - b) / max(np.linalg.norm(b), 1e-300))


def frac(s):
    return Fraction(s)


def poly_apply(coefs, hmat, psi, z):
    """sum_k d_k (z H)^k psi, densely, Horner-free (explicit powers)"""
    out = np.zeros_like(psi, dtype=complex)
    v = psi.astype(complex)
    for k, d in enumerate(coefs):
        if k > 0:
            v = z * (hmat @ v)
        out = out + float(d) * v
    return out


def generic_rk_dense(a, b, c, hfun, psi, tau, t0=0.0):
    """independent explicit RK step for y' = -i H(t) y with tableau (a, b_row, c) given as float arrays"""
    ks = []
    for i in range(len(c)):
        y = psi.astype(complex).copy()
        for j in range(i):
            if a[i][j] != 0:
                y = y + a[i][j] * tau * ks[j]
        ks.append(-1j * (hfun(c[i] * tau + t0) @ y))
    out = psi.astype(complex).copy()
    for i in range(len(c)):
        out = out + b[i] * tau * ks[i]
    return out


def order_verdict(dts, errs, p, hn, floor=1e-13):
    """One-step errors e(dt) of a scheme advertised with (global) order p, dt decreasing.  The property demands convergence to the exact
    result with AT LEAST the advertised order; only that is tested (faster convergence is never flagged):
      * slope: least-squares slope of log e against log dt over the pre-round-off points (e > floor, ||H|| dt <= 0.5, e < 0.3) must be
        >= p + 0.3, or the finest pair of those points must show >= p + 0.5  (one-step error of an order-p scheme is O(dt^(p+1)); a scheme
        that lost one order shows p; pre-asymptotic slopes between p + 0.3 and p + 1 are legitimate);
      * monotone: the error must not grow when dt is halved, until the round-off floor;
      * size: e <= max(1e-9, 10 (||H|| dt)^(p+1)).
    Returns a list of findings (empty = fine)."""
    import math
    bad = []
    pts = [(dt, e) for dt, e in zip(dts, errs) if hn * dt <= 0.5 and floor < e < 0.3]
    if len(pts) >= 2:
        xs = [math.log(dt) for dt, _ in pts]
        ys = [math.log(e) for _, e in pts]
        mx, my = sum(xs) / len(xs), sum(ys) / len(ys)
        slope = sum((x - mx) * (y - my) for x, y in zip(xs, ys)) / sum((x - mx) ** 2 for x in xs)
        fine = (ys[-2] - ys[-1]) / (xs[-2] - xs[-1])
        if slope < p + 0.3 and fine < p + 0.5:
            bad.append(("slope", round(slope, 3), "finest pair", round(fine, 3), "needed", p + 0.3))
    for i in range(len(errs) - 1):
        if hn * dts[i] <= 0.5 and errs[i] > 100 * floor and errs[i + 1] > 1.05 * errs[i]:
            bad.append(("not decreasing", dts[i], errs[i], errs[i + 1]))
    for dt, e in zip(dts, errs):
        if hn * dt <= 0.5 and not e <= max(1e-9, 10 * (hn * dt) ** (p + 1)):
            bad.append(("size", dt, e))
    return bad
