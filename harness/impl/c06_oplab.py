"""C06 operator labels: every operator a calculation sees must carry bond labels that describe its blocks -- Hamiltonians
and charged operators from Mpo(model, terms) with every construction algorithm, and the same after one or several
in-place site exchanges (Mpo.try_swap_site, both swap algorithms, Jordan-Wigner swap on/off on qc_model Hamiltonians).
For every operator
  (invariant, dense NumPy)  c06_check.op_labels_describe_blocks: non-zero blocks of the dense left parts carry the stored labels;
  (export)                  support pattern with the physical pair (up, down) merged into one index of charge
                            sigma(up) - sigma(down), decided by the Coq checker qn_validbV;
  (product)                 r = mpo @ psi for a random sector state psi of the (re-ordered) model: labels of r to the
                            checker; ensure_left_canonical + lossless compress of r must equal dense(mpo) @ dense(psi).
stdin {"seed", "ncases", "out"}"""
import json
import random
import sys
import traceback

import numpy as np

import c03_gen as G
import c06_check
from renormalizer import Model, Mps, Mpo, Op, BasisSimpleElectron, BasisHalfSpin
from renormalizer.utils import CompressConfig, CompressCriteria

PRELUDE = r'''
import random, sys, json, numpy as np
sys.path.insert(0, "/verif/harness/impl")
import c03_gen as G, c06_check, c06_oplab as N
from renormalizer import Model, Mps, Mpo, Op
from renormalizer.utils import CompressConfig, CompressCriteria
'''


def make_model(desc):
    """desc = {"kind": "hop1" | "hop2" | "qc", "n", "terms": [[i, j, t], ...]}  ->  (basis list, terms, nel sector)"""
    n = desc["n"]
    if desc["kind"] == "qc":
        from renormalizer.model import h_qc
        r = np.random.RandomState(desc["seed"])
        h1 = r.rand(n, n) - 0.5
        h1 = h1 + h1.T
        # spin conserving: spin orbitals of different parity (alpha / beta) are not coupled by the one-electron part
        h1 = h1 * np.array([[1.0 if (p_ - q_) % 2 == 0 else 0.0 for q_ in range(n)] for p_ in range(n)])
        h2 = np.zeros((n, n, n, n))
        for _ in range(3):
            p, q = r.randint(n, size=2)
            h2[p, q, q, p] = h2[q, p, p, q] = r.rand() - 0.5
        basis, terms = h_qc.qc_model(h1, h2)
        return basis, terms
    if desc["kind"] == "hop1":
        basis = [BasisSimpleElectron(i) for i in range(n)]
    else:
        basis = [BasisSimpleElectron(i, sigmaqn=[[0, 0], [1, 0]] if i % 2 == 0 else [[0, 0], [0, 1]]) for i in range(n)]
    terms = []
    for i, j, t in desc["terms"]:
        if desc["kind"] == "hop1":
            terms.append(Op(r"a^\dagger a", [i, j], t))
        else:
            qi = [1, 0] if i % 2 == 0 else [0, 1]
            terms.append(Op(r"a^\dagger a", [i, j], t, qn=[qi, [-x for x in qi]]))
    return basis, terms


def build(desc):
    """the operator after the requested swaps; returns (mpo, log of swaps done)"""
    basis, terms = make_model(desc)
    mpo = Mpo(Model(basis, terms), algo=desc["algo"])
    done = []
    cur = list(basis)
    for (k, algo, jw) in desc["swaps"]:
        nb = list(cur)
        nb[k], nb[k + 1] = nb[k + 1], nb[k]
        try:
            mpo.try_swap_site(Model(nb, terms), jw, algo=algo)
        except AssertionError:
            done.append([k, algo, jw, "AssertionError"])
            return None, done
        cur = nb
        done.append([k, algo, jw, "ok"])
    return mpo, done


def merged_pattern(mpo):
    """support pattern [l][p][r] with p = pu * d + pd, and the merged charges per site"""
    pats, sigs = [], []
    for i, mt in enumerate(mpo):
        a = np.abs(np.asarray(mt.array))
        thr = 1e-12 * max(a.max(), 1e-300)
        pats.append((a.reshape(a.shape[0], a.shape[1] * a.shape[2], a.shape[3]) > thr).tolist())
        sg = np.asarray(mpo.model.basis[i].sigmaqn).reshape(a.shape[1], -1)
        sigs.append([(sg[pu] - sg[pd]).tolist() for pu in range(a.shape[1]) for pd in range(a.shape[2])])
    return pats, sigs


def export_op(mpo, what):
    pats, sigs = merged_pattern(mpo)
    return {"what": what, "sigma": sigs, "ncomp": len(sigs[0][0]),
            "qn": [np.asarray(q).astype(int).reshape(len(q), -1).tolist() for q in mpo.qn], "qnidx": int(mpo.qnidx),
            "qntot": [int(x) for x in np.asarray(mpo.qntot).reshape(-1)], "to_right": bool(mpo.to_right),
            "pats": pats, "bond_dims": [int(x) for x in mpo.bond_dims]}


def export_state(mp, what):
    pats = []
    for mt in mp:
        a = np.abs(np.asarray(mt.array))
        pats.append((a > 1e-12 * max(a.max(), 1e-300)).tolist())
    return {"what": what, "sigma": [np.asarray(b.sigmaqn).reshape(b.nbas, -1).tolist() for b in mp.model.basis], "ncomp": int(mp.model.qn_size),
            "qn": [np.asarray(q).astype(int).reshape(len(q), -1).tolist() for q in mp.qn], "qnidx": int(mp.qnidx),
            "qntot": [int(x) for x in np.asarray(mp.qntot).reshape(-1)], "to_right": bool(mp.to_right),
            "pats": pats, "bond_dims": [int(x) for x in mp.bond_dims]}


def product_check(mpo, sseed, sector, m):
    """returns (relative error of ensure_left_canonical + lossless compress of mpo @ psi vs dense, the product state)"""
    np.random.seed(sseed)
    psi = Mps.random(mpo.model, np.array(sector), m, percent=1.0)
    ref = G.dense_op(mpo) @ G.dense_state(psi)
    r = mpo.apply(psi)
    r2 = r.copy()
    r2.compress_config = CompressConfig(CompressCriteria.fixed, max_bonddim=4096)
    r2.ensure_left_canonical()
    r2.compress()
    err = float(np.linalg.norm(G.dense_state(r2) * r2.coeff - ref) / max(1e-12, np.linalg.norm(ref)))
    return err, r, float(np.linalg.norm(ref))


def run_case(cs, exports, fails, stats):
    rng = random.Random(cs)
    kind = rng.choice(["hop1", "hop1", "hop2", "hop2", "qc"])
    n = 4 if kind == "qc" else rng.choice([3, 4, 4, 5])
    terms = []
    if kind != "qc":
        for i in range(n):
            terms.append([i, i, round(rng.uniform(0.1, 1), 3)])
            for j in range(i + 1, n):
                if (kind == "hop1" or (i - j) % 2 == 0) and rng.random() < 0.8:
                    t = round(rng.uniform(-0.5, 0.5), 3)
                    terms.append([i, j, t]); terms.append([j, i, t])
    nsw = rng.choice([0, 1, 1, 2, 3])
    swaps = [[rng.randrange(n - 1), rng.choice(["Hopcroft-Karp", "Hopcroft-Karp", "qr"]), bool(kind == "qc" and rng.random() < 0.5)] for _ in range(nsw)]
    desc = {"kind": kind, "n": n, "terms": terms, "algo": rng.choice(["qr", "Hopcroft-Karp", "Hungarian"]), "swaps": swaps, "seed": rng.randrange(10 ** 6)}
    lines = ["desc = json.loads(%r)" % json.dumps(desc), "mpo, done = N.build(desc)"]
    try:
        mpo, done = build(desc)
    except Exception as ex:
        stats.setdefault("build_exceptions", {})
        kk = repr(ex)[:60]
        stats["build_exceptions"][kk] = stats["build_exceptions"].get(kk, 0) + 1
        return
    if mpo is None:
        stats["swap_assertion_qr"] = stats.get("swap_assertion_qr", 0) + 1
        return
    stats["cases"] = stats.get("cases", 0) + 1
    stats.setdefault("by_kind", {})
    tag = "%s swaps=%d" % (kind, len(swaps))
    stats["by_kind"][tag] = stats["by_kind"].get(tag, 0) + 1
    what = "operator[%s,%d swaps]" % (kind, len(swaps))
    # invariant with dense NumPy
    stats["checks"] = stats.get("checks", 0) + 1
    if c06_check.op_labels_describe_blocks(mpo, verbose=False):
        fails.append({"key": "operator-labels:%s" % ("after-swap" if swaps else "constructed"),
                      "detail": {"desc": desc, "swaps_done": done, "qn": [np.asarray(q).tolist() for q in mpo.qn], "qntot": np.asarray(mpo.qntot).tolist()},
                      "repro": PRELUDE + "\n".join(lines) + "\nsys.exit(c06_check.op_labels_describe_blocks(mpo))\n", "case_seed": cs})
        return
    e = export_op(mpo, what)
    e.update({"case": cs, "name": "mpo", "repro_lines": PRELUDE + "\n".join(lines) + "\n", "is_op": True})
    exports.append(e)
    # product with a sector state of the (re-ordered) model
    ncomp = mpo.model.qn_size
    sites = [{"nbas": b.nbas, "sigmaqn": np.asarray(b.sigmaqn).reshape(b.nbas, -1).tolist()} for b in mpo.model.basis]
    for _ in range(2):
        cfg = [rng.randrange(s["nbas"]) for s in sites]
        sector = [int(x) for x in np.sum([np.array(s["sigmaqn"][c]) for s, c in zip(sites, cfg)], axis=0)]
        sseed = rng.randrange(2 ** 31)
        m = rng.randint(4, 8)
        try:
            err, r, nref = product_check(mpo, sseed, sector, m)
        except (FloatingPointError, ValueError) as ex:
            if "quantum number" in repr(ex).lower():
                fails.append({"key": "operator-product:exception", "detail": {"desc": desc, "exception": repr(ex)},
                              "repro": PRELUDE + "\n".join(lines) + "\nerr, r, nref = N.product_check(mpo, %d, %r, %d)\n" % (sseed, sector, m), "case_seed": cs})
                return
            stats["random_rejected"] = stats.get("random_rejected", 0) + 1
            continue
        if nref < 1e-9:
            continue
        stats["checks"] = stats.get("checks", 0) + 1
        if not err <= 1e-9:
            fails.append({"key": "operator-product:dense-after-compress",
                          "detail": {"desc": desc, "swaps_done": done, "sector": sector, "rel_err": err, "norm_H_psi": nref},
                          "repro": PRELUDE + "\n".join(lines) + "\nerr, r, nref = N.product_check(mpo, %d, %r, %d)\nprint('relative error of canonicalise+compress(mpo @ psi) vs dense H @ psi:', err)\nsys.exit(1 if not err <= 1e-9 else 0)\n" % (sseed, sector, m),
                          "case_seed": cs})
            return
        ex2 = export_state(r, "product[%s,%d swaps]" % (kind, len(swaps)))
        ex2.update({"case": cs, "name": "r", "is_op": False,
                    "repro_lines": PRELUDE + "\n".join(lines) + "\nerr, r, nref = N.product_check(mpo, %d, %r, %d)\n" % (sseed, sector, m)})
        exports.append(ex2)


def main():
    payload = json.loads(sys.stdin.read() or "{}")
    seed = int(payload.get("seed", 0))
    ncases = int(payload.get("ncases", 20))
    exports, fails, stats = [], [], {}
    for k in range(ncases):
        try:
            run_case(seed * 100081 + k, exports, fails, stats)
        except Exception as ex:
            fails.append({"key": "oplab-generator:exception", "detail": {"exception": repr(ex), "tb": traceback.format_exc()[-900:]}, "repro": None, "case_seed": seed * 100081 + k})
    seen, out = set(), []
    for f in fails:
        if f["key"] not in seen:
            seen.add(f["key"]); out.append(f)
    res = {"exports": exports, "failures": out, "stats": stats}
    if payload.get("out"):
        with open(payload["out"], "w") as f:
            json.dump(res, f, default=str)
        print("RESULT " + json.dumps({"file": payload["out"]}))
    else:
        print("RESULT " + json.dumps(res, default=str))


if __name__ == "__main__":
    main()
