"""C09/C10 tie of the propagate-and-compress schemes: one step of the implementation (bond limit large enough
to be exact) versus  sum_k d_k (z H)^k psi  computed densely with the coefficients d_k exported from the Coq
model (payload), z = -i dt (real time) or z = -tau (imaginary time, evolve_dt = -i tau); and, for a
time-dependent Hamiltonian callable H(t) = H0 + t H1, versus an independent dense generic explicit RK step
using the generated tableau (payload).

payload: {seed, imag, ti: {name: [[str]]}, taylor: {N: [str]}, tabs: [{name, a, b, c}], n_models}
"""
import numpy as np
from c09_lib import *

P = read_payload()
rs = np.random.RandomState(P["seed"] % (2 ** 31))
imag = bool(P.get("imag"))
ti = {k: [[float(frac(x)) for x in row] for row in v] for k, v in P["ti"].items()}
taylor = {int(k): [float(frac(x)) for x in v] for k, v in P["taylor"].items()}
tabs = {t["name"]: {"a": [[float(frac(x)) for x in r] for r in t["a"]], "b": [[float(frac(x)) for x in r] for r in t["b"]],
                    "c": [float(frac(x)) for x in t["c"]]} for t in P["tabs"]}
TOL = 1e-10
cases = []
bad = []


def models():
    out = []
    for k in range(P.get("n_models", 3)):
        kind = ["spin", "holstein", "spin"][k % 3]
        if kind == "spin":
            n = int(rs.choice([3, 4, 5]))
            model, h, dims = spin_model(n, rs)
            out.append(("spin%d" % n, model, h, 0, None))
        else:
            nbas = int(rs.choice([2, 3]))
            model, h, dims, info = holstein_model(2, nbas, rs)
            out.append(("holstein2x%d" % nbas, model, h, 1, info))
    return out


def states(model, qn):
    m = 16
    a = rand_state(model, rs, qn, m, complex_=False)
    b = rand_state(model, rs, qn, m, complex_=True)
    c = MpDm.from_mps(rand_state(model, rs, qn, m, complex_=False))
    return [("real", a), ("complex", b), ("mpdm", c)]


def one(label, mp, mpo, h, scheme, cfg, dt, expect):
    a = mp.copy()
    set_cfg(a, scheme, m_max=256, **cfg)
    edt = -1j * dt if imag else dt
    try:
        out = a.evolve(mpo, edt, normalize=False)
        got = dense_of(out)
        err = relerr(got, expect)
        exc = None
    except Exception as e:      # an exception on an accepted input is a failure of the property
        err, exc = float("inf"), repr(e)[:300]
    rec = {"case": label, "scheme": scheme, "cfg": {k: str(v) for k, v in cfg.items()}, "dt": dt, "relerr": err, "exc": exc}
    cases.append(rec)
    if not (err <= TOL):
        bad.append(rec)


z_of = (lambda dt: -dt) if imag else (lambda dt: -1j * dt)
for mname, model, h, qn, info in models():
    mpo = Mpo(model)
    # the independent dense Hamiltonian must agree with the operator the implementation evolves with
    # (C01's subject; here only a guard so that a disagreement is not misread as an integrator error)
    hd = np.asarray(mpo.todense())
    if relerr(hd, h) > 1e-12:
        bad.append({"case": mname, "what": "dense Hamiltonian of the harness differs from Mpo.todense", "relerr": relerr(hd, h)})
        continue
    for sname, st in states(model, qn):
        psi = dense_of(st)
        dt = float(rs.choice([0.05, 0.1, 0.2, 0.3]))
        z = z_of(dt)
        # general RK, each tableau
        for name, rows in ti.items():
            # check_valid_dt is called even by the non-adaptive branch: guess_dt must be imaginary in imaginary time
            cfg = {"rk_solver": name, "guess_dt": (-1j * dt if imag else dt)}
            if len(rows) == 2:
                # embedded pairs only run in the adaptive branch: one accepted sub-step of the full size
                cfg.update(adaptive=True, guess_dt=(-1j * dt if imag else dt), adaptive_rtol=1e300)
            one("%s/%s/tdrk/%s" % (mname, sname, name), st, mpo, h, "prop_and_compress_tdrk", cfg, dt, poly_apply(rows[0], h, psi, z))
        # hard-coded RK4
        one("%s/%s/tdrk4" % (mname, sname), st, mpo, h, "prop_and_compress_tdrk4", {}, dt, poly_apply(ti["C_RK4"][0], h, psi, z))
        # Taylor orders
        for N, cf in taylor.items():
            one("%s/%s/taylor/%d" % (mname, sname, N), st, mpo, h, "prop_and_compress", {"taylor_order": N}, dt, poly_apply(cf, h, psi, z))
    # time-dependent callable H(t) = H0 + t H1 (real time only; schemes taking callables: tdrk4, tdrk)
    if not imag:
        if mname.startswith("spin"):
            n = len(model.basis)
            h1terms = [(float(rs.uniform(-0.8, 0.8)), [("X", i)]) for i in range(n)] + [(float(rs.uniform(-0.5, 0.5)), [("Z", 0), ("Z", n - 1)])]
            h1 = np.zeros_like(h)
            for f, ops in h1terms:
                mats = [np.eye(2)] * n
                mats = list(mats)
                for s_, d_ in ops:
                    mats[d_] = mats[d_] @ SPIN_MAT[s_]
                h1 += f * kron_all(mats)
            ham1 = [Op(" ".join(s_ for s_, _ in ops), [d_ for _, d_ in ops], f) for f, ops in h1terms]
            ham0 = list(model.ham_terms)

            def mpo_t(t, *args, **kwargs):
                return Mpo(Model(model.basis, ham0 + [o * float(t) for o in ham1]))
            hfun = lambda t: h + t * h1
            for sname, st in states(model, qn)[:2]:
                psi = dense_of(st)
                dt = float(rs.choice([0.1, 0.2]))
                for name, tb in tabs.items():
                    cfg = {"rk_solver": name}
                    if len(tb["b"]) == 2:
                        cfg.update(adaptive=True, guess_dt=dt, adaptive_rtol=1e300)
                    exp_ = generic_rk_dense(tb["a"], tb["b"][0], tb["c"], hfun, psi, dt)
                    one("%s/%s/td/tdrk/%s" % (mname, sname, name), st, mpo_t, h, "prop_and_compress_tdrk", cfg, dt, exp_)
                tb = tabs["C_RK4"]
                one("%s/%s/td/tdrk4" % (mname, sname), st, mpo_t, h, "prop_and_compress_tdrk4", {}, dt,
                    generic_rk_dense(tb["a"], tb["b"][0], tb["c"], hfun, psi, dt))

emit({"n": len(cases), "bad": bad[:20], "nbad": len(bad), "max_relerr": max([c["relerr"] for c in cases if np.isfinite(c["relerr"])] or [0]),
      "samples": cases[:2] + cases[-1:]})
