"""C04 input generator (imported by c04_run.py / c04_var.py and by the repro snippets).

build(spec) -> (model, obj) where obj is an Mps / Mpo / MpDm produced by C03-style arithmetic.
spec (JSON): {"seed": int, "nsite": 1..6, "qn": 1|2, "kind": "mps"|"mpo"|"mpdm", "recipe": str,
              "complex": bool, "m": int}
Every random choice derives from spec["seed"] (python Random + numpy seeded from it).
"""
import random

import renormalizer  # noqa: F401  (must precede numpy)

import numpy as np

from renormalizer.model import Model, Op
from renormalizer.model.basis import BasisHalfSpin, BasisSHO, BasisSimpleElectron
from renormalizer.mps import MpDm, Mpo, Mps


class GenFail(Exception):
    pass


def make_basis(rng, nsite, qn_size):
    basis = []
    for i in range(nsite):
        if qn_size == 1:
            c = rng.choice(["e", "e", "sho2", "sho3", "spin"])
            if c == "e":
                basis.append(BasisSimpleElectron("e%d" % i))
            elif c == "sho2":
                basis.append(BasisSHO("v%d" % i, 1.0 + 0.1 * i, 2))
            elif c == "sho3":
                basis.append(BasisSHO("v%d" % i, 1.0 + 0.1 * i, 3))
            else:
                basis.append(BasisHalfSpin("s%d" % i, sigmaqn=[0, 0]))
        else:
            c = rng.choice(["a", "b", "n"])
            sq = {"a": [[0, 0], [1, 0]], "b": [[0, 0], [0, 1]], "n": [[0, 0], [0, 0]]}[c]
            basis.append(BasisHalfSpin("s%d" % i, sigmaqn=sq))
    return basis


SYMS = {"BasisSimpleElectron": [r"a^\dagger a", r"a^\dagger", "a"],
        "BasisSHO": ["x", r"b^\dagger b", "p^2"],
        "BasisHalfSpin": ["sigma_z", "sigma_+", "sigma_-", "sigma_x"]}


def local_ops(b):
    """[(symbol, dq tuple)] of the single-site symbols whose matrix changes the label by one fixed dq"""
    out = []
    sq = np.asarray(b.sigmaqn)
    for sym in SYMS[type(b).__name__]:
        try:
            m = np.asarray(b.op_mat(sym))
        except Exception:
            continue
        dqs = {tuple((sq[i] - sq[j]).tolist()) for i in range(m.shape[0]) for j in range(m.shape[1]) if abs(m[i, j]) > 1e-14}
        if len(dqs) == 1:
            out.append((sym, dqs.pop()))
    return out


def make_terms(rng, basis, qn_size, nterm, charged, cplx):
    """terms all changing the total label by the same amount `tot` (zero unless charged)"""
    ops = [local_ops(b) for b in basis]
    zero = tuple([0] * qn_size)
    tot = zero
    if charged:
        cand = [(i, s, dq) for i, l in enumerate(ops) for s, dq in l if dq != zero]
        if cand:
            tot = rng.choice(cand)[2]
    terms = []
    tries = 0
    while len(terms) < nterm and tries < 200:
        tries += 1
        k = rng.randint(1, min(3, len(basis)))
        sites = sorted(rng.sample(range(len(basis)), k))
        chosen = []
        acc = np.zeros(qn_size, dtype=int)
        ok = True
        for s in sites:
            if not ops[s]:
                ok = False
                break
            sym, dq = rng.choice(ops[s])
            chosen.append((s, sym, dq))
            acc += np.array(dq)
        if not ok or tuple(acc.tolist()) != tot:
            continue
        fac = round(rng.uniform(-1, 1), 3) or 0.5
        if cplx and rng.random() < 0.5:
            fac = complex(fac, round(rng.uniform(-1, 1), 3))
        op = None
        for s, sym, dq in chosen:
            if " " in sym:               # composite symbol: the default labels (a^\dagger: +1, a: -1) apply
                o = Op(sym, basis[s].dof, 1.0)
            else:
                q = list(dq) if qn_size > 1 else dq[0]
                o = Op(sym, basis[s].dof, 1.0, qn=[q] if qn_size > 1 else q)
            op = o if op is None else op * o
        terms.append(op * fac)
    if not terms:
        raise GenFail("no operator terms with a common label change")
    return terms


def rand_mps(rng, model, qn_size, m, cplx):
    basis = model.basis
    if qn_size == 1:
        nmax = sum(1 for b in basis if np.any(np.asarray(b.sigmaqn) != 0))
        qntot = rng.randint(0, min(2, nmax))
    else:
        sq = [np.asarray(b.sigmaqn) for b in basis]
        na = sum(1 for s in sq if s[1][0] == 1)
        nb = sum(1 for s in sq if s[1][1] == 1)
        qntot = np.array([rng.randint(0, min(2, na)), rng.randint(0, min(2, nb))])
    try:
        with np.errstate(all="raise"):
            mps = Mps.random(model, qntot, m, percent=1.0)
    except (FloatingPointError, ZeroDivisionError, ValueError, AssertionError, IndexError) as e:
        raise GenFail("Mps.random: %r" % (e,))
    for mt in mps:
        if not np.asarray(mt.array).any() or not np.all(np.isfinite(np.asarray(mt.array))):
            raise GenFail("Mps.random produced a zero / non-finite site")
    if cplx:
        mps = mps.to_complex()
        ph = np.exp(1j * rng.uniform(0, 6.28))
        i = rng.randrange(len(mps))
        mps[i] = np.asarray(mps[i].array) * ph
    return mps


def build(spec):
    rng = random.Random(spec["seed"])
    np.random.seed(spec["seed"] % (2 ** 32 - 1))
    n, qn_size, kind, recipe = spec["nsite"], spec["qn"], spec["kind"], spec["recipe"]
    cplx, m = bool(spec.get("complex")), int(spec.get("m", 4))
    basis = make_basis(rng, n, qn_size)
    ham = make_terms(rng, basis, qn_size, max(1, min(4, n + 1)), False, False)
    model = Model(basis, ham)

    def mpo(charged=False):
        return Mpo(model, make_terms(rng, basis, qn_size, rng.randint(1, 4), charged, cplx))

    def mps(mm=None):
        return rand_mps(rng, model, qn_size, mm or m, cplx)

    if n == 1 and (recipe in ("add", "dup", "apply_add", "recentred") or recipe.startswith("canon_") or recipe.startswith("near_")):
        recipe = "random" if kind != "mpo" else "plain"      # MatrixProduct.add does not support one-site chains (C03's business)
    dm_cplx = False
    if kind == "mpdm" and cplx:
        # MpDm.from_mps silently drops the imaginary part of a complex state (not C04's business):
        # build the density operator from real data and make it complex afterwards
        dm_cplx, cplx = True, False
    if kind in ("mps", "mpdm"):
        if recipe == "random":
            x = mps()
        elif recipe == "product":          # every bond has dimension 1
            x = mps(1)
        elif recipe == "add":              # over-complete bonds
            a = mps()
            b = a.copy()
            for i in range(len(b)):
                b[i] = np.asarray(b[i].array) * rng.uniform(0.5, 1.5)
            c = rand_like(rng, a, model, qn_size, m, cplx)
            x = a.add(b).add(c)
        elif recipe == "dup":              # exactly rank-deficient bonds
            a = mps()
            x = a.add(a)
        elif recipe == "apply":            # operator times state (bond products), neutral operator
            x = mpo(False).apply(mps())
        elif recipe == "apply_add":
            a = mps()
            x = mpo(False).apply(a).add(a)
        elif recipe == "scaled":
            x = mps().scale(-2.5 if not cplx else (0.3 - 1.1j))
        elif recipe == "recentred":        # labels re-centred to another site before use
            a = mps()
            a.move_qnidx(rng.randrange(n))
            b = rand_like(rng, a, model, qn_size, m, cplx)
            x = b.add(a)
        elif recipe.startswith("near_"):
            # near-canonical input: a canonical state one of whose non-centre sites gets a controlled off-diagonal
            # Gram defect eps (column b += eps * column a inside one label block): near_<l|r>_<9|7|6>
            right = recipe.split("_")[1] == "r"
            eps = {"9": 1e-9, "7": 1e-7, "6": 1e-6}[recipe.split("_")[2]]
            x = mps()
            if right:
                x.ensure_right_canonical()
            else:
                x.ensure_left_canonical()
            cands = []
            for j in (range(1, len(x)) if right else range(len(x) - 1)):
                lab = [tuple(np.atleast_1d(q).tolist()) for q in (x.qn[j] if right else x.qn[j + 1])]
                for a_ in range(len(lab)):
                    for b_ in range(len(lab)):
                        if a_ != b_ and lab[a_] == lab[b_]:
                            cands.append((j, a_, b_))
            if not cands:
                raise GenFail("no bond with two equal labels to mix")
            j, a_, b_ = rng.choice(cands)
            t = np.array(np.asarray(x[j].array))
            if right:
                t[b_] = t[b_] + eps * t[a_]
            else:
                t[..., b_] = t[..., b_] + eps * t[..., a_]
            x[j] = t
        elif recipe.startswith("canon_"):
            # sum / difference of two canonical states with EQUAL flags: every inner site of the result is a
            # block-diagonal isometry, only the boundary site far from the centre (the stack of the two boundary
            # sites) is not; the result keeps the flags of its operands
            right = recipe.endswith("_r")
            a = mps()
            if right:
                a.ensure_right_canonical()
            else:
                a.ensure_left_canonical()
            b = a.copy()
            k = 0 if right else len(b) - 1            # perturb the centre site only (keeps the sector)
            t = np.asarray(b[k].array).copy()
            t = t * np.linspace(0.3, 1.7, t.shape[1]).reshape(1, -1, 1)
            if not t.any():
                raise GenFail("zero site")
            b[k] = t
            if cplx:
                b = b.scale(0.6 + 0.8j)
            x = a.add(b) if "sum" in recipe else a.add(b.scale(-1.0))
            if (bool(x.to_right), int(x.qnidx)) != ((True, 0) if right else (False, len(x) - 1)):
                raise GenFail("sum of canonical states lost the flags")
        else:
            raise GenFail("recipe " + recipe)
        if hasattr(x, "coeff") and rng.random() < 0.5 and not recipe.startswith("near_"):
            x.coeff = x.coeff * (1.7 if not cplx else (0.6 + 0.8j))
        if kind == "mpdm":
            x = MpDm.from_mps(x)
            if dm_cplx:
                cplx = True
            if recipe in ("apply", "apply_add") or rng.random() < 0.4:
                x = mpo(False).apply(x)
            if dm_cplx:
                x = x.to_complex()
                i = rng.randrange(len(x))
                x[i] = np.asarray(x[i].array) * np.exp(1j * rng.uniform(0, 6.28))
    elif kind == "mpo":
        if recipe == "plain":
            x = mpo(rng.random() < 0.4)
        elif recipe == "add":
            a = mpo(False)
            x = a.add(mpo(False)).add(a)
        elif recipe == "product":
            x = mpo(False).apply(mpo(rng.random() < 0.3))
        elif recipe == "identity":
            x = Mpo.identity(model)
        elif recipe == "conj_trans":
            x = mpo(True).conj_trans()
        else:
            raise GenFail("recipe " + recipe)
    else:
        raise GenFail("kind " + kind)
    scale = 1.0
    for mt in x:
        a = np.asarray(mt.array)
        if not a.any() or not np.all(np.isfinite(a)):
            raise GenFail("generated object has a zero / non-finite site")
        scale *= np.linalg.norm(a)
    # the zero object is rejected by canonicalise's own `assert mt.any()`; near-cancelling sums make a
    # relative comparison ill-conditioned: both are excluded (and counted)
    if np.linalg.norm(dense(x)) < 1e-6 * scale * abs(getattr(x, "coeff", 1)):
        raise GenFail("represented object is (numerically) zero")
    return model, x


def rand_like(rng, a, model, qn_size, m, cplx):
    """another random state in the same sector as a"""
    np_state = np.random.get_state()
    try:
        with np.errstate(all="raise"):
            b = Mps.random(model, np.array(a.qntot), m, percent=1.0)
    except (FloatingPointError, ZeroDivisionError, ValueError, AssertionError, IndexError) as e:
        raise GenFail("Mps.random(like): %r" % (e,))
    if cplx:
        b = b.to_complex()
    for mt in b:
        if not np.asarray(mt.array).any():
            raise GenFail("zero site")
    return b


# ----------------------------------------------------------------------------- independent references
def dense(mp):
    """dense tensor (flattened, physical indices row-major, operators with fused (up,down) per site)
    computed from the site tensors only, times the prefactor if the object has one"""
    res = np.ones((1, 1), dtype=complex)
    for mt in mp:
        a = np.asarray(mt.array)
        res = np.tensordot(res, a, axes=1)
        res = res.reshape(-1, a.shape[-1])
    v = res[:, 0]
    c = getattr(mp, "coeff", 1)
    return v * c


def tensors(mp):
    return [np.array(np.asarray(mt.array)) for mt in mp]


def exact_bounds(mp):
    """min(prod of physical dims to the left, to the right) per bond, physical dims read off the tensors"""
    pd = [int(np.prod(np.asarray(mt.array).shape[1:-1])) for mt in mp]
    n = len(pd)
    out = []
    for i in range(n + 1):
        l = 1
        for d in pd[:i]:
            l *= d
        r = 1
        for d in pd[i:]:
            r *= d
        out.append(min(l, r))
    return out
