"""C15 correspondence runner: evaluates expression programs, ==/hash pairs and split_elementary cases in
the implementation and prints the exported results.  stdin: JSON payload; stdout: RESULT <json>."""
import json
import sys

import c15_lib as L
from renormalizer.model import Op


def main():
    pl = json.load(sys.stdin)
    tb = L.Tables(pl["syms"], pl["dofs"])
    out = {"programs": [], "pairs": [], "splits": []}
    for prog in pl.get("programs", []):
        res, _ = L.run_program(prog, tb)
        out["programs"].append(res)
    for pa, pb in pl.get("pairs", []):
        ra, va = L.run_program(pa, tb)
        rb, vb = L.run_program(pb, tb)
        if not (isinstance(va, Op) and isinstance(vb, Op)):
            out["pairs"].append({"tag": "err", "a": ra, "b": rb})
            continue
        try:
            eq, eq2 = bool(va == vb), bool(vb == va)
            ne = bool(va != vb)
            ha, hb = hash(va), hash(vb)
            out["pairs"].append({"tag": "ok", "eq": eq, "eq_sym": eq2, "ne": ne, "hash_eq": ha == hb,
                                 "set_len": len({va, vb}), "dict_hit": vb in {va: 1},
                                 "refl": bool(va == va) and bool(vb == vb),
                                 "tuple_eq": va.to_tuple() == vb.to_tuple(), "a": ra, "b": rb})
        except Exception as e:  # noqa: BLE001
            out["pairs"].append({"tag": "raise", "exc": type(e).__name__, "msg": str(e)[:120]})
    for sp in pl.get("splits", []):
        res, v = L.run_program(sp["prog"], tb)
        if not isinstance(v, Op):
            out["splits"].append({"tag": "err", "res": res})
            continue
        try:
            d2s = {tb.dofs[i]: s for i, s in enumerate(sp["site"]) if s is not None}
            ops, fac = v.split_elementary(d2s)
            c = complex(fac)
            out["splits"].append({"tag": "ok", "ops": [L.export_op(o, tb) for o in ops],
                                  "re": L.frac(c.real), "im": L.frac(c.imag), "op": res})
        except Exception as e:  # noqa: BLE001
            out["splits"].append({"tag": "raise", "exc": type(e).__name__, "msg": str(e)[:120], "op": res})
    out["cts"] = []
    for case in pl.get("cts", []):
        res, verdict = L.run_ct(case, tb)
        res["verdict"] = verdict
        out["cts"].append(res)
    print("RESULT " + json.dumps(out))


main()
