"""C09 controller traces.  The three adaptive controllers of renormalizer/mps/mps.py write, at DEBUG level,
the guess, the tried step, the enlargement factor p and the decision of every iteration.  This script attaches
a logging handler to the module's logger (no code of /repo is modified or wrapped), runs adaptive evolutions
and returns the parsed traces; harness/c09.py replays the logged p values through the Coq state machines.

payload: {seed, n}   result: {traces: [...]}
Numbers are returned as python float reprs (exact round trip); in imaginary time the imaginary parts are returned.
"""
import logging
import re
import time
import numpy as np
from c09_lib import *

P = read_payload()
rs = np.random.RandomState(P["seed"] % (2 ** 31))
T0 = time.time()


class Cap(logging.Handler):
    def __init__(self):
        super().__init__(level=logging.DEBUG)
        self.msgs = []

    def emit(self, record):
        try:
            m = record.msg if isinstance(record.msg, str) else str(record.msg)
        except Exception:
            return
        # only the controller messages are kept (others, e.g. "k_0: <Mps ...>", are dropped unformatted)
        if m.startswith(("guess_dt:", "distance:", "RK45 error distance:", "RKsolver:", "evolution not converged",
                         "evolution converged", "sub-step")):
            self.msgs.append(m)


lg = logging.getLogger("renormalizer.mps.mps")
cap = Cap()
lg.addHandler(cap)
lg.setLevel(logging.DEBUG)
lg.propagate = False

NUM = r"([-+0-9.eEjinfa()]+)"


def num(s, imag):
    z = complex(s.strip())
    return z.imag if imag else z.real


def parse(msgs, imag):
    """-> list of iterations {guess, dt, p, outcome: 'reject'|'sub'|'final', new_guess}"""
    its = []
    cur = None
    for m in msgs:
        mm = re.match(r"guess_dt: (.*), try time step size: (.*)$", m)
        if mm:
            cur = {"guess": num(mm.group(1), imag), "dt": num(mm.group(2), imag), "p": None, "outcome": None, "new_guess": None}
            its.append(cur)
            continue
        mm = re.match(r"(?:distance|RK45 error distance|RKsolver:\S+ relative error): (.*), enlarge p parameter: (.*)$", m)
        if mm:
            cur["p"] = float(mm.group(2))
            continue
        mm = re.match(r"evolution not converged, new guess_dt: (.*)$", m)
        if mm:
            cur["outcome"] = "reject"
            cur["new_guess"] = num(mm.group(1), imag)
            continue
        mm = re.match(r"evolution converged, new guess_dt: (.*)$", m)
        if mm:
            cur["outcome"] = "final"          # corrected to 'sub' if a sub-step message follows
            cur["new_guess"] = num(mm.group(1), imag)
            continue
        mm = re.match(r"sub-step (.*) further, (?:evolved|remaining): ([^,]*)(?:, new guess_dt: (.*))?$", m)
        if mm:
            cur["outcome"] = "sub"
            if mm.group(3) is not None:
                cur["new_guess"] = num(mm.group(3), imag)
            continue
    return its


traces = []
problems = []
n = int(P.get("n", 8))
for k in range(n):
    kind = ["spin", "holstein"][k % 2]
    if kind == "spin":
        model, h, dims = spin_model(int(rs.choice([3, 4])), rs)
        qn = 0
    else:
        model, h, dims, info = holstein_model(2, int(rs.choice([2, 3])), rs)
        qn = 1
    mpo = Mpo(model)
    st = rand_state(model, rs, qn, 16, complex_=bool(k % 3 == 0))
    for ctl, scheme, cfg in [("tdvp", "tdvp_ps", {}), ("tdvp", "tdvp_ps2", {}), ("tdvp", "tdvp_mu_cmf", {}),
                             ("pc", "prop_and_compress", {}),
                             ("tdrk", "prop_and_compress_tdrk", {"rk_solver": str(rs.choice(["RKF45", "Cash-Karp45"]))})]:
        if ctl == "tdvp" and k >= 2 and scheme != "tdvp_ps":
            continue
        if time.time() - T0 > float(P.get("budget_s", 120)):
            continue
        imag = bool(rs.rand() < 0.35) and scheme != "tdvp_mu_cmf"
        target = float(rs.choice([0.3, 0.5, 0.8, 1.3]))
        guess = float(target * rs.choice([0.11, 0.37, 1.0, 2.5]))
        rtol = float(rs.choice([1e-3, 1e-4, 1e-5])) if ctl != "tdvp" else float(rs.choice([1e-4, 1e-6, 1e-8]))
        if scheme == "tdvp_mu_cmf":
            # CMF needs hundreds of sub-steps for tight tolerances: one loose run is enough for the control flow
            rtol, target = 1e-3, min(target, 0.5)
            guess = float(target * rs.choice([0.37, 2.5]))
        a = st.copy()
        set_cfg(a, scheme, m_max=64, adaptive=True, guess_dt=(-1j * guess if imag else guess), adaptive_rtol=rtol, **cfg)
        cap.msgs = []
        try:
            out = a.evolve(mpo, -1j * target if imag else target)
            fin = out.evolve_config.guess_dt
            fin = complex(fin).imag if imag else complex(fin).real
            exc = None
        except Exception as e:
            fin, exc = None, repr(e)[:300]
        its = parse(cap.msgs, imag)
        sign = -1.0 if imag else 1.0
        tr = {"ctl": ctl, "scheme": scheme, "imag": imag, "target": sign * target, "guess0": sign * guess, "rtol": rtol,
              "its": its, "final_guess": fin, "exc": exc}
        if exc is not None or not its or any(i["p"] is None or i["outcome"] is None for i in its):
            problems.append({"what": "incomplete controller log", "trace": tr})
        traces.append(tr)

emit({"traces": traces, "problems": problems[:5], "n": len(traces)})
