"""C18: what does the coefficient site of Mps._evolve_tdvp_mu_cmf hand to expm_krylov, and is the result exp(dt*A)v ?

Runs tdvp_mu_cmf with ivp_solver="krylov" on a small spin-boson chain; the expm_krylov seen by mps.py is wrapped: the
callable is probed on the unit vectors to obtain the matrix A of the linear map, and the routine's result is compared
with scipy.linalg.expm(dt*A) @ v.  Also the whole step is compared with the RK45 path and the dense propagator.

stdin : {"seed": int, "dts": [..]}
stdout: RESULT {"calls":[{dt, n, it, herm, antiherm, relerr}], "steps":[{dt, krylov_err, rk45_err, krylov_vs_rk45}]}
"""
import json
import sys

import renormalizer  # noqa: F401
import numpy as np
import scipy.linalg
from renormalizer.model import Model, Op
from renormalizer.model import basis as ba
from renormalizer.mps import Mps, Mpo
import renormalizer.mps.mps as mpsmod
from renormalizer.utils import EvolveMethod, EvolveConfig, CompressConfig, CompressCriteria
from renormalizer.lib import expm_krylov as real_ek

payload = json.loads(sys.stdin.read())
np.random.seed(payload.get("seed", 0) % (2 ** 31))
basis = [ba.BasisHalfSpin("s0"), ba.BasisSHO("v0", 1.0, 4), ba.BasisHalfSpin("s1"), ba.BasisSHO("v1", 0.7, 4)]
terms = [Op("sigma_z", "s0", 0.5), Op("sigma_z", "s1", -0.3), Op("sigma_x sigma_x", ["s0", "s1"], 0.4),
         Op(r"b^\dagger b", "v0", 1.0), Op(r"b^\dagger b", "v1", 0.7),
         Op("sigma_z x", ["s0", "v0"], 0.5), Op("sigma_x x", ["s1", "v1"], 0.3), Op("x x", ["v0", "v1"], 0.2)]
model = Model(basis, terms)
mpo = Mpo(model)
H = mpo.todense()
log = []


def wrapped(Afunc, dt, v, *a, **k):
    res, j = real_ek(Afunc, dt, v, *a, **k)
    n = len(v)
    A = np.array([np.asarray(Afunc(np.eye(n, dtype=complex)[i])) for i in range(n)]).T
    ref = scipy.linalg.expm(dt * A) @ np.asarray(v)
    nA = max(np.linalg.norm(A), 1e-300)
    log.append({"dt": complex(dt).real if complex(dt).imag == 0 else [complex(dt).real, complex(dt).imag], "n": n, "it": int(j),
                "herm": float(np.linalg.norm(A - A.conj().T) / nA), "antiherm": float(np.linalg.norm(A + A.conj().T) / nA),
                "relerr": float(np.linalg.norm(np.asarray(res) - ref) / np.linalg.norm(ref))})
    return res, j


mpsmod.expm_krylov = wrapped
init = Mps.random(model, 0, 8, 1.0).canonicalise().canonicalise().normalize("mps_and_coeff")
psi0 = init.todense()
calls, steps = [], []
for dt in payload.get("dts", [0.1, 0.5]):
    ref = scipy.linalg.expm(-1j * dt * H) @ psi0
    out = {}
    for solver in ("krylov", "RK45"):
        log.clear()
        m = init.copy()
        m.evolve_config = EvolveConfig(EvolveMethod.tdvp_mu_cmf, ivp_solver=solver, ivp_rtol=1e-10, ivp_atol=1e-12)
        m.compress_config = CompressConfig(CompressCriteria.fixed, max_bonddim=64)
        out[solver] = m.evolve(mpo, dt).todense()
        if solver == "krylov":
            for c in log:
                c = dict(c); c["step_dt"] = dt
                calls.append(c)
    steps.append({"dt": dt, "krylov_err": float(np.linalg.norm(out["krylov"] - ref)), "rk45_err": float(np.linalg.norm(out["RK45"] - ref)),
                  "krylov_vs_rk45": float(np.linalg.norm(out["krylov"] - out["RK45"]))})
print("RESULT " + json.dumps({"calls": calls, "steps": steps}))
