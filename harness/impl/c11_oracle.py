"""C11 dense oracle (failing-input search) -- run with /venv/bin/python on /repo.

stdin : {"specs": [tree spec with extra fields, ...]}      (see c11_lib for the tree part)
          extra: "terms": [term...] operator over all DoFs, "pterms"/"keep": operator on a sub-tree's DoFs,
                 "order2": children lists of the same tree in another order, "cz": [re, im] complex scalar,
                 "mps": optional chain spec for from_mps
stdout: RESULT {"checked": n, "skipped": [...], "failures": [{"check":, "spec":, "err":, "detail":}], "counts": {...}}

Every comparison is against an independent NumPy reference (kron / tensordot partial traces / eigh / svd of
the dense vector in a canonical DoF order that does not depend on the tree); tolerance 1e-9 relative.
replay(spec) re-runs one spec and returns the number of failing checks (used by the repro snippets).
"""
import itertools
import json
import sys
import traceback

import numpy as np

import c11_lib as L
from renormalizer import Mps, Mpo, Model, Op
from renormalizer.model.basis import BasisDummy
from renormalizer.tn import TTNS, TTNO, BasisTree, TreeNodeBasis
from renormalizer.tn.tree import from_mps

TOL = 1e-9
HISTORY = {"specs": 0, "with_aux": 0, "with_sub": 0}
ZERO_SKIPS = [0]      # canonicalise/compress checks skipped because the operator annihilates the random state

# ---- witness contract of the factorisations used by canonicalise / compress (hypothesis of ttns_push_preserves,
# ttns_push_child_preserves): every logged svd_qn call must satisfy  M = Q . V^T  (QR mode)  resp.  M = U.diag(s).V^T
import renormalizer.tn.tree as _T
_svd_qn_orig = _T.svd_qn
CONTRACT = {"n": 0, "bad": 0, "worst": 0.0}


def _svd_qn_logged(coef_array, qnbigl, qnbigr, qntot, QR=False, system=None, full_matrices=True, **kw):
    res = _svd_qn_orig(coef_array, qnbigl, qnbigr, qntot, QR=QR, system=system, full_matrices=full_matrices, **kw)
    try:
        m = np.asarray(coef_array).reshape(int(np.prod(qnbigl.shape[:-1])), int(np.prod(qnbigr.shape[:-1])))
        rec = None
        if QR:
            u, _, v, _ = res
            rec = u @ v.T
        elif not full_matrices:
            u, s, _, v, _, _ = res
            rec = (u * s.reshape(1, -1)) @ v.T
        if rec is not None:
            CONTRACT["n"] += 1
            err = float(np.abs(rec - m).max()) if m.size else 0.0
            CONTRACT["worst"] = max(CONTRACT["worst"], err)
            if err > 1e-9 * max(1.0, float(np.abs(m).max()) if m.size else 1.0):
                CONTRACT["bad"] += 1
    except Exception:
        CONTRACT["bad"] += 1
    return res


_T.svd_qn = _svd_qn_logged


def close(x, ref, tol=TOL):
    x = np.asarray(x)
    ref = np.asarray(ref)
    if x.shape != ref.shape:
        return False, "shape %s vs %s" % (x.shape, ref.shape)
    if x.size == 0:
        return True, 0.0
    scale = max(1.0, float(np.abs(ref).max()))
    err = float(np.abs(x - ref).max())
    return bool(err <= tol * scale and np.all(np.isfinite(x))), err


def local_mats(order, term):
    mats = []
    for b in order:
        m = np.eye(b.nbas)
        for s, dof in term["ops"]:
            if dof in b.dofs:
                m = m @ np.asarray(b.op_mat(s))
        mats.append(m)
    return mats


def dense_operator(order, terms):
    """sum of kron products over the canonical order (identity on DoFs a term does not touch).  `order` should be
    L.full_order(tree): basis sets with nbas == 1 contribute their 1x1 local matrices as scalar factors and do not
    change the layout, which is that of L.real_order(tree)"""
    dim = int(np.prod([b.nbas for b in order])) if order else 1
    res = np.zeros((dim, dim))
    for t in terms:
        m = np.eye(1)
        for x in local_mats(order, t):
            m = np.kron(m, x)
        res = res + t["f"] * m
    return res


def rdm_dense(psi, names, ket_names):
    """Tr_rest |psi><psi| with axes (ket_names..., bra_names...)"""
    ax = [names.index(n) for n in ket_names]
    rest = [i for i in range(psi.ndim) if i not in ax]
    p = np.transpose(psi, ax + rest)
    k = int(np.prod(p.shape[:len(ax)])) if ax else 1
    shp = p.shape[:len(ax)]
    p = p.reshape(k, -1)
    rho = p @ p.conj().T
    return rho.reshape(tuple(shp) + tuple(shp))


def entropy_of(rho):
    k = int(np.prod(rho.shape[:rho.ndim // 2]))
    w = np.linalg.eigvalsh(rho.reshape(k, k))
    w = w / w.sum()
    w = w[w > 0]
    return float(-(w * np.log(w)).sum())


def random_state(bt, spec, seed, m):
    np.random.seed(seed % (2 ** 32))
    qntot = L.qntot_of(spec)
    return TTNS.random(bt, qntot, m)


def permuted_copy(a, spec, order2):
    """the same state on the same tree with children listed as order2 (tensor axes follow)"""
    bt1 = a.basis
    bt2, nodes2, _ = L.build_basis_tree(spec, order2)
    a2 = TTNS(bt2)
    ids1 = a._c11_ids
    ids2 = L.abstract_ids(bt2, nodes2)
    a2._c11_ids = ids2
    pos1 = {i: k for k, i in enumerate(ids1)}
    for k2, i in enumerate(ids2):
        n1 = a.node_list[pos1[i]]
        n2 = a2.node_list[k2]
        o1 = spec["order"][i]
        o2 = order2[i]
        perm = [o1.index(c) for c in o2]
        nc = len(o1)
        t = np.asarray(n1.tensor)
        n2.tensor = np.transpose(t, perm + list(range(nc, t.ndim))).copy()
        n2.qn = np.array(n1.qn).copy()
    a2.coeff = a.coeff
    a2.check_shape()
    return a2, bt2, nodes2


def observables(st, spec, terms, tag, with_pairs=True):
    """every observable of the property, keyed independently of node order.  Returns dict name -> ndarray/float"""
    bt = st.basis
    ids = st._c11_ids
    out = {}
    out["dense"] = L.dense(st)
    out["norm"] = st.ttns_norm
    if terms:
        out["expect"] = st.expectation(TTNO(bt, L.build_terms(spec, terms)))
    r1 = st.calc_1site_rdm()
    for k, v in r1.items():
        out["rdm1:%d" % ids[k]] = np.asarray(v)
    e1 = st.calc_1site_entropy()
    for k, v in e1.items():
        out["ent1:%d" % ids[k]] = float(v)
    d1 = st.calc_1dof_rdm()
    for k, v in d1.items():
        out["dof1:%s" % (k,)] = np.asarray(v)
    ed1 = st.calc_1dof_entropy()
    for k, v in ed1.items():
        out["dofent1:%s" % (k,)] = float(v)
    n = len(st.node_list)
    if with_pairs and n >= 2:
        pairs = [(i, j) for i in range(n) for j in range(n) if i != j]
        r2 = st.calc_2site_rdm(pairs)
        for (i, j), v in r2.items():
            out["rdm2:%d,%d" % (ids[i], ids[j])] = np.asarray(v)
        e2 = st.calc_2site_entropy(pairs)
        for (i, j), v in e2.items():
            out["ent2:%d,%d" % (ids[i], ids[j])] = float(v)
    if with_pairs:
        dofs = [d for d in bt.dof_list]
        dpairs = [(x, y) for x in dofs for y in dofs if x != y]
        if dpairs:
            r2d = st.calc_2dof_rdm(dpairs)
            for k, v in r2d.items():
                out["dof2:%s" % (k,)] = np.asarray(v)
            e2d = st.calc_2dof_entropy(dpairs)
            for k, v in e2d.items():
                out["dofent2:%s" % (k,)] = float(v)
    if n >= 2:                      # compress() asserts "can't compress a single tree node"
        be = st.calc_bond_entropy()
        for k, v in enumerate(be):
            out["bondent:%d" % ids[k]] = float(v)
    return out


def reference_observables(st, spec, terms, psi, names, bt, nodes):
    """the same keys computed from the dense vector psi (axes = canonical order `names`, one per real DoF)"""
    ref = {}
    ref["dense"] = psi
    ref["norm"] = float(np.linalg.norm(psi.ravel()))
    order = L.real_order(bt)
    if terms:
        O = dense_operator(L.full_order(bt), terms)
        v = psi.ravel()
        ref["expect"] = complex(v.conj() @ (O @ v))
    node_dofs = {}
    for i, nd in nodes.items():
        node_dofs[i] = [b.dofs[0] for b in nd.basis_sets]

    def real(ds):
        return [d for d in ds if d in names]

    def expand(rho, ds):
        # insert the size-1 axes of dummy DoFs (ket block then bra block)
        shp = [rho.shape[real(ds).index(d)] if d in names else 1 for d in ds]
        return rho.reshape(shp + shp)

    for i, ds in node_dofs.items():
        rho = expand(rdm_dense(psi, names, real(ds)), ds)
        ref["rdm1:%d" % i] = rho
        ref["ent1:%d" % i] = entropy_of(rho)
        for d in ds:
            r = expand(rdm_dense(psi, names, real([d])), [d])
            ref["dof1:%s" % (d,)] = r
            ref["dofent1:%s" % (d,)] = entropy_of(r)
    for i, j in itertools.permutations(node_dofs.keys(), 2):
        ds = node_dofs[i] + node_dofs[j]
        rho = expand(rdm_dense(psi, names, real(ds)), ds)
        ref["rdm2:%d,%d" % (i, j)] = rho
        ref["ent2:%d,%d" % (i, j)] = entropy_of(rho)
    alld = [d for i in node_dofs for d in node_dofs[i]]
    for x, y in itertools.permutations(alld, 2):
        r = expand(rdm_dense(psi, names, real([x, y])), [x, y])
        ref["dof2:%s" % ((x, y),)] = r
        ref["dofent2:%s" % ((x, y),)] = entropy_of(r)
    # bond entropies: bipartition sub-tree of node i | rest
    order_ch = spec["order"]

    def subtree(i):
        res = [i]
        for c in order_ch[i]:
            res += subtree(c)
        return res

    for i in node_dofs:
        if len(node_dofs) < 2:
            break
        if i == 0:
            ref["bondent:0"] = 0.0
            continue
        ds = real([d for k in subtree(i) for d in node_dofs[k]])
        ax = [names.index(d) for d in ds]
        rest = [k for k in range(psi.ndim) if k not in ax]
        mat = np.transpose(psi, ax + rest).reshape(int(np.prod([psi.shape[k] for k in ax])) if ax else 1, -1)
        s = np.linalg.svd(mat, compute_uv=False)
        p = s ** 2
        p = p / p.sum()
        p = p[p > 0]
        ref["bondent:%d" % i] = float(-(p * np.log(p)).sum())
    return ref


def compare_dicts(got, ref, prefix, fails, only_keys_of_ref=False, tol=TOL):
    n = 0
    for k, r in ref.items():
        if k not in got:
            fails.append((prefix + ":" + k, "missing in implementation result"))
            continue
        tol_k = 1e-7 if ("ent" in k) else tol       # entropies: p ln p amplifies rounding near p = 0
        ok, err = close(got[k], r, tol_k)
        n += 1
        if not ok:
            fails.append((prefix + ":" + k, "err %s" % (err,)))
    return n



# ---- call-history independence: operator objects reused across states that live on different basis trees
def larger_tree(bt, rs, max_total):
    """same topology, extra (auxiliary, "Q") basis sets next to some of the physical ones -- what
    BasisTree.add_auxiliary_space does for all of them; here for as many as the dense reference can afford"""
    dim = int(np.prod([b.nbas for b in bt.basis_list]))
    if dim ** 2 <= max_total:
        return bt.add_auxiliary_space()
    new_nodes = []
    added = 0
    for node in bt.node_list:
        bs = []
        for b in node.basis_sets:
            bs.append(b)
            if not isinstance(b, BasisDummy) and dim * b.nbas <= max_total and (added == 0 or rs.rand() < 0.5):
                q = b.copy(("Q", b.dofs))
                q.sigmaqn = np.zeros_like(b.sigmaqn)
                bs.append(q)
                dim *= b.nbas
                added += 1
        new_nodes.append(TreeNodeBasis(bs))
    if not added:
        return None
    from renormalizer.tn.node import copy_connection
    copy_connection(bt.node_list, new_nodes)
    return BasisTree(new_nodes[0])


def site_rdm_refs(st):
    """dense one-site RDMs of every node of st (ket axes then bra axes, dummy DoFs as size-1 axes)"""
    order = L.real_order(st.basis)
    names = [b.dofs[0] for b in order]
    psi = L.dense(st)
    res = []
    for nd in st.basis.node_list:
        ds = [b.dofs[0] for b in nd.basis_sets]
        real = [d for d in ds if d in names]
        rho = rdm_dense(psi, names, real)
        shp = [rho.shape[real.index(d)] if d in names else 1 for d in ds]
        res.append(rho.reshape(shp + shp))
    return res


def history_check(spec, bt, nodes, ac, terms, pbt, pterms):
    """every operator object is used with several states on different basis trees, in both orders and repeatedly;
    every result is compared with the dense reference and with the result of the same call made earlier"""
    from renormalizer.utils import CompressConfig
    rs = np.random.RandomState((spec["seed"] + 11) % (2 ** 32))
    bad = []
    n = 0
    states = {"own": ac}
    big = larger_tree(bt, rs, 1200)
    if big is not None:
        np.random.seed((spec["seed"] + 7) % (2 ** 32))
        try:
            s = TTNS.random(big, L.qntot_of(spec), max(2, spec["m"]))
            if np.linalg.norm(L.dense(s).ravel()) > 1e-8:
                states["aux"] = s.add(s.scale(0.5j)) if rs.rand() < 0.5 else s
        except Exception:
            pass
    if pbt is not None and pterms:
        for q in ([L.qntot_of(spec)] if not spec.get("qn") else [L.qntot_of(spec), L.qntot_of(spec) * 0, L.qntot_of(spec) * 0 + 1]):
            np.random.seed((spec["seed"] + 13) % (2 ** 32))
            try:
                s = TTNS.random(pbt, q, max(2, spec["m"]))
                if np.linalg.norm(L.dense(s).ravel()) > 1e-8:
                    states["sub"] = s
                    break
            except Exception:
                continue
    for st in states.values():
        st.compress_config = CompressConfig(threshold=1e-13)
    dense_of = {k: L.dense(v) for k, v in states.items()}
    order_of = {k: L.full_order(v.basis) for k, v in states.items()}
    seen = {}

    def use(opname, op, tms, sname, tag):
        nonlocal n
        st = states[sname]
        v = dense_of[sname].ravel()
        Od = dense_operator(order_of[sname], tms) if tms is not None else np.eye(v.size)
        ref_e = complex(v.conj() @ (Od @ v))
        ref_v = Od @ v
        res = {}
        try:
            res["expectation"] = complex(st.expectation(op))
            if tms is not None:
                res["apply"] = L.dense(op.apply(st)).ravel()
                res["matmul"] = L.dense(op @ st).ravel()
                if np.linalg.norm(ref_v) > 1e-8 and len(st.node_list) > 1:
                    res["contract"] = L.dense(op.contract(st)).ravel()
        except Exception:
            bad.append("%s: %s on state '%s' raised %s" % (tag, opname, sname, traceback.format_exc(limit=3)[-300:]))
            return
        for k, val in res.items():
            n += 1
            ref = ref_e if k == "expectation" else ref_v
            ok, err = close(val, ref, 1e-7 if k == "contract" else TOL)
            if not ok:
                bad.append("%s: %s.%s on state '%s' differs from the dense reference (err %s)" % (tag, opname, k, sname, err))
            key = (opname, sname, k)
            if key in seen:
                ok2, err2 = close(val, seen[key], 1e-7 if k == "contract" else 1e-10)
                if not ok2:
                    bad.append("%s: %s.%s on state '%s' depends on the call history (err %s vs the first call)" % (tag, opname, k, sname, err2))
            else:
                seen[key] = val

    names = list(states)
    for variant, seq in (("A", names + names), ("B", names[::-1] + names[::-1])):
        ops = []
        if terms:
            ops.append(("ttno" + variant, TTNO(bt, L.build_terms(spec, terms)), terms, [x for x in seq if x != "sub"]))
        if pbt is not None and pterms:
            ops.append(("partial" + variant, TTNO(pbt, L.build_terms(spec, pterms)), pterms, seq))
        ops.append(("dummy" + variant, TTNO.dummy(bt), None, [x for x in seq if x != "sub"]))
        for opname, op, tms, sq in ops:
            for sname in sq:
                use(opname, op, tms, sname, "order " + variant)
    # RDM routines of states on different trees interleaved, each twice
    for sname in names + names[::-1]:
        st = states[sname]
        try:
            r1 = st.calc_1site_rdm()
            refs = site_rdm_refs(st)
            for k, ref in enumerate(refs):
                n += 1
                ok, err = close(np.asarray(r1[k]), ref)
                if not ok:
                    bad.append("calc_1site_rdm of node %d of state '%s' (interleaved with other trees) err %s" % (k, sname, err))
        except Exception:
            bad.append("calc_1site_rdm on state '%s' raised %s" % (sname, traceback.format_exc(limit=3)[-300:]))
    return n, bad, sorted(states)


def inplace_rdm_check(st):
    """RDMs before and after in-place rescaling of the state (normalize, scale(inplace=True))"""
    bad = []
    n = 0
    c = st.copy()
    steps = [("as built", lambda: None), ("after normalize('mps_only')", lambda: c.normalize("mps_only")),
             ("after scale(0.5, inplace=True)", lambda: c.scale(0.5, inplace=True)),
             ("after normalize('mps_norm_to_coeff')", lambda: c.normalize("mps_norm_to_coeff"))]
    nn = len(c.node_list)
    for tag, f in steps:
        f()
        refs = site_rdm_refs(c)
        scale = abs(c.coeff) ** 2 if np.ndim(c.coeff) == 0 else 1.0     # RDM routines see the tensors only
        r1 = c.calc_1site_rdm()
        for k, ref in enumerate(refs):
            n += 1
            ok, err = close(np.asarray(r1[k]) * scale, ref)
            if not ok:
                bad.append("calc_1site_rdm node %d %s: err %s" % (k, tag, err))
        d1 = c.calc_1dof_rdm()
        tr = {k: complex(np.trace(np.asarray(v))) for k, v in d1.items()}
        nrm2 = float(np.linalg.norm(L.dense(c).ravel()) ** 2)
        for k, v in tr.items():
            n += 1
            if abs(v * scale - nrm2) > 1e-9 * max(1.0, nrm2):
                bad.append("trace of calc_1dof_rdm(%s) %s is %s, <psi|psi> = %s" % (k, tag, v * scale, nrm2))
        if nn >= 2:
            pair = (0, nn - 1)
            r2 = np.asarray(c.calc_2site_rdm(pair)[pair])
            k2 = r2.ndim // 2
            t2 = complex(np.trace(r2.reshape(int(np.prod(r2.shape[:k2])), -1)))
            n += 1
            if abs(t2 * scale - nrm2) > 1e-9 * max(1.0, nrm2):
                bad.append("trace of calc_2site_rdm%s %s is %s, <psi|psi> = %s" % (pair, tag, t2 * scale, nrm2))
    return n, bad


def run_spec(spec):
    """returns (n_checks, failures[(name, msg)], skipped_reason or None)"""
    fails = []
    nchk = 0
    bt, nodes, d2b = L.build_basis_tree(spec)
    ids = L.abstract_ids(bt, nodes)
    try:
        a = random_state(bt, spec, spec["seed"], spec["m"])
        b = random_state(bt, spec, spec["seed"] + 1, max(1, spec["m"] - 1))
    except Exception as e:          # TTNS.random cannot reach the sector etc.: not an observation of the property
        return 0, [], "TTNS.random: %r" % (e,)
    a._c11_ids = ids
    b._c11_ids = ids
    order = L.real_order(bt)
    forder = L.full_order(bt)
    names = [bb.dofs[0] for bb in order]
    try:
        da, db = L.dense(a), L.dense(b)
    except Exception:
        return 0, [("todense", "raised " + traceback.format_exc(limit=4)[-600:])], None
    if np.linalg.norm(da.ravel()) < 1e-8 or np.linalg.norm(db.ravel()) < 1e-8:
        return 0, [], "zero state"
    bad0 = CONTRACT["bad"]

    def chk(name, f):
        nonlocal nchk
        try:
            res = f()
        except Exception:
            fails.append((name, "raised " + traceback.format_exc(limit=4)[-600:]))
            return
        nchk += 1
        if res is not None:
            ok, err = res
            if not ok:
                fails.append((name, "err %s" % (err,)))

    # default todense (order=None) on every tree, incl. trees with dummy nodes
    def c_todense_default():
        v = np.asarray(a.todense())
        o = [x for x in bt.basis_list if not isinstance(x, BasisDummy)]
        return close(v, np.asarray(a.todense(o)))
    chk("todense-default", c_todense_default)
    chk("todense-order", lambda: close(np.transpose(np.asarray(a.todense(order[::-1])), list(range(len(order)))[::-1]), da))
    # add / scale
    chk("add", lambda: close(L.dense(a.add(b)), da + db))
    chk("add-op", lambda: close(L.dense(a + b), da + db))

    def c_add_coeff():
        a1, b1 = a.copy(), b.copy()
        a1.coeff, b1.coeff = 2.0, -0.5
        return close(L.dense(a1.add(b1)), 2.0 * da - 0.5 * db)
    chk("add-coeff", c_add_coeff)

    def c_add_coeff_equal():
        a1, b1 = a.copy(), b.copy()
        a1.coeff, b1.coeff = 2.0, 2.0
        return close(L.dense(a1.add(b1)), 2.0 * (da + db))
    chk("add-coeff-equal", c_add_coeff_equal)
    cz = complex(*spec.get("cz", [0.5, -1.25]))
    chk("scale-real", lambda: close(L.dense(a.scale(-1.75)), -1.75 * da))
    chk("scale-complex", lambda: close(L.dense(a.scale(cz)), cz * da))
    ac = a.add(b.scale(cz))
    ac._c11_ids = ids
    dac = da + cz * db
    chk("add-complex", lambda: close(L.dense(ac), dac))
    chk("to_complex", lambda: close(L.dense(a.to_complex()), da.astype(complex)))
    # operator application (full operator)
    terms = spec.get("terms") or []
    if terms:
        O = dense_operator(forder, terms)
        try:
            ttno = TTNO(bt, L.build_terms(spec, terms))
        except Exception as e:      # operator construction is C02's subject
            return nchk, fails, "TTNO(): %r" % (e,)
        chk("ttno-dense", lambda: close(np.asarray(ttno.todense(order)), O))
        chk("apply", lambda: close(L.dense(ttno.apply(a)).ravel(), O @ da.ravel()))
        chk("apply-complex", lambda: close(L.dense(ttno @ ac).ravel(), O @ dac.ravel()))
        if np.linalg.norm(O @ da.ravel()) > 1e-8:       # the zero vector cannot be canonicalised (svd_qn finds no block)
            chk("apply-cano", lambda: close(L.dense(ttno.apply(a, canonicalise=True)).ravel(), O @ da.ravel()))
        else:
            ZERO_SKIPS[0] += 1
        chk("apply-apply", lambda: close(L.dense(ttno.apply(ttno.apply(a))).ravel(), O @ (O @ da.ravel())))
        chk("expectation", lambda: close(a.expectation(ttno), float(da.ravel() @ (O @ da.ravel()))))
        chk("expectation-complex", lambda: close(complex(ac.expectation(ttno)), complex(dac.ravel().conj() @ (O @ dac.ravel()))))
        chk("expectation1", lambda: close(a.expectation1(ttno), float(da.ravel() @ (O @ da.ravel()))))
        if np.linalg.norm(O @ da.ravel()) > 1e-8:       # svd_qn cannot decompose the zero vector
            chk("contract", lambda: close(L.dense(_contract_lossless(ttno, a)).ravel(), O @ da.ravel()))
    # operator on a sub-tree's DoFs (partial operator): same topology, every node keeps a subset of its DoFs
    keep = spec.get("keep")
    pterms = spec.get("pterms") or []
    pbt = None
    if keep is not None and pterms:
        pn = {}
        for i, descs in enumerate(spec["nodes"]):
            bs = [nodes[i].basis_sets[j] for j in keep[i]] if descs else []
            pn[i] = TreeNodeBasis(bs) if bs else TreeNodeBasis([L.dummy_basis(("pdummy", i), spec.get("qn"))])
        for i, ch in enumerate(spec["order"]):
            for c in ch:
                pn[i].add_child(pn[c])
        pbt = BasisTree(pn[0])

        def c_partial():
            pt = TTNO(pbt, L.build_terms(spec, pterms))
            Op_ = dense_operator(forder, pterms)
            r1 = close(L.dense(pt.apply(a)).ravel(), Op_ @ da.ravel())
            if not r1[0]:
                return r1
            r2 = close(complex(ac.expectation(pt)), complex(dac.ravel().conj() @ (Op_ @ dac.ravel())))
            return r2
        chk("partial-operator", c_partial)

    # operator objects reused across states on different basis trees, in both orders; results must not depend on history
    def c_history():
        nonlocal nchk
        n, bad, used = history_check(spec, bt, nodes, ac, terms, pbt, pterms)
        nchk += n
        HISTORY["specs"] += 1
        HISTORY["with_aux"] += 1 if "aux" in used else 0
        HISTORY["with_sub"] += 1 if "sub" in used else 0
        if bad:
            return False, "; ".join(bad[:3])
        return None
    chk("operator-reuse", c_history)

    # expectation values of non-Hermitian operators whose real and imaginary parts differ by many orders of magnitude
    # (offset E0 * identity + small non-Hermitian part, and purely imaginary values), on the complex state; real and
    # imaginary parts are compared separately, each relative to its own dense magnitude (floor 1e-12 * |value|)
    def c_scales():
        nonlocal nchk
        kinds = dict(L.spin_like_dofs(spec))
        sp = [d for d, k in kinds.items() if k in ("spin", "elec")]
        up = lambda d: ["sigma_-" if kinds[d] == "spin" else r"a^\dagger", d]       # raises the quantum number
        dn = lambda d: ["sigma_+" if kinds[d] == "spin" else "a", d]
        two = L.qn_size(spec) == 2
        pair = None
        for x in sp:
            for y in sp:
                if x != y and (not two or kinds[x] == kinds[y]):
                    pair = (x, y)
                    break
            if pair:
                break
        if pair is not None:
            A = [up(pair[0]), dn(pair[1])]
            At = [dn(pair[0]), up(pair[1])]
        elif sp and not spec.get("qn"):
            A, At = [up(sp[0])], [dn(sp[0])]
        else:
            return None
        anyd = sorted(kinds)[0]
        v = dac.ravel()
        bad = []
        cases = [(E0, g, False) for E0 in (0.0, 1.0, 1e2, 1e4) for g in (1e-3, 1e-6)] + [(0.0, 1.0, True), (0.0, 1e-6, True)]
        for E0, g, anti in cases:
            tms = [{"f": g, "ops": A}]
            if anti:
                tms.append({"f": -g, "ops": At})            # A - A^T: real antisymmetric, purely imaginary expectation values
            if E0:
                tms.append({"f": E0, "ops": [["I", anyd]]})
            Od = dense_operator(forder, tms)
            ref = complex(v.conj() @ (Od @ v))
            op = TTNO(bt, L.build_terms(spec, tms))
            for name, f in (("expectation", lambda: ac.expectation(op)), ("expectation1", lambda: ac.expectation1(op)),
                            ("expectation(OpSum)", lambda: ac.expectation(L.build_terms(spec, tms) if len(tms) > 1 else L.build_terms(spec, tms)[0]))):
                try:
                    val = complex(f())
                except Exception:
                    if name == "expectation(OpSum)":
                        continue                                # list input is not accepted by every version
                    raise
                nchk += 1
                # floors: rounding of the parts that contribute (the value itself may vanish by cancellation)
                nv = float(np.vdot(v, v).real)
                floor_re = 1e-12 * (E0 + 2 * g) * nv
                floor_im = 1e-12 * 2 * g * nv + 1e-15 * E0 * nv
                # TTNS.expectation returns a plain float when |Im| <= 1e-8 (np.isclose(imag, 0), absolute): accepted
                im_dropped = (val.imag == 0 and abs(ref.imag) <= 1e-8)
                if abs(val.real - ref.real) > 1e-9 * abs(ref.real) + floor_re or \
                        (abs(val.imag - ref.imag) > 1e-9 * abs(ref.imag) + floor_im and not im_dropped):
                    bad.append("%s E0=%g g=%g%s: %r, dense %r" % (name, E0, g, " (antisymmetric)" if anti else "", val, ref))
        if bad:
            return False, "; ".join(bad[:3])
        return None
    chk("expectation-scales", c_scales)

    def c_inplace():
        nonlocal nchk
        n, bad = inplace_rdm_check(ac)
        nchk += n
        if bad:
            return False, "; ".join(bad[:3])
        return None
    chk("rdm-after-inplace", c_inplace)
    # canonicalise / lossless compress
    def c_cano():
        c = a.add(b)
        c.canonicalise()
        c.check_canonical()
        return close(L.dense(c), da + db)
    chk("canonicalise", c_cano)

    def c_compress():
        c = a.add(b).add(a)
        before = list(c.bond_dims)
        c.canonicalise()
        c.compress(temp_m_trunc=10 ** 6)
        if any(x > y for x, y in zip(c.bond_dims, before)):
            return False, "bond dims grew %s -> %s" % (before, c.bond_dims)
        return close(L.dense(c), 2 * da + db)
    if len(bt.node_list) > 1:
        chk("compress-lossless", c_compress)

        def c_push():
            c = ac.copy()
            for node in c.node_list[1:]:
                c.push_cano_to_parent(node)
            r = close(L.dense(c), dac)
            if not r[0]:
                return r
            for node in c.node_list:
                for i in range(len(node.children)):
                    c.push_cano_to_child(node, i)
            return close(L.dense(c), dac)
        chk("push-cano", c_push)
    # norm
    chk("norm", lambda: close(a.add(b).ttns_norm, float(np.linalg.norm((da + db).ravel()))))
    chk("norm-coeff", lambda: close(ac.norm, float(np.linalg.norm(dac.ravel()))))

    def c_normalize():
        c = ac.copy()
        c.coeff = 2.0
        c.normalize("mps_and_coeff")
        r = close(L.dense(c), dac / np.linalg.norm(dac.ravel()))
        if not r[0]:
            return r
        c2 = ac.copy()
        c2.normalize("mps_norm_to_coeff")
        return close(L.dense(c2), dac)
    chk("normalize", c_normalize)
    # RDMs / entropies of a complex state with every pair
    def c_obs():
        nonlocal nchk
        got = observables(ac, spec, terms, "ac")
        ref = reference_observables(ac, spec, terms, dac, names, bt, nodes)
        f2 = []
        nchk += compare_dicts(got, ref, "obs", f2)
        if f2:
            return False, "; ".join("%s %s" % x for x in f2[:4])
        return None
    chk("observables", c_obs)
    # independence of the order in which children are listed
    order2 = spec.get("order2")
    if order2 is not None and order2 != spec["order"]:
        def c_child_order():
            nonlocal nchk
            a2, bt2, nodes2 = permuted_copy(ac, spec, order2)
            b2, _, _ = permuted_copy(b, spec, order2)
            b2._c11_ids = a2._c11_ids
            got1 = observables(ac, spec, terms, "o1", with_pairs=len(bt.node_list) <= 5)
            got2 = observables(a2, spec, terms, "o2", with_pairs=len(bt.node_list) <= 5)
            f2 = []
            nchk += compare_dicts(got2, got1, "child-order", f2)
            # operations carried out in the re-listed tree
            s2 = a2.add(b2)
            if not close(L.dense(s2), dac + db)[0]:
                f2.append(("child-order:add", "dense differs"))
            if terms:
                o2 = TTNO(bt2, L.build_terms(spec, terms))
                if not close(L.dense(o2.apply(a2)).ravel(), dense_operator(forder, terms) @ dac.ravel())[0]:
                    f2.append(("child-order:apply", "dense differs"))
            c = s2.copy()
            c.canonicalise()
            if len(bt2.node_list) > 1:
                c.compress(temp_m_trunc=10 ** 6)
            if not close(L.dense(c), dac + db)[0]:
                f2.append(("child-order:cano-compress", "dense differs"))
            if f2:
                return False, "; ".join("%s %s" % x for x in f2[:4])
            return None
        chk("child-order", c_child_order)
    if CONTRACT["bad"] > bad0:
        fails.append(("svd_qn-contract", "%d logged factorisations of canonicalise/compress violate M = Q.V^T (worst %.3g)"
                      % (CONTRACT["bad"] - bad0, CONTRACT["worst"])))
    return nchk, fails, None


def _contract_lossless(ttno, a):
    new = ttno.apply(a)
    new.canonicalise()
    if len(new.node_list) > 1:
        new.compress(temp_m_trunc=10 ** 6)
    return new


def run_mps(ms):
    """from_mps: chain -> linear tree.  ms = {"sites": [desc...], "qn": bool, "qntot": int, "m": int, "seed": int, "terms": [...]}"""
    fails = []
    spec = {"nodes": [[d] for d in ms["sites"]], "qn": ms.get("qn")}
    basis = [L.make_basis(d, "n%d_0" % i, bool(ms.get("qn"))) for i, d in enumerate(ms["sites"])]
    terms = L.build_terms(spec, ms["terms"])
    model = Model(basis, terms)
    np.random.seed(ms["seed"] % (2 ** 32))
    try:
        mps = Mps.random(model, int(ms["qntot"]) if ms.get("qn") else 0, ms["m"])
    except Exception as e:
        return 0, [], "Mps.random: %r" % (e,)
    n = 0
    try:
        bt, ttns, ttno = from_mps(mps)
        v1 = np.asarray(ttns.todense(list(model.basis))).ravel()
        v2 = np.asarray(mps.todense()).ravel()
        ok, err = close(v1, v2)
        n += 1
        if not ok:
            fails.append(("from_mps-dense", "err %s" % (err,)))
        e1 = ttns.expectation(ttno)
        e2 = mps.expectation(Mpo(model))
        ok, err = close(e1, e2)
        n += 1
        if not ok:
            fails.append(("from_mps-expectation", "err %s" % (err,)))
        O = dense_operator(basis, ms["terms"])
        ok, err = close(e1, float(v2 @ (O @ v2)))
        n += 1
        if not ok:
            fails.append(("from_mps-expectation-dense", "err %s" % (err,)))
        # the mps itself must be untouched and the tree must be the reversed chain
        ok = [nd.tensor.shape[-1] for nd in ttns.node_list[::-1]] == [m.shape[-1] for m in mps]
        n += 1
        if not ok:
            fails.append(("from_mps-bonds", "bond dimensions differ"))
    except Exception:
        fails.append(("from_mps", "raised " + traceback.format_exc(limit=4)[-600:]))
    return n, fails, None


def replay(spec):
    if "sites" in spec:
        n, fails, skip = run_mps(spec)
    else:
        n, fails, skip = run_spec(spec)
    for f in fails:
        print("FAIL", f[0], f[1])
    if skip:
        print("skipped:", skip)
    return 1 if fails else 0


def main():
    payload = L.read_payload()
    failures = []
    skipped = []
    checked = 0
    nspec = 0
    nqn2 = 0
    for spec in payload.get("specs", []):
        try:
            n, fails, skip = run_spec(spec)
        except Exception:
            n, fails, skip = 0, [("harness", traceback.format_exc(limit=6)[-800:])], None
        checked += n
        if skip:
            skipped.append(skip[:80])
        else:
            nspec += 1
            if L.qn_size(spec) == 2:
                nqn2 += 1
        for k, (name, msg) in enumerate(fails):
            failures.append({"check": name, "spec": spec, "err": msg, "rank": k, "first": fails[0][0]})
    for ms in payload.get("mps", []):
        try:
            n, fails, skip = run_mps(ms)
        except Exception:
            n, fails, skip = 0, [("harness-mps", traceback.format_exc(limit=6)[-800:])], None
        checked += n
        if skip:
            skipped.append(skip[:80])
        else:
            nspec += 1
        for k, (name, msg) in enumerate(fails):
            failures.append({"check": name, "spec": ms, "err": msg, "rank": k, "first": fails[0][0]})
    L.emit({"checked": checked + CONTRACT["n"], "specs_run": nspec, "skipped": skipped, "failures": failures,
            "qn2_specs_run": nqn2, "zero_result_skips": ZERO_SKIPS[0], "history": HISTORY, "contract_checks": CONTRACT["n"], "contract_worst": CONTRACT["worst"]}, payload.get("out"))


if __name__ == "__main__":
    main()
