"""C07: observables computed from the network equal their dense definitions; batched fast path = one-by-one path."""
import json
import os

import common

HEADER = """From Coq Require Import List ZArith.
Import ListNotations.
From RV Require Import Base.CRing Base.BigSum Model.Chain Model.FreqCache Model.Env.
Local Open Scope Z_scope.
Definition gz (l : list (Z * Z)) : list Z := flat_map (fun z => [fst z; snd z]) l.
Definition idz (l : list Z) : list Z := l.
Definition keysZ (l : list key) : list Z := flat_map (fun k => Z.of_nat (length k) :: k) l.
"""

RDM_REVERT_REPRO = r'''
import sys, numpy as np
from renormalizer import Mps, Model
from renormalizer.model.basis import BasisHalfSpin
model = Model([BasisHalfSpin(i) for i in range(3)], [])
rng = np.random.default_rng(1)
psi = rng.normal(size=8) + 1j * rng.normal(size=8); psi /= np.linalg.norm(psi)
m = Mps.from_dense(model, psi)
T = psi.reshape(2, 2, 2)
ref1 = np.tensordot(T, T.conj(), axes=([1, 2], [1, 2]))            # rho[x,y] = sum psi[x,.] conj psi[y,.]
ref2 = np.tensordot(T, T.conj(), axes=([2], [2])).reshape(4, 4)
r1 = m.calc_1site_rdm()[0]; r2 = m.calc_2site_rdm()[(0, 1)]
bad = (not np.allclose(r1, ref1, atol=1e-10)) or (not np.allclose(r2, ref2, atol=1e-10))
print("1-site rdm == Tr|psi><psi|:", np.allclose(r1, ref1), " 2-site:", np.allclose(r2, ref2),
      " (transposed 1-site:", np.allclose(r1, ref1.T), ")")
sys.exit(1 if bad else 0)
'''


def zlit(n):
    n = int(n)
    return "(%d)" % n if n < 0 else "%d" % n


def tab(t, cplx, depth):
    """nested python list (depth levels of lists, leaves ints or [re, im]) -> Coq list literal"""
    if depth == 0:
        if cplx:
            return "(%s, %s)" % (zlit(t[0]), zlit(t[1]))
        return zlit(t)
    return "[" + "; ".join(tab(x, cplx, depth - 1) for x in t) + "]"


def render_case(c, name):
    cplx = c["cplx"]
    ring = "GiRing" if cplx else "ZRing"
    tz = "gz" if cplx else "idz"
    n = len(c["ps"])
    out = []
    out.append("Definition %s_ps : list nat := [%s]%%nat." % (name, "; ".join(str(p) for p in c["ps"])))
    for which in ("bra", "ket"):
        items = ["(%d%%nat, @of3 %s %s)" % (dr, ring, tab(t, cplx, 3)) for dr, t in c[which]]
        out.append("Definition %s_%s : list (nat * T3 %s) := [%s]." % (name, which, ring, "; ".join(items)))
    ops = []
    for m in c["ops"]:
        sites = ["(%s, (%d%%nat, %d%%nat, @of4 %s %s))" % (zlit(h), dl, dr, ring, tab(t, cplx, 4)) for h, dl, dr, t in m]
        ops.append("[" + "; ".join(sites) + "]")
    out.append("Definition %s_ms : list (hop (OpSite %s)) := [%s]." % (name, ring, ";\n  ".join(ops)))
    args = "%s %s_ps %s_bra %s_ket" % (ring, name, name, name)
    out.append("Eval vm_compute in (match expectations_fast3 %s %d%%nat %s_ms with Some vs => %s vs | None => [] end)." % (args, n, name, tz))
    out.append("Eval vm_compute in (%s (expectations_slow3 %s %s_ms))." % (tz, args, name))
    out.append("Eval vm_compute in (keysZ (plan DL (map (hashes_of (OpSite %s)) %s_ms) %d%%nat))." % (ring, name, n))
    out.append("Eval vm_compute in (keysZ (plan DR (map (hashes_of (OpSite %s)) %s_ms) %d%%nat))." % (ring, name, n))
    out.append("Eval vm_compute in (splits %s %d%%nat %s_ms)." % (args, n, name))
    for d in ("DL", "DR"):
        out.append("Eval vm_compute in (flat_map (fun de => map Z.of_nat (fst de) ++ %s (snd de)) (dict_dump %s %s %d%%nat %s_ms))." % (tz, args, d, n, name))
    ks = ["(%d%%nat, %d%%nat, @of3 %s %s)" % (p_, dr, ring, tab(t, cplx, 3)) for p_, (dr, t) in zip(c["ps"], c["ket"])]
    out.append("Eval vm_compute in (%s (@rdm1_all %s [%s]))." % (tz, ring, "; ".join(ks)))
    out.append("Eval vm_compute in (%s (@rdm2_all %s [%s]))." % (tz, ring, "; ".join(ks)))
    out.append("Definition %s_ks : list (ksite %s) := [%s]." % (name, ring, "; ".join(ks)))
    if c.get("dm"):
        dm = c["dm"]
        for which in ("bra", "ket"):
            items = ["(%d%%nat, @of4 %s %s)" % (dr, ring, tab(t, cplx, 4)) for dr, t in dm[which]]
            out.append("Definition %s_d%s : list (nat * T4 %s) := [%s]." % (name, which, ring, "; ".join(items)))
        out.append("Definition %s_dms : list (hop (OpSite %s)) := firstn %d%%nat %s_ms." % (name, ring, dm["nops"], name))
        dargs = "%s %s_ps %s_ps %s_dbra %s_dket" % (ring, name, name, name, name)
        out.append("Eval vm_compute in (%s (expectations_slow4 %s %s_dms))." % (tz, dargs, name))
        out.append("Eval vm_compute in (match expectations_fast4 %s %d%%nat %s_dms with Some vs => %s vs | None => [] end)." % (dargs, n, name, tz))
        ks4 = ["(%d%%nat, %d%%nat, %d%%nat, @of4 %s %s)" % (p_, p_, dr, ring, tab(t, cplx, 4)) for p_, (dr, t) in zip(c["ps"], dm["ket"])]
        out.append("Definition %s_ks4 : list (ksite4 %s) := [%s]." % (name, ring, "; ".join(ks4)))
        out.append("Eval vm_compute in (%s (rdm1_all4 %s_ks4))." % (tz, name))
        out.append("Eval vm_compute in (%s (rdm2_all4 %s_ks4))." % (tz, name))
    else:
        out += ["Eval vm_compute in (@nil Z)."] * 4
    if c.get("occ") and "values" in c["occ"]:
        oc = c["occ"]
        out.append("Eval vm_compute in (%s (map (occ_dense %s_ks) [%s]%%nat))." % (tz, name, "; ".join(str(k) for k in oc["sites"])))
        probes = []
        for m in oc["mpos"]:
            chain = "[" + "; ".join("(%d%%nat, @of4 %s %s)" % (dr, ring, tab(t, cplx, 4)) for dl_, dr, t in m) + "]"
            probes.append("%s (diag_probe %s %s_ps)" % (tz, chain, name))
        out.append("Eval vm_compute in (%s)." % " ++ ".join(probes))
    else:
        out += ["Eval vm_compute in (@nil Z)."] * 2
    return "\n".join(out) + "\n"


NL = 15     # printed lists per case


def ints(vals, cplx):
    """impl values [[re, im], ...] -> flat integer list as the model prints it; None if some value is not an integer"""
    out = []
    for re, im in vals:
        if re != int(re) or im != int(im):
            return None
        out.append(int(re))
        if cplx:
            out.append(int(im))
        elif im != 0:
            return None
    return out


def compare_case(c, lists):
    """lists: the NL printed list Z values of the model.  Returns list of mismatch descriptions."""
    bad = []
    cplx = c["cplx"]
    im = c["impl"]
    if len(lists) != NL:
        return [{"what": "model output incomplete", "n_lists": len(lists)}]
    fast_m, slow_m, pl_m, pr_m, split_m, el_m, er_m, rdm_m, rdm2_m, dm_m, dmf_m, drdm1_m, drdm2_m, occ_m, probe_m = lists
    one_i, fast_i, slow_i = ints(im["one"], cplx), ints(im["fast"], cplx), ints(im["slow"], cplx)
    if one_i is None or fast_i is None or slow_i is None:
        bad.append({"what": "implementation value is not an integer on integer data", "one": im["one"][:4], "fast": im["fast"][:4]})
        return bad
    if fast_i != fast_m:
        bad.append({"what": "expectations (fast path): implementation vs model", "impl": fast_i[:12], "model": fast_m[:12]})
    if one_i != slow_m:
        bad.append({"what": "expectation (one by one): implementation vs model", "impl": one_i[:12], "model": slow_m[:12]})
    if slow_i != one_i:
        bad.append({"what": "expectations(opt=False) vs [expectation]", "slow": slow_i[:12], "one": one_i[:12]})
    if fast_i != one_i:
        bad.append({"what": "implementation: fast path differs from one-by-one path", "fast": fast_i[:12], "one": one_i[:12]})
    if fast_m != slow_m:
        bad.append({"what": "model: fast path differs from one-by-one path", "fast": fast_m[:12], "slow": slow_m[:12]})
    for nm, keys, got in (("L", im["planL"], pl_m), ("R", im["planR"], pr_m)):
        want = []
        for k in keys:
            want += [len(k)] + list(k)
        if want != got:
            bad.append({"what": "cache plan %s (keys in insertion order)" % nm, "impl_keys": keys[:6], "model_flat": got[:40]})
    want = [x for pr in im["split"] for x in pr]
    if want != split_m:
        bad.append({"what": "split indices (l_idx, r_idx) per operator", "impl": im["split"], "model": split_m})
    for nm, envs, got in (("L", im["envL"], el_m), ("R", im["envR"], er_m)):
        want = []
        ok = True
        for e in envs:
            fl = ints(e["flat"], cplx)
            if fl is None:
                ok = False
                break
            want += list(e["shape"]) + fl
        if not ok or want != got:
            bad.append({"what": "cached environments %s (shape + entries, plan order)" % nm, "impl_n": len(envs), "model_len": len(got), "impl_len": len(want)})
    rdm_i = ints(im["rdm1"], cplx)
    if rdm_i is None or rdm_i != rdm_m:
        bad.append({"what": "calc_1site_rdm (all sites, entrywise): implementation vs model", "impl": (rdm_i or im["rdm1"])[:16], "model": rdm_m[:16]})
    rdm2_i = ints(im["rdm2"], cplx)
    if rdm2_i is None or rdm2_i != rdm2_m:
        bad.append({"what": "calc_2site_rdm (all pairs, entrywise): implementation vs model", "impl": (rdm2_i or im["rdm2"])[:16], "model": rdm2_m[:16]})
    if c.get("dm"):
        one_d, fast_d = ints(c["dm"]["one"], cplx), ints(c["dm"]["fast"], cplx)
        if one_d is None or one_d != dm_m:
            bad.append({"what": "MpDm.expectation (rank-4 sites): implementation vs model", "impl": (one_d or c["dm"]["one"])[:12], "model": dm_m[:12]})
        if fast_d is None or fast_d != dmf_m:
            bad.append({"what": "MpDm.expectations fast path (rank-4 sites): implementation vs model", "impl": (fast_d or c["dm"]["fast"])[:12], "model": dmf_m[:12]})
        if fast_d != one_d:
            bad.append({"what": "implementation: MpDm fast path differs from one-by-one path", "fast": c["dm"]["fast"][:6], "one": c["dm"]["one"][:6]})
        for nm, key, got in (("calc_1site_rdm", "rdm1", drdm1_m), ("calc_2site_rdm", "rdm2", drdm2_m)):
            v = ints(c["dm"][key], cplx)
            if v is None or v != got:
                bad.append({"what": "MpDm %s (rank-4 branch, entrywise): implementation vs model" % nm, "impl": (v or c["dm"][key])[:16], "model": got[:16]})
    if c.get("occ") and "error" in c["occ"]:
        bad.append({"what": "e_occupations / ph_occupations raised", "error": c["occ"]["error"]})
    elif c.get("occ"):
        oc = c["occ"]
        v = ints(oc["values"], cplx)
        if v is None or v != occ_m:
            bad.append({"what": "e_occupations / ph_occupations: implementation vs sum_s s_k |Psi(s)|^2 of the model", "impl": (v or oc["values"])[:12], "model": occ_m[:12]})
        # assumption of C07_occupation_dense: the number-operator MPO is diag(s_k), nothing off the diagonal
        want = []
        cfgs = [[]]
        for d in reversed(c["ps"]):
            cfgs = [[a] + r for a in range(d) for r in cfgs]
        for k in oc["sites"]:
            for cf in cfgs:
                want += [cf[k], 0] if cplx else [cf[k]]
            want += [0, 0] if cplx else [0]
        if want != probe_m:
            bad.append({"what": "number-operator MPO is not diag(s_k) (assumption of C07_occupation_dense)", "sites": oc["sites"], "model": probe_m[:24], "want": want[:24]})
    return bad


def run(ctx):
    quick = ctx.tier == "quick"
    seed = ctx.seed
    ctx.trusted += [
        "hand-written models Model/Env.v, Model/FreqCache.v (tied by exact correspondence on integer / Gaussian-integer data: values, cache plan keys, split indices, cached tensors, 1-/2-site RDMs of Mps and MpDm, MpDm fast path, occupations and the diagonality of the number-operator MPOs)",
        "correspondence harness harness/c07.py + impl/c07_tie.py (calls _construct_freq_environ/_get_freq_environ directly with the hash lists the model receives); Matrix.__hash__ values are passed to the model as opaque integers",
        "hash injectivity on the site matrices present is a hypothesis of the fast=slow theorem (the code raises RuntimeError on a detected collision)",
        "modelled, not verified: binary64 rounding and the pairwise einsum order inside contract_one_site / multi_tensor_contract; entropy formulas (calc_vn_entropy, eigh, compress singular values) are checked by the dense oracle only",
    ]
    # ------------------------------------------------------------------ 1/2. build + property file
    ok_build, log = ctx.coq_make(["Proofs/EnvProofs.vo", "Proofs/FreqCacheProofs.vo"])
    ok_props = False
    if ok_build:
        ok_props, log = ctx.props("Props/C07.v")
    else:
        ctx.obligations.append({"name": "C07 (build of Model/Env.v, Model/FreqCache.v and their proofs)", "file": "Proofs/EnvProofs.v", "ok": False, "assumptions": None})
    # ------------------------------------------------------------------ 3. correspondence on integer data
    n_tie = 96 if quick else 1200
    per = 8 if quick else 50
    payloads = [{"seed": seed, "start": s, "count": min(per, n_tie - s)} for s in range(0, n_tie, per)]
    res = ctx.impl_par("c07_tie.py", payloads, timeout=900 if quick else 3000)
    cases = []
    gen_errors = []
    for rc, r, out in res:
        if r is None or "file" not in r:
            gen_errors.append({"what": "c07_tie.py failed", "out": (out or "")[-1200:]})
            continue
        path = r["file"]
        try:
            with open(path) as f:
                r = json.load(f)
        finally:
            try:
                os.remove(path)
            except OSError:
                pass
        cases += r["cases"]
        gen_errors += [{"what": "case generation raised", **e} for e in r["errors"]]
    corr_bad = []
    evaluations = 0
    nontrivial = 0
    samples = []
    hist = {}
    if ok_build and cases:
        shard = 12
        items = []
        for k in range(0, len(cases), shard):
            text = HEADER + "".join(render_case(c, "c%d" % c["idx"]) for c in cases[k:k + shard])
            items.append(("tie_%d" % (k // shard), text))
        outs = ctx.coq_eval_many(items, timeout=900)
        for k in range(0, len(cases), shard):
            rc, out = outs["tie_%d" % (k // shard)]
            lists = common.parse_Z_lists(out) if rc == 0 else []
            chunk = cases[k:k + shard]
            if rc != 0 or len(lists) != NL * len(chunk):
                corr_bad.append({"what": "model evaluation failed", "rc": rc, "out": out[-1500:], "lists": len(lists), "cases": [c["idx"] for c in chunk]})
                continue
            for j, c in enumerate(chunk):
                bad = compare_case(c, lists[NL * j:NL * j + NL])
                evaluations += 1
                nz = sum(1 for v in c["impl"]["one"] if v[0] != 0 or v[1] != 0)
                cached = len(c["impl"]["planL"]) + len(c["impl"]["planR"])
                if nz > 0 and cached > 0:
                    nontrivial += 1
                for key in ("n=%d" % c["n"], "ring=%s" % ("Gi" if c["cplx"] else "Z"), "style=%s" % c["style"], "bra=%s" % c["bra_mode"],
                            "cached_keys=%s" % (">=n+1" if len(c["impl"]["planL"]) > c["n"] else ("0" if cached == 0 else "some"))):
                    hist[key] = hist.get(key, 0) + 1
                if len(samples) < 2 and nz > 0 and cached > 0:
                    samples.append({"idx": c["idx"], "ps": c["ps"], "n_ops": len(c["ops"]), "ring": "GiRing" if c["cplx"] else "ZRing",
                                    "values": c["impl"]["one"][:4], "planL": c["impl"]["planL"][:3], "split": c["impl"]["split"][:4]})
                for b in bad:
                    b["case"] = c["idx"]
                    corr_bad.append(b)
    elif not cases:
        corr_bad.append({"what": "no correspondence case could be generated", "errors": gen_errors[:3]})
    if gen_errors:
        ctx.notes.append("tie generator problems: %s" % json.dumps(gen_errors[:3])[:1500])
    # ------------------------------------------------------------------ 4. dense oracle on the real code (always)
    n_or = 224 if quick else 4000
    per = 16 if quick else 100
    payloads = [{"seed": seed, "start": s, "count": min(per, n_or - s)} for s in range(0, n_or, per)]
    res = ctx.impl_par("c07_oracle.py", payloads, timeout=1200 if quick else 6000)
    or_fail = []
    or_crash = []
    or_n = or_checks = or_nontriv = 0
    or_hist = {}
    or_samples = []
    for rc, r, out in res:
        if r is None:
            or_crash.append({"what": "c07_oracle.py failed", "out": (out or "")[-1200:]})
            continue
        or_n += r["n"]
        or_checks += r["checks"]
        or_nontriv += r["nontrivial"]
        for k, v in r["hist"].items():
            or_hist[k] = or_hist.get(k, 0) + v
        or_samples += r["samples"][:1]
        for f in r["failures"]:
            (or_crash if f.get("check") == "oracle-crash" else or_fail).append(f)
    # the fixed transposition (commit 7924df4) is re-tested by a fixed snippet as well
    rc_rdm, out_rdm = common.sh([common.IMPL_PY, "-c", RDM_REVERT_REPRO], env=common.impl_env(), cwd="/", timeout=300)
    # ------------------------------------------------------------------ 5. report
    classes = {}
    for f in or_fail:
        classes.setdefault(f.get("check", "?"), []).append(f)
    rdm_classes = [k for k in classes if k.startswith("calc_1site_rdm") or k.startswith("calc_2site_rdm")]
    proofs_broken = not (ok_build and ok_props)
    if rc_rdm != 0 or rdm_classes:
        ex = None
        for k in rdm_classes:
            ex = classes[k][0]
            break
        ctx.violation("rdm-vs-dense-partial-trace",
                      "theorems C07_rdm1_dense / C07_rdm2_ptrace / C07_rdm1_dm_ptrace / C07_rdm2_dm_ptrace (models of calc_1site_rdm, calc_2site_rdm = partial trace of |Psi><Psi|) no longer describe the code; dense oracle",
                      {"snippet_output": out_rdm[-800:], "oracle_example": ex}, found=True, repro=RDM_REVERT_REPRO)
    for k, fl in classes.items():
        if k in rdm_classes:
            continue
        f = fl[0]
        repro = ("import sys\nsys.path.insert(0, '/verif/harness/impl')\nimport c07_oracle\n"
                 "sys.exit(c07_oracle.replay(%d, %d))\n" % (seed, f.get("idx", 0)))
        ctx.violation("oracle-" + k, "dense oracle: %s differs from the dense state-vector value" % k,
                      {"n_failures": len(fl), "first": {kk: vv for kk, vv in f.items() if kk != "tb"}}, found=True, repro=repro)
    if corr_bad or proofs_broken:
        broken = []
        if proofs_broken:
            broken.append("theorem(s) of Props/C07.v: " + (", ".join(o["name"] for o in ctx.obligations if not o["ok"]) or "build failed"))
        if corr_bad:
            broken.append("correspondence Model/Env.v + Model/FreqCache.v vs mps.py (expectation / expectations / cache plan / split / cached tensors)")
        # a failing input on the real code, if the implementation disagrees with itself or with the oracle
        impl_self = [b for b in corr_bad if b.get("what", "").startswith("implementation: fast path differs")]
        found = bool(impl_self)
        repro = None
        if found:
            repro = ("import sys, json, subprocess\nsys.path.insert(0, '/verif/harness/impl')\nimport c07_tie\n"
                     "c = c07_tie.make_case(%d, %d)\nbad = c['impl']['fast'] != c['impl']['one']\nprint(c['impl']['fast'], c['impl']['one'])\nsys.exit(1 if bad else 0)\n"
                     % (seed, impl_self[0]["case"]))
        ctx.violation("expectation-cache-correspondence", "; ".join(broken),
                      {"coq_log_tail": (log or "")[-1500:] if proofs_broken else "", "mismatches": corr_bad[:8], "n_mismatches": len(corr_bad)},
                      found=found, repro=repro)
    if or_crash and not or_fail and not corr_bad:
        ctx.notes.append("oracle generator crashes (not counted as evidence): %s" % json.dumps(or_crash[:2], default=str)[:1500])
        if len(or_crash) > max(3, or_n // 10):
            ctx.violation("oracle-generator", "dense oracle could not run on a large part of its cases (machinery fault)",
                          {"first": or_crash[0]}, found=False)
    return {
        "evaluations": evaluations + or_n,
        "distinct_nontrivial": nontrivial + or_nontriv,
        "rule": "tie: a case (integer state, operator list) counts when model and implementation were compared on values, plan keys, split indices and cached tensors, "
                "non-trivial when some expectation value is non-zero and at least one environment was cached; oracle: a case counts as non-trivial when at least one operator has a dense value above 1e-6 of the norm product",
        "samples": samples[:2] + or_samples[:1],
        "exhaustive": False,
        "input_distribution": {"tie_cases": evaluations, "tie_nontrivial": nontrivial, "tie_hist": hist,
                               "oracle_cases": or_n, "oracle_checks": or_checks, "oracle_nontrivial": or_nontriv, "oracle_hist": or_hist,
                               "oracle_failures": len(or_fail), "oracle_generator_crashes": len(or_crash), "tie_mismatches": len(corr_bad)},
    }
