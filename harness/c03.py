"""C03: state and operator arithmetic agrees with dense linear algebra in any gauge.

1. build Model/Mp.v, Model/Qn.v, Proofs/MpProofs.v, Proofs/QnProofs.v, Props/C03.v (Print Assumptions parsed)
2. integer stream: harness/impl/c03_int.py exports operands/results of random operation sequences on integer data;
   the Coq model recomputes every result from the operands (tensors, coeff, qn, qnidx, qntot, to_right) and counts
   mismatches exactly; a mismatching step is replayed on the real code against dense NumPy (c03_replay.py)
3. float stream / dense oracle (always): harness/impl/c03_dense.py
4. one fixed probe for the known finding add:nearly-equal-prefactors"""
import json
import os

import common

NEARLY_EQUAL_PROBE = r'''
import sys, numpy as np
from renormalizer import Model, Mps, BasisHalfSpin
m = Model([BasisHalfSpin("s%d" % i, sigmaqn=[0, 1]) for i in range(3)], [])
np.random.seed(0)
a = Mps.random(m, 1, 3); b = Mps.random(m, 1, 3)
a.coeff = 1.0; b.coeff = 1.000005
ref = a.coeff * a.todense() + b.coeff * b.todense()
c = a.add(b)
err = np.linalg.norm(c.coeff * c.todense() - ref) / np.linalg.norm(ref)
print("Mps.add with prefactors 1.0 and 1.000005: relative error of the sum", err)
sys.exit(1 if err > 1e-9 else 0)
'''


# ----------------------------------------------------------------------------------------------- Coq text
def z(n):
    n = int(n)
    return str(n) if n >= 0 else "(%d)" % n


def nat(n):
    return "%d%%nat" % int(n)


def nested(v, depth, leaf):
    if depth == 0:
        return leaf(v)
    return "[" + "; ".join(nested(x, depth - 1, leaf) for x in v) + "]"


def tensor(t, rank):
    if t["c"]:
        return nested(t["v"], rank, lambda p: "(%s, %s)" % (z(p[0]), z(p[1])))
    return "(zr%d %s)" % (rank, nested(t["v"], rank, z))


def chain(obj):
    rank = 3 if obj["kind"] == "mps" else 4
    return "[" + "; ".join("(%s, %s)" % (nat(sh[-1]), tensor(t, rank)) for t, sh in zip(obj["tensors"], obj["shapes"])) + "]"


def meta(obj):
    qn = nested(obj["qn"], 3, z)
    return "(@Build_meta VLab %s %s %s %s)" % (qn, nat(obj["qnidx"]), nested(obj["qntot"], 1, z), "true" if obj["to_right"] else "false")


def gi(c):
    return "(g %s %s)" % (z(c[0]), z(c[1]))


def natlist(xs):
    return "[" + "; ".join(nat(x) for x in xs) + "]"


def step_defs(k, st):
    """Coq definitions for step k; defines s<k> : list Z = [tensor mismatches; coeff mismatches; label mismatches; operand-after mismatches]"""
    op = st["op"]
    ins, outs = st["in"], st["out"]
    n = st["nsite"]
    dps = natlist(st["pdims"])
    L = []
    p = "s%d_" % k
    kinds = [o["kind"] for o in ins]
    for j, o in enumerate(ins):
        r = 3 if o["kind"] == "mps" else 4
        L.append("Definition %si%d : lchain%d := %s." % (p, j, r, chain(o)))
        L.append("Definition %smi%d : meta VLab := %s." % (p, j, meta(o)))
    for j, o in enumerate(outs):
        r = 3 if o["kind"] == "mps" else 4
        L.append("Definition %so%d : lchain%d := %s." % (p, j, r, chain(o)))
        L.append("Definition %smo%d : meta VLab := %s." % (p, j, meta(o)))

    def f(j):
        return "(to_fun%d %si%d)" % (3 if kinds[j] == "mps" else 4, p, j)

    def tl(kind, expr):
        if kind == "mps":
            return "(to_list3 1 %s %s)" % (dps, expr)
        return "(to_list4 1 %s %s %s)" % (dps, dps, expr)

    def diff(kind, expr, j):
        return "(diff_chain%d %s %so%d)" % (3 if kind == "mps" else 4, tl(kind, expr), p, j)

    def meq(expr, j):
        return "(b2z (meta_eqb %s %smo%d))" % (expr, p, j)

    def ceq(expr, c):
        return "(b2z (gi_eqb %s %s))" % (expr, gi(c))

    t = c = l = a = "0"
    if op in ("add", "dmadd"):
        kind = kinds[0]
        r = "3" if kind == "mps" else "4"
        same = "true" if st["same"] else "false"
        ka, kb = nat(ins[0]["qnidx"]), nat(ins[1]["qnidx"])
        ca, cb = gi(ins[0]["coeff"]), gi(ins[1]["coeff"])
        L.append("Definition %sr := mps_add%s %s %s %s %s %s %s %s." % (p, r, same, ka, kb, ca, cb, f(0), f(1)))
        t = diff(kind, "(fst %sr)" % p, 0)
        c = ceq("(snd %sr)" % p, outs[0]["coeff"])
        l = meq("(add_meta %s %smi0 %smi1)" % (nat(n), p, p), 0)
        # operands after the call: folded in place iff not same
        parts = []
        for j, (kq, cq) in enumerate(((ka, ca), (kb, cb))):
            e = f(j) if st["same"] else "(scale_at%s %s %s %s)" % (r, kq, cq, f(j))
            parts.append(diff(kind, e, j + 1))
            parts.append(ceq(cq if st["same"] else "(g 1 0)", outs[j + 1]["coeff"]))
            parts.append(meq("%smi%d" % (p, j), j + 1))
        a = "(" + " + ".join(parts) + ")"
        # witness validity: same = true requires exactly equal prefactors
        if st["same"] and ins[0]["coeff"] != ins[1]["coeff"]:
            a = "(1 + %s)" % a
    elif op == "distance":
        same = "true" if st["same"] else "false"
        ka, kb = nat(ins[0]["qnidx"]), nat(ins[1]["qnidx"])
        ca, cb = gi(ins[0]["coeff"]), gi(ins[1]["coeff"])
        L.append("Definition %sr : car GiRing := mps_dist2_3 %s %s %s %s %s %s %s %s." % (p, same, dps, ka, kb, ca, cb, f(0), f(1)))
        # the model's exact value is printed (re, im) and compared with the implementation's float by the harness
        t, c = "(fst %sr)" % p, "(snd %sr)" % p
        parts = []
        for j, (kq, cq) in enumerate(((ka, ca), (kb, cb))):
            e = f(j) if st["same"] else "(scale_at3 %s %s %s)" % (kq, cq, f(j))
            parts.append(diff("mps", e, j))
            parts.append(ceq(cq if st["same"] else "(g 1 0)", outs[j]["coeff"]))
            parts.append(meq("%smi%d" % (p, j), j))
        a = "(" + " + ".join(parts) + ")"
        if st["same"] and ins[0]["coeff"] != ins[1]["coeff"]:
            a = "(1 + %s)" % a
    elif op == "dm":
        t = diff("mpdm", "(from_mps4 %s)" % f(0), 0)
        c = ceq(gi(ins[0]["coeff"]), outs[0]["coeff"])
        l = meq("%smi0" % p, 0)
        a = "0" if st.get("dtype_ok", True) else "1"
    elif op == "opadd":
        t = diff("mpo", "(add4 %s %s)" % (f(0), f(1)), 0)
        l = meq("(add_meta %s %smi0 %smi1)" % (nat(n), p, p), 0)
    elif op in ("scale", "opscale"):
        kind = kinds[0]
        r = "3" if kind == "mps" else "4"
        t = diff(kind, "(scale_at%s %s %s %s)" % (r, nat(ins[0]["qnidx"]), gi(st["val"]), f(0)), 0)
        c = ceq(gi(ins[0]["coeff"]), outs[0]["coeff"])
        l = meq("%smi0" % p, 0)
    elif op in ("conj", "opconj"):
        kind = kinds[0]
        r = "3" if kind == "mps" else "4"
        t = diff(kind, "(conj%s %s)" % (r, f(0)), 0)
        c = ceq("(gi_cj %s)" % gi(ins[0]["coeff"]), outs[0]["coeff"])
        l = meq("%smi0" % p, 0)
    elif op == "conj_trans":
        t = diff("mpo", "(conj_trans4 %s)" % f(0), 0)
        l = meq("(conj_trans_meta %smi0)" % p, 0)
    elif op == "apply":
        t = diff("mps", "(apply3 1 %s %s %s)" % (dps, f(0), f(1)), 0)
        c = ceq(gi(ins[1]["coeff"]), outs[0]["coeff"])
        l = meq("(apply_meta %s %smi0 %smi1)" % (nat(n), p, p), 0)
    elif op in ("opop", "dmapply_l"):
        t = diff(kinds[1], "(apply4 1 %s %s %s)" % (dps, f(0), f(1)), 0)
        c = ceq(gi(ins[1]["coeff"]), outs[0]["coeff"])
        l = meq("(apply_meta %s %smi0 %smi1)" % (nat(n), p, p), 0)
    elif op == "dmapply_r":
        t = diff("mpdm", "(apply4 1 %s %s %s)" % (dps, f(0), f(1)), 0)
        c = ceq(gi(ins[0]["coeff"]), outs[0]["coeff"])
        l = meq("(mpdm_apply_meta %smi0 (bdims 1 %s))" % (p, f(1)), 0)
    elif op == "move":
        kind = kinds[0]
        t = diff(kind, f(0), 0)
        c = ceq(gi(ins[0]["coeff"]), outs[0]["coeff"])
        l = meq("(move_qnidx %s %smi0 %s)" % (nat(n), p, nat(st["dst"])), 0)
    elif op == "dot":
        t = ceq("(dot3 %s %s %s)" % (dps, f(0), f(1)), st["val"])
    elif op in ("opdot", "dmdot"):
        t = ceq("(dot4 %s %s %s %s)" % (dps, dps, f(0), f(1)), st["val"])
    else:
        raise ValueError(op)
    L.append("Definition s%d : list Z := [%s; %s; %s; %s]." % (k, t, c, l, a))
    return "\n".join(L)


HEADER = """From Coq Require Import ZArith List Bool.
Import ListNotations.
From RV Require Import Base.CRing Base.BigSum Model.Chain Model.Mp Model.Qn.
Open Scope Z_scope.
Definition b2z (b : bool) : Z := if b then 0 else 1.
Definition g (a b : Z) : car GiRing := (a, b).
"""


def cases_file(steps):
    body = [HEADER]
    for k, st in enumerate(steps):
        body.append(step_defs(k, st))
    body.append("Eval vm_compute in (%s)." % (" ++ ".join("s%d" % k for k in range(len(steps))) or "@nil Z"))
    return "\n".join(body) + "\n"


def operands_after_mismatch(st):
    """operands exported AFTER the call must equal the operands before it (tensors, coeff, qn, qnidx, qntot, to_right);
    the prefactor folding of Mps.add / MpDm.add / Mps.distance is the one documented exception and is compared against the
    model inside Coq.  Any OTHER live object that changed during the step counts as well."""
    n = len(st.get("live_changed") or [])
    after = st.get("after")
    if st["op"] in ("add", "dmadd", "distance", "move"):
        return n
    if after is None:
        return n + 1
    return n + sum(1 for a_, b_ in zip(after, st["in"]) if a_ != b_)


def load_result(r):
    """impl scripts hand large results over in a file (the harness reads the pipe only after exit)"""
    if r is None or "file" not in r:
        return r
    try:
        with open(r["file"]) as f:
            res = json.load(f)
        os.remove(r["file"])
        return res
    except Exception:
        return None


# ----------------------------------------------------------------------------------------------- the check
def run(ctx):
    quick = ctx.tier == "quick"
    ctx.trusted += ["correspondence harness/c03.py + harness/impl/c03_int.py: export of site tensors / qn / qnidx / qntot / to_right / coeff of operands and results on integer data, rendering as Coq terms (exact comparison inside Coq)",
                    "np.allclose outcome of the prefactor test taken as a witness (validity: same => exactly equal integer prefactors, checked)",
                    "modelled, not verified: floating-point round-off of the same operations (dense oracle at 1e-9), the final sqrt / .real of distance and norm",
                    "dense oracle harness/impl/c03_dense.py, c03_replay.py (search only; not in the trusted base of any theorem)"]
    # 1. build + theorems
    ok_build, log = ctx.coq_make(["Proofs/MpProofs.vo", "Proofs/QnProofs.vo"])
    ok_props = False
    if ok_build:
        ok_props, log = ctx.props("Props/C03.v")
    else:
        ctx.obligations.append({"name": "C03 (build of Model/Mp.v, Model/Qn.v, Proofs/MpProofs.v, Proofs/QnProofs.v)", "file": "Proofs/QnProofs.v", "ok": False, "assumptions": None})

    # 2. integer stream
    nsh, ncase = (6, 14) if quick else (14, 60)
    seeds = [ctx.rng.randrange(10 ** 6) for _ in range(nsh)]
    tmp = "/tmp/verif_c03_%d" % os.getpid()
    os.makedirs(tmp, exist_ok=True)
    res = ctx.impl_par("c03_int.py", [{"seed": s, "ncases": ncase, "out": "%s/int_%d.json" % (tmp, i)} for i, s in enumerate(seeds)], timeout=600)
    steps, impl_fail = [], []
    stats = {}
    for (rc, r, out) in res:
        r = load_result(r)
        if r is None:
            impl_fail.append(out[-800:])
            continue
        for st in r["steps"]:
            if "exception" in st:
                impl_fail.append({"op": st["op"], "exception": st["exception"], "tb": st.get("tb", "")[-500:]})
            else:
                steps.append(st)
        for kk, v in r["stats"].items():
            if isinstance(v, dict):
                d = stats.setdefault(kk, {})
                for a_, b_ in v.items():
                    d[a_] = d.get(a_, 0) + b_
            else:
                stats[kk] = stats.get(kk, 0) + v
    mism = []            # (step, counts)
    corr_err = []
    n_eval = 0
    if ok_build and steps:
        per = 20
        files = []
        for i in range(0, len(steps), per):
            files.append(("int_%03d" % (i // per), cases_file(steps[i:i + per])))
        outs = ctx.coq_eval_many(files, timeout=900, par=14)
        for fi, (name, _) in enumerate(files):
            rc, out = outs[name]
            vals = common.parse_Z_list(out) if rc == 0 else None
            chunk = steps[fi * per:(fi + 1) * per]
            if vals is None or len(vals) != 4 * len(chunk):
                corr_err.append({"file": name, "rc": rc, "out": out[-600:]})
                continue
            for k, st in enumerate(chunk):
                n_eval += 1
                v = vals[4 * k:4 * k + 4]
                if st["op"] == "distance":
                    # model: exact |ca a - cb b|^2 (real, non-negative); implementation: its square root in floating point
                    d2 = st["fval"] ** 2
                    okd = v[1] == 0 and v[0] >= 0 and abs(d2 - v[0]) <= 1e-9 * max(1.0, abs(v[0]))
                    v = [0 if okd else 1, 0, 0, v[3]]
                v = list(v)
                v[3] += operands_after_mismatch(st)
                if any(v):
                    mism.append((st, v))
    nontriv = sum(1 for st in steps if st.get("nontrivial"))

    # replay mismatching steps on the real code
    replay_found = {}
    if mism:
        todo = []
        seen_ops = {}
        for st, v in mism:
            if seen_ops.get(st["op"], 0) < 6:
                seen_ops[st["op"]] = seen_ops.get(st["op"], 0) + 1
                todo.append(st)
        rc, r, out = ctx.impl("c03_replay.py", {"steps": [{k_: v_ for k_, v_ in st.items() if k_ not in ("out", "after", "live_changed")} for st in todo]}, timeout=300)
        codes = r["codes"] if r else [None] * len(todo)
        for st, code in zip(todo, codes):
            if code and st["op"] not in replay_found:
                slim = {k_: v_ for k_, v_ in st.items() if k_ not in ("out", "after", "live_changed")}
                replay_found[st["op"]] = ("import sys, json\nsys.path.insert(0, '/verif/harness/impl')\nimport c03_replay\n"
                                          "step = json.loads(r'''%s''')\nsys.exit(c03_replay.replay(step))\n" % json.dumps(slim))

    # 3. dense oracle
    dsh, dcase = (12, 45) if quick else (14, 500)
    dseeds = [ctx.rng.randrange(10 ** 6) for _ in range(dsh)]
    dres = ctx.impl_par("c03_dense.py", [{"seed": s, "ncases": dcase, "maxsite": 5, "out": "%s/dense_%d.json" % (tmp, i)} for i, s in enumerate(dseeds)],
                        timeout=1200 if quick else 3000)
    dfail = {}
    dstats = {"cases": 0, "checks": 0, "nontrivial": 0, "ops": {}, "random_fpe": 0}
    for (rc, r, out) in dres:
        r = load_result(r)
        if r is None:
            dfail.setdefault("oracle-script:crash", {"key": "oracle-script:crash", "detail": {"out": out[-800:]}, "repro": None})
            continue
        for kk in ("cases", "checks", "nontrivial", "random_fpe"):
            dstats[kk] += r["stats"].get(kk, 0)
        for a_, b_ in r["stats"].get("ops", {}).items():
            dstats["ops"][a_] = dstats["ops"].get(a_, 0) + b_
        for fl in r["failures"]:
            dfail.setdefault(fl["key"], fl)

    try:
        os.rmdir(tmp)
    except OSError:
        pass
    # 4. fixed probe (known finding)
    rcp, outp = common.sh([common.IMPL_PY, "-c", NEARLY_EQUAL_PROBE], env=common.impl_env(), cwd="/", timeout=120)
    if rcp != 0:
        ctx.violation("add:nearly-equal-prefactors", "dense oracle only (fixed probe): Mps.add treats prefactors within np.allclose tolerance as equal",
                      {"output": outp[-400:]}, found=True, repro=NEARLY_EQUAL_PROBE)

    # ---- report
    if not (ok_build and ok_props):
        bad = ", ".join(o["name"] for o in ctx.obligations if not o["ok"])
        ctx.violation("coq-build", "theorem(s) of Props/C03.v: " + bad, {"coq_log_tail": log[-1500:] if isinstance(log, str) else ""}, found=False)
    if corr_err:
        ctx.violation("corr:coq-eval", "correspondence (cases file did not evaluate)", {"errors": corr_err[:3]}, found=False)
    if impl_fail:
        ctx.violation("corr:impl-exception", "correspondence (implementation raised on integer data)", {"failures": impl_fail[:3]}, found=False)
    oracle_used = set()
    by_op = {}
    for st, v in mism:
        by_op.setdefault(st["op"], []).append((st, v))
    opclass = {"add": ["add:", "sub:"], "dmadd": ["mpdm-add:"], "opadd": ["opadd:"], "conj_trans": ["conj_trans:"], "apply": ["apply:", "contract:"],
               "opop": ["opop:"], "scale": ["scale:"], "opscale": ["opscale:"], "conj": ["conj:"], "opconj": ["conj:"], "dot": ["dot:"],
               "opdot": ["opdot:"], "dmdot": ["opdot:"], "distance": ["distance:"], "dm": ["mpdm-from-mps:"], "dmapply_l": ["mpo-apply-mpdm:"], "dmapply_r": ["mpdm-apply-mpo:"], "move": ["operand-gauge-history:"]}
    for op, lst in by_op.items():
        st, v = lst[0]
        which = [n_ for n_, x in zip(("site tensors", "coeff", "labels (qn/qnidx/qntot/to_right)", "operands after the call"), v) if x]
        thm = {"add": "C03_add_state / C03_add_valid / C03_mps_add", "opadd": "C03_add_operator / C03_add_valid_operator", "dmadd": "C03_mpdm_add / C03_add_valid_operator",
               "conj_trans": "C03_conj_trans / C03_conj_trans_valid", "apply": "C03_apply_state / C03_apply_valid", "opop": "C03_apply_operator / C03_apply_valid_operator",
               "dmapply_l": "C03_apply_operator / C03_apply_valid_operator", "dmapply_r": "C03_apply_operator / C03_mpdm_apply_valid",
               "scale": "C03_scale_state / C03_scale_valid", "opscale": "C03_scale_operator", "conj": "C03_conj_state / C03_conj_valid", "opconj": "C03_conj_operator",
               "dot": "C03_dot_state", "opdot": "C03_dot_operator", "dmdot": "C03_dot_operator", "move": "C03_move_qnidx_meaning",
               "distance": "C03_mps_distance / C03_distance_state", "dm": "C03_mpdm_from_mps"}.get(op, "?")
        broken = "correspondence Model/Mp.v+Qn.v vs implementation for `%s` (%s differ); the theorems %s no longer describe the code" % (op, ", ".join(which), thm)
        detail = {"op": op, "mismatch_counts [tensors, coeff, labels, operands-after]": v, "mismatching_steps": len(lst),
                  "impl_result_labels": {"qn": st["out"][0]["qn"], "qnidx": st["out"][0]["qnidx"], "qntot": st["out"][0]["qntot"]} if st.get("out") else None,
                  "impl_value": st.get("fval", st.get("val")),
                  "operand_centres": [o["qnidx"] for o in st["in"]],
                  "operand_qntot_before_after": [[b_["qntot"], a_["qntot"]] for b_, a_ in zip(st["in"], st.get("after") or [])],
                  "other_live_objects_changed": len(st.get("live_changed") or [])}
        repro = replay_found.get(op)
        key = "corr:" + op
        if repro is None:
            for pref in opclass.get(op, []):
                for kk, fl in dfail.items():
                    if kk.startswith(pref) and fl.get("repro"):
                        repro = fl["repro"]
                        oracle_used.add(kk)
                        detail["dense_oracle"] = fl["detail"]
                        break
                if repro:
                    break
        ctx.violation(key, broken, detail, found=repro is not None, repro=repro)
    for kk, fl in dfail.items():
        if kk in oracle_used:
            continue
        ctx.violation(kk, "dense oracle only (float stream): %s" % kk, fl["detail"], found=fl.get("repro") is not None, repro=fl.get("repro"))

    samples = []
    for st in steps[:3]:
        samples.append({"op": st["op"], "nsite": st["nsite"], "ncomp": st["ncomp"], "pdims": st["pdims"],
                        "operand_qnidx": [o["qnidx"] for o in st["in"]], "operand_bond_dims": [[s_[0] for s_ in o["shapes"]] + [o["shapes"][-1][-1]] for o in st["in"]],
                        "result_qntot": st["out"][0]["qntot"] if st.get("out") else None})
    hist = {}
    for st in steps:
        hist[st["op"]] = hist.get(st["op"], 0) + 1
    return {"evaluations": n_eval + dstats["checks"], "distinct_nontrivial": nontriv + dstats["nontrivial"],
            "rule": "integer stream: one evaluation = one operation step recomputed by the Coq model and compared exactly (tensors, coeff, qn, qnidx, qntot, to_right; operands after the call for Mps.add); "
                    "non-trivial = operands with different qnidx, or an operator of non-zero charge. float stream: one evaluation = one dense comparison of a result (as returned and after 4 lossless re-gaugings); "
                    "non-trivial by the same rule",
            "samples": samples, "exhaustive": False,
            "input_distribution": {"integer_steps_by_op": hist, "integer_steps": len(steps), "integer_mismatches": len(mism), "integer_generator": stats,
                                   "float_cases": dstats["cases"], "float_checks": dstats["checks"], "float_ops": dstats["ops"],
                                   "float_nontrivial": dstats["nontrivial"], "rejected_Mps.random_raised": dstats["random_fpe"] + stats.get("random_fpe", 0)}}
