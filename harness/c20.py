"""C20: bipartite vertex cover is valid and minimum, so operator bonds are minimal.

1. build Proofs/CoverProofs.vo, compile Props/C20.v (one obligation per theorem, Print Assumptions parsed)
2. correspondence: bipartite_vertex_cover (both algorithms) vs Model/Cover.v on the SAME graphs:
     * every adjacency list with 1..3 (thorough: 1..4) rows over V = {0,1,2,3}  (exhaustive)
     * seeded random / structured graphs up to 12 x 12 (isolated vertices, unbalanced sides,
       shuffled and occasionally duplicated neighbour entries, numpy rows as _decompose_graph passes them)
     * a degraded-witness stream: new_konig driven with valid NON-maximum matchings, to compare where
       its asserts fire with where the model returns None
   SciPy's matching is logged and handed to the model as a witness (validity = valid_matching).
   Covers are compared as vertex SETS.
3. oracle (always): brute-force minimum cover for every graph; Mpo(model, terms, algo).bond_dims for
   random operator tables vs brute-force minimum cover of the term-incidence matrix at every cut.
"""
import itertools
import json
import os
import shutil
import tempfile

import sys

import common
sys.path.insert(0, os.path.join(common.VERIF, "tx"))
import coveradj as txadj

ALGOS = ["Hopcroft-Karp", "Hungarian"]
NSYM = 5            # index into c20_bond.SYMS; 0 = identity

HEADER = r'''From Coq Require Import List ZArith.
Import ListNotations.
From RV Require Import Model.Cover.
Definition enc_cover (r : option (list nat * list nat)) : list Z :=
  match r with
  | None => [(-1)%Z]
  | Some (cu, cv) => [Z.of_nat (length cu)] ++ map Z.of_nat cu ++ [Z.of_nat (length cv)] ++ map Z.of_nat cv
  end.
Definition enc_m (m : option mtab) : list Z :=
  match m with
  | None => [(-1)%Z]
  | Some l => Z.of_nat (length l) :: map (fun o => match o with Some u => Z.of_nat (S u) | None => 0%Z end) l
  end.
Definition run_case (c : graph * mtab) : list Z :=
  let (bg, w) := c in
  [Z.of_nat (fst (hk_table_lengths bg)); Z.of_nat (snd (hk_table_lengths bg));
   Z.of_nat (hk_nU bg); Z.of_nat (nV_of bg); (if valid_matching bg (nV_of bg) w then 1 else 0)%Z;
   Z.of_nat (msize (nV_of bg) w)]
  ++ enc_cover (vertex_cover_hk no_rot bg w) ++ enc_cover (vertex_cover_hk (fun _ l => rev l) bg w)
  ++ enc_m (hungarian bg) ++ enc_cover (vertex_cover_hungarian no_rot bg) ++ [(-7)%Z].
Definition N := @None nat.
Definition S_ := @Some nat.
'''

REPRO_CHAIN = r'''
import sys
from renormalizer.lib import bipartite_vertex_cover
n = %(n)d                      # u_i ~ v_i, v_{i+1} (i < n-1), u_{n-1} ~ v_0 : a tree with a perfect matching
g = [[i, i + 1] for i in range(n - 1)] + [[0]]
ub, vb = bipartite_vertex_cover(g, algo=%(algo)r)       # RecursionError makes this script fail
cu = {i for i, b in enumerate(ub) if b}; cv = {i for i, b in enumerate(vb) if b}
valid = all(u in cu or v in cv for u, adj in enumerate(g) for v in adj)
print("valid", valid, "size", len(cu) + len(cv), "minimum (perfect matching exists)", n)
sys.exit(0 if valid and len(cu) + len(cv) == n else 1)
'''

REPRO_COVER = r'''
import sys
from renormalizer.lib import bipartite_vertex_cover
g = %(g)r
algo = %(algo)r
ub, vb = bipartite_vertex_cover(g, algo=algo)     # an exception here also makes this script fail
cu = {i for i, b in enumerate(ub) if b}; cv = {i for i, b in enumerate(vb) if b}
uncovered = [(u, v) for u, adj in enumerate(g) for v in adj if u not in cu and v not in cv]
best = min(bin(m).count("1") + len({v for u, adj in enumerate(g) if not m >> u & 1 for v in adj}) for m in range(1 << len(g)))
print("cover U", sorted(cu), "V", sorted(cv), "uncovered edges", uncovered, "brute-force minimum", best)
sys.exit(1 if uncovered or len(cu) + len(cv) != best else 0)
'''


# ----------------------------------------------------------------------------- case generation
def exhaustive_graphs(max_rows):
    out = []
    for nU in range(1, max_rows + 1):
        for rows in itertools.product(range(16), repeat=nU):
            out.append([[v for v in range(4) if (m >> v) & 1] for m in rows])
    return out


def random_graph(rng):
    kind = rng.choice(["er", "er", "er", "sparse", "dense", "matching+", "star", "path", "complete", "halfempty", "crown",
                       "double-star", "double-star", "blocks"])
    nU = rng.randint(1, 12)
    nV = rng.randint(1, 12)
    if kind == "er":
        p = rng.choice([0.1, 0.2, 0.3, 0.5, 0.7])
        g = [[v for v in range(nV) if rng.random() < p] for _ in range(nU)]
    elif kind == "sparse":
        g = [[] for _ in range(nU)]
        for _ in range(rng.randint(1, max(1, (nU + nV) // 2))):
            u, v = rng.randrange(nU), rng.randrange(nV)
            if v not in g[u]:
                g[u].append(v)
    elif kind == "dense":
        g = [[v for v in range(nV) if rng.random() < 0.9] for _ in range(nU)]
    elif kind == "matching+":
        k = min(nU, nV)
        perm = list(range(nV))
        rng.shuffle(perm)
        g = [[perm[u]] if u < k else [] for u in range(nU)]
        for _ in range(rng.randint(0, nU)):
            u, v = rng.randrange(nU), rng.randrange(nV)
            if v not in g[u]:
                g[u].append(v)
    elif kind == "star":
        c = rng.randrange(nU)
        g = [[] for _ in range(nU)]
        g[c] = list(range(nV))
        cv = rng.randrange(nV)
        for u in range(nU):
            if rng.random() < 0.6 and cv not in g[u]:
                g[u].append(cv)
    elif kind == "path":
        g = [[v for v in (u - 1, u) if 0 <= v < nV] for u in range(nU)]
    elif kind == "complete":
        g = [list(range(nV)) for _ in range(nU)]
    elif kind == "halfempty":
        g = [[v for v in range(nV) if rng.random() < 0.5] if rng.random() < 0.5 else [] for _ in range(nU)]
    elif kind == "double-star":        # hubs on both sides: the minimum cover mixes U and V vertices
        hubs_u = rng.sample(range(nU), rng.randint(1, min(3, nU)))
        hubs_v = rng.sample(range(nV), rng.randint(1, min(3, nV)))
        g = [[] for _ in range(nU)]
        for u in range(nU):
            for v in range(nV):
                if (u in hubs_u or v in hubs_v) and rng.random() < 0.7:
                    g[u].append(v)
    elif kind == "blocks":             # two independent blocks, one wide, one tall
        a, b = rng.randint(0, nU), rng.randint(0, nV)
        g = [[v for v in (range(b) if u < a else range(b, nV)) if rng.random() < 0.6] for u in range(nU)]
    else:  # crown: K_{n,n} minus a perfect matching
        n = min(nU, nV)
        g = [[v for v in range(n) if v != u] if u < n else [] for u in range(nU)]
    # isolated vertices: empty some rows, leave some columns unused (incl. trailing ones)
    if rng.random() < 0.35:
        for u in range(nU):
            if rng.random() < 0.25:
                g[u] = []
    if rng.random() < 0.3 and nU > 1:
        g[-1] = []                      # trailing isolated U vertex (shorter SciPy tables)
    for adj in g:
        rng.shuffle(adj)
    if rng.random() < 0.05:             # multigraph entry (a repeated neighbour)
        rows = [u for u in range(nU) if g[u]]
        if rows:
            u = rng.choice(rows)
            g[u].append(rng.choice(g[u]))
    if not any(g) and rng.random() < 0.9:
        return random_graph(rng)        # keep only a few edge-less random graphs
    return g, kind


def is_valid_matching(g, m):
    """independent python predicate: table of length nV_of(g), entries are edges, no u used twice"""
    nV = max((max(adj) for adj in g if adj), default=-1) + 1
    if len(m) != nV:
        return False
    used = [x for x in m if x is not None and x >= 0]
    if len(used) != len(set(used)):
        return False
    return all(x is None or x < 0 or (x < len(g) and v in g[x]) for v, x in enumerate(m))


def greedy_matching(g, rng, drop):
    """a valid matching table of length nV_of(g) (-1 = unmatched), not necessarily maximum"""
    nV = max((max(adj) for adj in g if adj), default=-1) + 1
    m = [-1] * nV
    order = list(range(len(g)))
    rng.shuffle(order)
    for u in order:
        cand = [v for v in g[u] if m[v] == -1]
        if cand and rng.random() >= drop:
            m[rng.choice(cand)] = u
    return m


def n_edges(g):
    return sum(len(set(adj)) for adj in g)


def coq_graph(g):
    return "[" + "; ".join("[" + "; ".join(str(v) for v in adj) + "]" for adj in g) + "]"


def coq_mtab(m):
    return "[" + "; ".join("N" if (x is None or x < 0) else "S_ %d" % x for x in m) + "]"


def decode_cases(flat, n):
    """inverse of run_case; returns list of dicts or None on a framing error"""
    out = []
    pos = 0

    def cover():
        nonlocal pos
        if flat[pos] == -1:
            pos += 1
            return None
        k = flat[pos]
        cu = flat[pos + 1:pos + 1 + k]
        pos += 1 + k
        k = flat[pos]
        cv = flat[pos + 1:pos + 1 + k]
        pos += 1 + k
        return [list(cu), list(cv)]

    try:
        for _ in range(n):
            d = {"hk_lenU": flat[pos], "hk_lenV": flat[pos + 1], "hk_nU": flat[pos + 2], "nV": flat[pos + 3],
                 "valid": flat[pos + 4], "msize": flat[pos + 5]}
            pos += 6
            d["hk"] = cover()
            d["hk_rev"] = cover()
            if flat[pos] == -1:
                d["hung"] = None
                pos += 1
            else:
                k = flat[pos]
                d["hung"] = [x - 1 for x in flat[pos + 1:pos + 1 + k]]
                pos += 1 + k
            d["hu"] = cover()
            if flat[pos] != -7:
                return None
            pos += 1
            out.append(d)
    except IndexError:
        return None
    return out if pos == len(flat) else None


def random_bond_case(rng):
    kind = rng.choice(["random", "random", "random", "pairwise", "nn", "shared-tail", "dup",
                       "product", "product", "unit", "outer"])
    n = rng.randint(2, 6)
    terms = []
    coef = lambda: rng.choice([0.25, 0.5, 1.0, 1.5, 2.0, 3.0])
    if kind == "product":
        # NON-GENERIC coefficients: an expanded product of sums, e.g. (X0+Z0)(X1+Z1) as four unit terms.
        # The coefficient matrix of every cut has numerical rank 1 per factor, the incidence matrix a complete block.
        nfac = rng.randint(1, 2)
        for _ in range(nfac):
            per_site = []
            for i in range(n):
                if rng.random() < 0.6:
                    k = rng.randint(2, 3)
                    per_site.append([(sy, rng.choice([1.0, 1.0, 1.0, 0.5, 2.0])) for sy in rng.sample(range(0, NSYM), k)])
                else:
                    per_site.append([(rng.randint(0, NSYM - 1), 1.0)])
            combos = list(itertools.product(*per_site))
            if len(combos) > 16:
                combos = combos[:16] if rng.random() < 0.5 else rng.sample(combos, 16)
            pref = rng.choice([1.0, 1.0, 2.0])
            for combo in combos:
                c = pref
                for _, w in combo:
                    c *= w
                terms.append([[sy for sy, _ in combo], c])
        return {"n": n, "terms": terms, "kind": kind}
    if kind == "unit":                  # random strings, all coefficients equal
        alpha = [0] + rng.sample(range(1, NSYM), rng.randint(1, 3))
        c = rng.choice([1.0, 1.0, 0.5])
        for _ in range(rng.randint(2, 14)):
            terms.append([[rng.choice(alpha) for _ in range(n)], c])
        return {"n": n, "terms": terms, "kind": kind}
    if kind == "outer":                 # sum_ij a_i b_j L_i R_j : proportional rows / columns across one cut
        n = rng.randint(2, 6)
        k = rng.randint(1, n - 1)
        Ls = list({tuple(rng.randint(0, NSYM - 1) for _ in range(k)) for _ in range(rng.randint(2, 4))})
        Rs = list({tuple(rng.randint(0, NSYM - 1) for _ in range(n - k)) for _ in range(rng.randint(2, 4))})
        a = [rng.choice([0.5, 1.0, 2.0]) for _ in Ls]
        b = [rng.choice([0.5, 1.0, 2.0]) for _ in Rs]
        for i, L in enumerate(Ls):
            for j, R in enumerate(Rs):
                if rng.random() < 0.9:
                    terms.append([list(L) + list(R), a[i] * b[j]])
        if not terms:
            terms.append([list(Ls[0]) + list(Rs[0]), 1.0])
        return {"n": n, "terms": terms, "kind": kind}
    if kind in ("random", "dup"):
        k = rng.randint(1, 4)
        alpha = [0] + rng.sample(range(1, NSYM), k)
        for _ in range(rng.randint(1, 14)):
            terms.append([[rng.choice(alpha) for _ in range(n)], coef()])
        if kind == "dup" and terms:
            for _ in range(rng.randint(1, 3)):
                terms.append([list(rng.choice(terms)[0]), coef()])
    elif kind == "pairwise":            # sum_{i<j} J_ij A_i B_j : complementary operators matter
        a, b = rng.randint(1, NSYM - 1), rng.randint(1, NSYM - 1)
        n = rng.randint(3, 6)
        for i in range(n):
            for j in range(i + 1, n):
                if rng.random() < 0.85:
                    t = [0] * n
                    t[i], t[j] = a, b
                    terms.append([t, coef()])
        if not terms:
            t = [0] * n
            t[0], t[1] = a, b
            terms.append([t, 1.0])
    elif kind == "nn":
        for i in range(n - 1):
            for a, b in rng.sample([(1, 1), (2, 2), (3, 4), (4, 3), (1, 2)], rng.randint(1, 3)):
                t = [0] * n
                t[i], t[i + 1] = a, b
                terms.append([t, coef()])
        for i in range(n):
            if rng.random() < 0.5:
                t = [0] * n
                t[i] = 2
                terms.append([t, coef()])
    else:  # shared-tail: many left parts, one right part and vice versa
        n = rng.randint(3, 6)
        k = rng.randint(1, n - 1)
        tail = [rng.randint(0, NSYM - 1) for _ in range(n - k)]
        seen = set()
        for _ in range(rng.randint(2, 8)):
            head = tuple(rng.randint(0, NSYM - 1) for _ in range(k))
            if head not in seen:
                seen.add(head)
                terms.append([list(head) + tail, coef()])
        head = [rng.randint(0, NSYM - 1) for _ in range(k)]
        for _ in range(rng.randint(0, 5)):
            terms.append([head + [rng.randint(0, NSYM - 1) for _ in range(n - k)], coef()])
    return {"n": n, "terms": terms, "kind": kind}


DEC_SMALL = [(1, 10), (2, 10), (3, 10), (7, 100), (1, 3), (2, 7), (3, 100), (11, 100), (1, 6), (13, 50), (1, 5), (3, 20)]
DEC_LARGE = [(1, 1), (3, 2), (2, 1), (7, 5), (11, 10), (3, 1), (5, 3), (13, 10)]


def decimal_bond_case(rng):
    """operator with non-dyadic rational coefficients [num, den]; some strings carry groups a + b - (a+b)
    (or a + b + c - (a+b+c)) that cancel exactly over Q but in general not in binary64.
    Every cancelling summand has |value| <= 0.3 and at least one surviving coefficient is >= 1, so the
    float residue (<= ~2e-16) is far below the package's relative pruning threshold 1e-15 * max|factor|."""
    n = rng.randint(2, 6)
    k = rng.randint(1, 4)
    alpha = [0] + rng.sample(range(1, NSYM), k)
    rand_string = lambda: tuple(rng.choice(alpha) for _ in range(n))
    terms = []
    survivors = set()
    signs = {}
    for i in range(rng.randint(1, 8)):
        t = rand_string()
        survivors.add(t)
        c = rng.choice(DEC_LARGE) if i == 0 else rng.choice(DEC_LARGE + DEC_SMALL)
        if t not in signs:                               # repeated surviving strings keep one sign: they never cancel
            signs[t] = -1 if (i > 0 and rng.random() < 0.3) else 1
        terms.append([list(t), [signs[t] * c[0], c[1]]])
    n_groups = rng.randint(1, 4)
    for _ in range(n_groups):
        t = rand_string()
        if rng.random() < 0.8:
            tries = 0
            while t in survivors and tries < 20:        # mostly strings that are NOT part of the operator
                t = rand_string()
                tries += 1
        parts = [rng.choice(DEC_SMALL) for _ in range(rng.choice([2, 2, 3]))]
        from fractions import Fraction
        tot = sum(Fraction(a, b) for a, b in parts)
        if tot > Fraction(3, 10):                       # keep every summand <= 0.3 in magnitude
            parts = [(1, 10), (2, 10)]
            tot = Fraction(3, 10)
        sgn = rng.choice([1, -1])
        for a, b in parts:
            terms.append([list(t), [sgn * a, b]])
        terms.append([list(t), [-sgn * tot.numerator, tot.denominator]])
    rng.shuffle(terms)
    inexact = 0
    acc = {}
    for t, c in terms:
        acc[tuple(t)] = acc.get(tuple(t), 0.0) + c[0] / c[1]
    from fractions import Fraction as F
    ex = {}
    for t, c in terms:
        ex[tuple(t)] = ex.get(tuple(t), F(0)) + F(c[0], c[1])
    inexact = sum(1 for t in ex if ex[t] == 0 and acc[t] != 0.0)
    assert max(abs(v) for v in ex.values()) >= 1, "generator invariant: a surviving merged coefficient >= 1"
    return {"n": n, "terms": terms, "kind": "decimal", "float_inexact_cancellations": inexact,
            "exact_cancellations": sum(1 for t in ex if ex[t] == 0)}


def chunks(xs, k):
    return [xs[i:i + k] for i in range(0, len(xs), k)]


def run_impl_batches(ctx, script, payloads, par):
    """impl_par reads a child's stdout only after it exits, so results larger than a pipe buffer are
    passed through scratch files under /tmp (removed afterwards).  Returns (list of per-case results, error)."""
    d = tempfile.mkdtemp(prefix="c20_", dir="/tmp")
    try:
        for i, pl in enumerate(payloads):
            pl["out"] = os.path.join(d, "out%03d.json" % i)
        outs = ctx.impl_par(script, payloads, timeout=1500, par=par)
        allres = []
        for (rc, res, out), pl in zip(outs, payloads):
            if res is None or "file" not in res or not os.path.exists(pl["out"]):
                return None, (out or "")[-1500:]
            with open(pl["out"]) as f:
                allres.extend(json.load(f)["res"])
        return allres, None
    finally:
        shutil.rmtree(d, ignore_errors=True)


# ----------------------------------------------------------------------------- the check
def run(ctx):
    quick = ctx.tier != "thorough"
    ctx.trusted += [
        "translator tx/coveradj.py (python ast, fail-closed): the statements of _decompose_graph that build `bigraph` must append the plain slice M.indices[M.indptr[i]:M.indptr[i+1]] (no dtype cast / relabelling); rendered as Gen/CoverAdj.v, for which C20_bigraph_is_incidence_matrix is proved with unbounded nat labels",
        "hand-written model coq/Model/Cover.v of bipartite_matching.py (augment, max_bipartite_matching2, new_konig, csr shape) and of the orientation choice in _decompose_graph; tied to the code by the correspondence below, not by a translator",
        "correspondence harness/c20.py + harness/impl/c20_cover.py: logger wrapped around bipartite_matching.maximum_bipartite_matching (captures / replaces SciPy's matching); covers compared as vertex sets",
        "SciPy maximum_bipartite_matching is NOT trusted: its table is a witness checked by valid_matching (proved equivalent to is_matching); by C20_hk_returns_iff_maximum new_konig returns iff that table is a maximum matching",
        "modelled, not verified: len(out_ops) = |selected rows| + |selected columns| in _decompose_graph and the equality of the minimum cover of the rewritten table with that of the original term list at later cuts (bond-dimension clause beyond one step) -- searched by the dense oracle on every run",
        "CPython / NumPy / SciPy sparse constructors used by the implementation",
    ]
    ctx.assumptions += [
        "graphs are adjacency lists with at least one U vertex (the zero-row list [] cannot describe a graph with V vertices and is rejected by both algorithms)",
        "set.pop() order in new_konig is arbitrary: all theorems quantify over every schedule (is_rot)",
    ]
    # ---- 0: translator (construction of `bigraph` in _decompose_graph -> Gen/CoverAdj.v), fail-closed
    tx_err = None
    try:
        text, _ = txadj.main(common.REPO)
        ctx.regen("Gen/CoverAdj.v", text)
    except Exception as e:      # noqa: BLE001  (any deviation of the source from the expected shape)
        tx_err = "%s: %s" % (type(e).__name__, e)
    ctx.obligations.append({"name": "translator tx/coveradj.py: bigraph = plain index slices of the sparse matrix (Gen/CoverAdj.v)",
                            "file": "Gen/CoverAdj.v", "ok": tx_err is None, "assumptions": [] if tx_err is None else None})
    # ---- 1/2: Coq
    ok_build, log = ctx.coq_make(["Proofs/CoverProofs.vo"])
    ok_props = False
    if ok_build:
        ok_props, log = ctx.props("Props/C20.v")
    else:
        ctx.obligations.append({"name": "C20 (build of Model/Cover.v + Proofs/CoverProofs.v)", "file": "Proofs/CoverProofs.v", "ok": False, "assumptions": None})
    # (thorough tier: ctx.props also re-checks Props/C20.vo with coqchk -o)

    rng = ctx.rng
    # ---- cases
    cases = []          # dicts: g, np, inject, src
    for g in exhaustive_graphs(3 if quick else 4):
        cases.append({"g": g, "np": False, "inject": None, "src": "exhaustive"})
    n_exh = len(cases)
    n_rand = 600 if quick else 6000
    for _ in range(n_rand):
        g, kind = random_graph(rng)
        cases.append({"g": g, "np": rng.random() < 0.5, "inject": None, "src": "random:" + kind})
    n_inj = 250 if quick else 2500
    pool_small = [c["g"] for c in cases[:n_exh] if n_edges(c["g"]) > 0]
    for i in range(n_inj):
        if i % 2 == 0:
            g = rng.choice(pool_small)
        else:
            g = None
            while g is None or n_edges(g) == 0:
                g, _ = random_graph(rng)
        m = greedy_matching(g, rng, drop=rng.choice([0.0, 0.0, 0.2, 0.5, 1.0]))
        cases.append({"g": g, "np": False, "inject": m, "src": "degraded-witness"})

    n_mal = 60 if quick else 600
    for i in range(n_mal):
        g = rng.choice(pool_small) if i % 2 == 0 else None
        while g is None or n_edges(g) == 0:
            g, _ = random_graph(rng)
        m = greedy_matching(g, rng, drop=0.2)
        how = rng.choice(["dup", "nonedge", "length", "range"])
        if how == "dup" and len(m) >= 2:
            a, b = rng.sample(range(len(m)), 2)
            m[b] = m[a] if m[a] >= 0 else rng.randrange(len(g))
            m[a] = m[b]
        elif how == "nonedge" and m:
            v = rng.randrange(len(m))
            m[v] = rng.randrange(len(g))
        elif how == "length":
            m = m + [-1] if rng.random() < 0.5 else m[:-1]
        elif m:
            m[rng.randrange(len(m))] = len(g) + rng.randint(0, 2)
        cases.append({"g": g, "np": False, "inject": m, "src": "malformed-witness"})

    # ---- implementation
    nproc = 4 if quick else 12
    per = (len(cases) + nproc - 1) // nproc
    payloads = [{"cases": [{"g": c["g"], "np": c["np"], "inject": c["inject"]} for c in part], "oracle_limit": 14}
                for part in chunks(cases, per)]
    impl_res, impl_fail = run_impl_batches(ctx, "c20_cover.py", payloads, nproc)
    if impl_fail is None and len(impl_res) != len(cases):
        impl_fail = "result count %d != %d" % (len(impl_res), len(cases))

    bad = {}            # key -> list of details

    def flag(key, detail):
        bad.setdefault(key, []).append(detail)

    if impl_fail is not None:
        flag("harness-impl", {"what": "implementation runner failed", "out": impl_fail})
        impl_res = [None] * len(cases)

    # ---- model (same cases; witness = matching the implementation used)
    model_res = [None] * len(cases)
    if ok_build and impl_fail is None:
        items = []
        for bi, part in enumerate(chunks(list(range(len(cases))), 500)):
            lines = []
            for i in part:
                c, r = cases[i], impl_res[i]
                w = r["hk"].get("match") if r and "hk" in r else None
                c["witness"] = w
                lines.append("(%s, %s)" % (coq_graph(c["g"]), coq_mtab(w if w is not None else [])))
            # coq_eval_many reads coqc's stdout only after exit: the (large) value is redirected to a file
            name = "b%03d" % bi
            redir = os.path.join(common.COQ, "Corr", "run_" + ctx.pid, name)
            text = HEADER + "Definition cases : list (graph * mtab) := [\n" + ";\n".join(lines) + "].\n" \
                + "Redirect \"%s\" Eval vm_compute in (flat_map run_case cases).\n" % redir
            items.append((name, text, part))
        outs = ctx.coq_eval_many([(n, t) for n, t, _ in items], timeout=900, par=12)
        for name, _, part in items:
            rc, out = outs.get(name, (1, "missing"))
            redir = os.path.join(common.COQ, "Corr", "run_" + ctx.pid, name + ".out")
            if rc == 0 and os.path.exists(redir):
                with open(redir) as f:
                    out = f.read()
                os.remove(redir)
            else:
                rc = rc or 1
            flat = common.parse_Z_list(out) if rc == 0 else None
            dec = decode_cases(flat, len(part)) if flat is not None else None
            if dec is None:
                flag("harness-model", {"what": "model evaluation failed", "file": name, "out": (out or "")[-800:]})
                continue
            for i, d in zip(part, dec):
                model_res[i] = d
            for ext in (".v", ".vo", ".vok", ".vos", ".glob"):      # keep only batches that failed
                try:
                    os.remove(os.path.join(common.COQ, "Corr", "run_" + ctx.pid, name + ext))
                except OSError:
                    pass

    # ---- compare + oracle
    ev = 0
    keys_nontrivial = set()
    hist = {"by_shape": {}, "by_matching_size": {}, "mixed_cover": 0, "isolated_U": 0, "trailing_isolated_U": 0,
            "edgeless": 0, "numpy_rows": 0, "multigraph": 0, "degraded_asserts": 0, "degraded_returns": 0, "malformed_witness_rejected": 0, "by_source": {}}
    samples = []
    edgeless_hit = []
    witness_checked = 0
    for i, c in enumerate(cases):
        g, r, mres = c["g"], impl_res[i], model_res[i]
        if r is None:
            continue
        E = n_edges(g)
        src = c["src"].split(":")[0]
        hist["by_source"][src] = hist["by_source"].get(src, 0) + 1
        edges = [(u, v) for u, adj in enumerate(g) for v in adj]
        nVg = max((v for _, v in edges), default=-1) + 1
        inj = c["inject"] is not None
        for tag, algo in (("hk", "Hopcroft-Karp"), ("hu", "Hungarian")):
            if tag not in r:
                continue
            a = r[tag]
            ev += 1
            if inj:
                # degraded witness: only the assert behaviour / cover of new_konig is compared
                if mres is None:
                    continue
                pyvalid = is_valid_matching(g, c["inject"])
                if (mres["valid"] == 1) != pyvalid:
                    flag("corr-valid-matching", {"what": "valid_matching (model) disagrees with the independent python predicate", "g": g, "m": c["inject"], "model": mres["valid"], "python": pyvalid})
                    continue
                if not pyvalid:
                    hist["malformed_witness_rejected"] += 1     # outside every theorem's hypothesis: nothing else is compared
                    continue
                if a["ok"]:
                    hist["degraded_returns"] += 1
                    if mres["hk"] is None or [sorted(a["cu"]), sorted(a["cv"])] != mres["hk"]:
                        flag("corr-konig-assert", {"g": g, "matching": c["inject"], "impl": [a["cu"], a["cv"]], "model": mres["hk"]})
                else:
                    hist["degraded_asserts"] += 1
                    if a.get("err") != "AssertionError" or mres["hk"] is not None:
                        flag("corr-konig-assert", {"g": g, "matching": c["inject"], "impl": a, "model": mres["hk"]})
                continue
            if not a["ok"]:
                if tag == "hk" and E == 0 and a.get("err") == "IndexError":
                    edgeless_hit.append(g)
                    continue
                flag("cover-exception:" + tag, {"g": g, "algo": algo, "err": a.get("err"), "msg": a.get("msg")})
                continue
            cu, cv = set(a["cu"]), set(a["cv"])
            # oracle: validity, minimality, size = matching
            unc = [e for e in edges if e[0] not in cu and e[1] not in cv]
            msz = sum(1 for x in (a.get("match") or []) if x is not None and x >= 0)
            if unc or ("min" in r and len(cu) + len(cv) != r["min"]) or (a.get("match") is not None and msz != len(cu) + len(cv)):
                flag("oracle-cover:" + tag, {"g": g, "algo": algo, "cover": [sorted(cu), sorted(cv)], "uncovered": unc[:5],
                                             "min": r.get("min"), "matching_size": msz})
            if a.get("types") and a["types"] != ["bool"]:
                flag("corr-tables:" + tag, {"g": g, "what": "tables are not lists of bool", "types": a["types"]})
            # correspondence with the model
            if mres is None:
                continue
            if tag == "hk":
                witness_checked += 1 if E > 0 else 0
                if mres["valid"] != 1:
                    flag("witness-invalid", {"g": g, "scipy_matching": a.get("match"), "what": "SciPy's table is not a matching of the graph (length nV, edges, injective)"})
                mc = mres["hk"]
                if mc is None or mc != [sorted(cu), sorted(cv)] or mres["hk_rev"] != mc:
                    flag("corr-cover:hk", {"g": g, "witness": a.get("match"), "impl": [sorted(cu), sorted(cv)], "model": mc, "model_rev_schedule": mres["hk_rev"]})
                # csr shape (only when SciPy was called, i.e. the graph has an edge) and table lengths
                # (edge-less graphs: early return with len(bigraph) Falses and an empty V table)
                if (E > 0 and a.get("shape") != [mres["hk_nU"], mres["nV"]]) or (E == 0 and a.get("shape") is not None) \
                        or [a["lenU"], a["lenV"]] != [mres["hk_lenU"], mres["hk_lenV"]]:
                    flag("corr-shape:hk", {"g": g, "impl_shape": a.get("shape"), "tables": [a["lenU"], a["lenV"]],
                                           "model_tables": [mres["hk_lenU"], mres["hk_lenV"]], "model_csr": [mres["hk_nU"], mres["nV"]]})
                if mres["msize"] != len(cu) + len(cv):
                    flag("corr-cover:hk", {"g": g, "what": "model matching size != cover size", "msize": mres["msize"]})
            else:
                if mres["hung"] is None or a.get("match") is None or mres["hung"] != a["match"]:
                    flag("corr-matching:hungarian", {"g": g, "impl": a.get("match"), "model": mres["hung"]})
                if mres["hu"] is None or mres["hu"] != [sorted(cu), sorted(cv)]:
                    flag("corr-cover:hungarian", {"g": g, "impl": [sorted(cu), sorted(cv)], "model": mres["hu"]})
                if [a["lenU"], a["lenV"]] != [len(g), nVg]:
                    flag("corr-shape:hungarian", {"g": g, "tables": [a["lenU"], a["lenV"]], "expected": [len(g), nVg]})
            if tag == "hu":
                key = (len(g), tuple(tuple(adj) for adj in g))
                if E > 0 and msz >= 2:
                    keys_nontrivial.add(key)
                if cu and cv:
                    hist["mixed_cover"] += 1
                bucket = lambda k: "0" if k == 0 else "1-2" if k <= 2 else "3-4" if k <= 4 else "5-8" if k <= 8 else "9-12"
                sh = "U%s x V%s" % (bucket(len(g)), bucket(nVg))
                hist["by_shape"][sh] = hist["by_shape"].get(sh, 0) + 1
                hist["by_matching_size"][str(msz)] = hist["by_matching_size"].get(str(msz), 0) + 1
                if any(not adj for adj in g):
                    hist["isolated_U"] += 1
                if not g[-1] and E > 0:
                    hist["trailing_isolated_U"] += 1
                if E == 0:
                    hist["edgeless"] += 1
                if c["np"]:
                    hist["numpy_rows"] += 1
                if any(len(set(adj)) != len(adj) for adj in g):
                    hist["multigraph"] += 1
        if not inj and c["src"].startswith("random") and len(samples) < 2 and E >= 4 and r["hk"].get("ok") and r.get("hu", {}).get("ok"):
            samples.append({"graph": g, "scipy_matching": r["hk"].get("match"), "impl_cover_hk": [r["hk"]["cu"], r["hk"]["cv"]],
                            "impl_cover_hungarian": [r["hu"]["cu"], r["hu"]["cv"]], "model": mres, "brute_force_min": r.get("min")})

    # ---- bond-dimension oracle (always)
    n_bond = 150 if quick else 1500
    bcases = [random_bond_case(rng) for _ in range(n_bond)]
    n_dec = 150 if quick else 1500
    bcases += [decimal_bond_case(rng) for _ in range(n_dec)]
    nb = 3 if quick else 12
    bres, berr = run_impl_batches(ctx, "c20_bond.py", [{"cases": part, "algos": ALGOS} for part in chunks(bcases, (len(bcases) + nb - 1) // nb)], nb)
    if berr is not None:
        flag("harness-impl", {"what": "bond runner failed", "out": berr})
    bond_stats = {"operators": 0, "cuts": 0, "cuts_where_cover_beats_both_sides": 0, "max_bond": 0,
                  "decimal_operators": n_dec, "by_kind": {},
                  "strings_cancelling_exactly": sum(c.get("exact_cancellations", 0) for c in bcases),
                  "of_which_nonzero_in_binary64": sum(c.get("float_inexact_cancellations", 0) for c in bcases)}
    bond_bad = []
    if bres is not None:
        for c, r in zip(bcases, bres):
            bond_stats["operators"] += 1
            for algo in ALGOS:
                ev += 1
                bd = r["bd"].get(algo)
                ok = bd == r["exp"] and all(b <= min(l, rr) for b, l, rr in zip(bd or [], r["nL"], r["nR"]))
                de = r["dense_err"].get(algo)
                disp = r.get("dispatch_ok", {}).get(algo, True)
                if not ok or not disp or algo in r["err"] or (de is not None and de > 1e-9):
                    bond_bad.append({"case": {"n": c["n"], "terms": c["terms"]}, "kind": c.get("kind"), "algo": algo, "bond_dims": bd, "expected_min_cover": r["exp"],
                                     "nL": r["nL"], "nR": r["nR"], "dense_rel_err": de, "error": r["err"].get(algo),
                                     "cover_routine_called_with": r.get("cover_calls", {}).get(algo), "dispatch_ok": disp})
                bond_stats["by_kind"][c.get("kind", "?")] = bond_stats["by_kind"].get(c.get("kind", "?"), 0) + 1
            bond_stats["cuts"] += len(r["exp"]) - 2
            bond_stats["cuts_where_cover_beats_both_sides"] += sum(1 for e, l, rr in zip(r["exp"], r["nL"], r["nR"]) if e < min(l, rr))
            bond_stats["max_bond"] = max(bond_stats["max_bond"], max(r["exp"]))
        if bcases:
            samples.append({"operator": {"n": bcases[0]["n"], "terms": bcases[0]["terms"][:6]}, "bond_dims": bres[0]["bd"], "min_cover_per_cut": bres[0]["exp"]})

    # ---- scale probe (implementation only): alternating / augmenting paths longer than the recursion limit
    #  chain: both algorithms (Hungarian failure = known finding); path: Hopcroft-Karp + new_konig on a long
    #  alternating path; thin-operator: 2-site operator built with Hopcroft-Karp, bond must be n + 1
    scale_payload = {"chain": [300, 1500], "path": [300, 3000, 5000], "thin_operator": [3000]} if quick else \
        {"chain": [300, 900, 1500, 5000], "path": [300, 3000, 5000, 20000], "thin_operator": [3000, 6000]}
    rc_s, res_s, out_s = ctx.impl("c20_scale.py", scale_payload, timeout=900)
    scale_bad = []
    recursion_hit = []
    if res_s is None:
        flag("harness-impl", {"what": "scale probe failed", "out": (out_s or "")[-1000:]})
    else:
        for r in res_s["res"]:
            ev += 1
            if not r["ok"] and r.get("err") == "RecursionError" and r["algo"] == "Hungarian" and r["what"] == "chain":
                recursion_hit.append(r)
            elif not r["ok"] or not r["valid"] or r["size"] != r["expected"]:
                scale_bad.append(r)
    sizes = scale_payload["chain"]
    hist["scale_probe"] = dict(scale_payload, hungarian_recursion_errors=len(recursion_hit), other_failures=len(scale_bad),
                               hopcroft_karp_runs_ok=sum(1 for r in (res_s or {}).get("res", []) if r["algo"] == "Hopcroft-Karp" and r["ok"]))

    # ---- large-graph oracle (implementation only): > 2**16 distinct partial terms on the larger side of a cut,
    #      entries placed so that folding labels modulo 2**16 would change the minimum cover
    def large_case(shape, algo, ngadgets):
        npair = 65536 + rng.randint(40, 200)
        js = rng.sample(range(npair - 65536), ngadgets)
        extra = []
        for g, j in enumerate(js):          # rows R_{2g+1}, R_{2g+2}:  B x j, B x (j + 2^16), C x (j + 2^16)
            extra += [[2 * g + 1, j], [2 * g + 1, j + 65536], [2 * g + 2, j + 65536]]
        return {"shape": shape, "npair": npair, "n1": 260, "extra": extra, "algo": algo}
    lcases = [large_case("right", "Hopcroft-Karp", 1), large_case("right", "Hungarian", 1),
              large_case("left", "Hopcroft-Karp", 1), large_case("left", "Hungarian", 2)]
    if not quick:
        lcases += [large_case(rng.choice(["right", "left"]), rng.choice(ALGOS), rng.randint(1, 5)) for _ in range(12)]
    louts = ctx.impl_par("c20_large.py", [{"cases": [c]} for c in lcases], timeout=900, par=4 if quick else 12)
    large_bad = []
    large_stats = {"cases": len(lcases), "max_labels": 0, "decompose_steps_checked": 0, "wall_max": 0.0}
    for c, (rc_l, res_l, out_l) in zip(lcases, louts):
        if res_l is None:
            flag("harness-impl", {"what": "large-graph runner failed", "out": (out_l or "")[-1000:]})
            continue
        r = res_l["res"][0]
        ev += 1
        large_stats["max_labels"] = max(large_stats["max_labels"], max(r["nL"] + r["nR"]))
        large_stats["decompose_steps_checked"] += len(r.get("decompose_steps") or [])
        large_stats["wall_max"] = max(large_stats["wall_max"], r.get("wall", 0.0))
        if r["problems"]:
            large_bad.append({"case": c, "bond_dims": r.get("bd"), "expected_min_cover": r["exp"], "nL": r["nL"], "nR": r["nR"],
                              "missing_terms": r.get("missing"), "problems": r["problems"][:4], "decompose_steps": r.get("decompose_steps")})
    hist["large_graph"] = large_stats

    # ---- report
    if tx_err is not None:
        ctx.violation("translator-coveradj", "translator tx/coveradj.py: the construction of `bigraph` in _decompose_graph is no longer the plain index slice of the sparse matrix; C20_bigraph_is_incidence_matrix / C20_decompose_graph_cover_touches_every_entry no longer describe the code",
                      {"error": tx_err}, found=False)
    if large_bad:
        src = open(os.path.join(common.VERIF, "harness", "impl", "c20_large.py")).read()
        src = src[:src.rindex("main()")]
        b0 = large_bad[0]
        repro = src + "\nr = run_case(%r)\nprint({k: r.get(k) for k in ('bd', 'exp', 'nL', 'nR', 'missing', 'problems')})\nsys.exit(1 if r['problems'] else 0)\n" % (b0["case"],)
        ctx.violation("large-graph", "oracle: with more than 2**16 distinct partial terms on one side of a cut the cover used by _decompose_graph is not a minimum cover of the REAL term-incidence matrix (bond dimension != maximum matching, uncovered entries / lost terms, or adjacency lists differing from the sparse matrix)",
                      {"count": len(large_bad), "first": large_bad[:2]}, found=True, repro=repro)
    if not (ok_build and ok_props):
        names = ", ".join(o["name"] for o in ctx.obligations if not o["ok"])
        ctx.violation("coq-proofs", "theorem(s) of Props/C20.v no longer check: " + names,
                      {"coq_log_tail": (log or "")[-2000:]}, found=False)
    for key, items in sorted(bad.items()):
        d0 = items[0]
        if key.startswith("oracle-cover") or key.startswith("cover-exception"):
            ctx.violation(key, "oracle: %s returned an invalid / non-minimum cover or raised (C20_vertex_cover_%s no longer describes the code)" % (d0.get("algo"), "hk" if key.endswith("hk") else "hungarian"),
                          {"count": len(items), "first": items[:5]}, found=True,
                          repro=REPRO_COVER % {"g": [list(map(int, adj)) for adj in d0["g"]], "algo": d0["algo"]})
        elif key.startswith("harness"):
            ctx.violation(key, "check machinery fault (no evidence about the code)", {"count": len(items), "first": items[:3]}, found=False)
        else:
            ctx.violation(key, "correspondence model <-> implementation: " + key, {"count": len(items), "first": items[:5]}, found=False)
    if edgeless_hit:
        g0 = min(edgeless_hit, key=len)
        ctx.violation("hk-edgeless-graph",
                      "property text 'for every bipartite graph': bipartite_vertex_cover(g, 'Hopcroft-Karp') raises IndexError on graphs without edges (coord[:,0] on an empty array) while 'Hungarian' returns the empty cover; the model (vertex_cover_hk: early return when has_edge = false, as in the repaired code c53a758) returns the empty cover with tables of lengths (len(bigraph), 0)",
                      {"smallest_graph": g0, "reachable_from_operator_tables": False},
                      found=True, repro=REPRO_COVER % {"g": g0, "algo": "Hopcroft-Karp"})
    if recursion_hit:
        r0 = min(recursion_hit, key=lambda r: r["n"])
        ctx.violation("hungarian-recursion-limit",
                      "property text 'for every bipartite graph, both cover algorithms return ...': the recursive augment() of the 'Hungarian' path needs recursion depth = length of the augmenting path and raises RecursionError on a chain with %d vertices per side (CPython limit 1000); 'Hopcroft-Karp' returns the minimum cover. The model (C20_vertex_cover_hungarian, fuel nV+1) has no recursion limit: modelled, not verified. Reachable through Mpo(model, terms, algo='Hungarian') with ~2n terms (see notes/C20.md)" % r0["n"],
                      {"smallest_failing_chain": r0["n"], "python_recursion_limit": 1000}, found=True,
                      repro=REPRO_CHAIN % {"n": r0["n"], "algo": "Hungarian"})
    if scale_bad:
        r0 = min(scale_bad, key=lambda r: (r["what"] != "path", r["n"]))
        if r0["what"] == "chain":
            repro = REPRO_CHAIN % {"n": r0["n"], "algo": r0["algo"]}
        else:
            src = open(os.path.join(common.VERIF, "harness", "impl", "c20_scale.py")).read()
            src = src[:src.rindex("main()")]
            call = "cover_result(path(%d), %r, %d)" % (r0["n"], r0["algo"], r0["n"]) if r0["what"] == "path" \
                else "thin_operator(%d, %r)" % (r0["n"], r0["algo"])
            repro = src + "\nr = %s\nprint(r)\nsys.exit(0 if (r['ok'] and r['valid'] and r['size'] == r['expected']) else 1)\n" % call
        ctx.violation("scale-cover", "oracle: exception / invalid / non-minimum cover (or wrong bond dimension) on a structure with an alternating path longer than the recursion limit: %s(n=%d) with %s -> %s (expected size %d by an explicit matching certificate)"
                      % (r0["what"], r0["n"], r0["algo"], r0.get("err") or ("size %s valid %s" % (r0.get("size"), r0.get("valid"))), r0["expected"]),
                      {"observed": scale_bad}, found=True, repro=repro)
    if bond_bad:
        src = open(os.path.join(common.VERIF, "harness", "impl", "c20_bond.py")).read()
        src = src[:src.rindex("main()")]
        differing = [b for b in bond_bad if b["bond_dims"] is not None and b["bond_dims"] != b["expected_min_cover"]]
        b0 = (differing or bond_bad)[0]     # prefer a replay whose bond dimensions themselves are wrong
        repro = src + "\nr = run_case(%r, %r)\nprint(r)\nbd = r['bd'].get(%r)\n" % (b0["case"], [b0["algo"]], b0["algo"]) + \
            "de = r['dense_err'].get(%r)\nsys.exit(1 if (bd != r['exp'] or r['err'] or not r['dispatch_ok'].get(%r, True) or (de is not None and de > 1e-9)) else 0)\n" % (b0["algo"], b0["algo"])
        ctx.violation("bond-dims", "oracle: Mpo(...).bond_dims differs from the brute-force minimum cover of the (exactly merged) term-incidence matrix at some cut (EQUALITY is required, also for non-generic coefficients; or it exceeds the number of distinct left/right parts, or the dense operator is wrong, or symbolic_mpo did not call bipartite_vertex_cover with the requested algorithm at every site)",
                      {"count": len(bond_bad), "bond_dims_differ": len(differing), "dispatch_failures": sum(1 for b in bond_bad if not b["dispatch_ok"]),
                       "replayed": b0, "first": bond_bad[:3]}, found=True, repro=repro)

    ctx.notes.append("witness validity: %d SciPy matchings checked by valid_matching, failures: %d" % (witness_checked, len(bad.get("witness-invalid", []))))
    ctx.notes.append("scale probe %s: RecursionError on the Hungarian path for chains %s (key hungarian-recursion-limit); Hopcroft-Karp failures: %d" % (scale_payload, [r["n"] for r in recursion_hit], sum(1 for r in scale_bad if r["algo"] == "Hopcroft-Karp")))
    ctx.notes.append("edge-less graphs on the Hopcroft-Karp path (IndexError): %d observed; reported under key hk-edgeless-graph" % len(edgeless_hit))
    return {"evaluations": ev, "distinct_nontrivial": len(keys_nontrivial),
            "rule": "one evaluation = one (graph, algorithm) cover compared with the Coq model and the brute-force oracle, or one (operator, algorithm) bond-dimension vector compared with brute-force minimum covers at every cut; distinct_nontrivial counts distinct adjacency lists with at least one edge and maximum matching >= 2 whose covers (both algorithms) matched model and oracle",
            "samples": samples[:3], "exhaustive": True,
            "exhaustive_scope": "all %d adjacency lists with 1..%d rows over V={0,1,2,3} (= all bipartite graphs up to %dx4 up to trailing isolated V vertices, which the adjacency-list format cannot express)" % (n_exh, 3 if quick else 4, 3 if quick else 4),
            "input_distribution": hist, "bond_oracle": bond_stats,
            "cases": {"exhaustive": n_exh, "random": n_rand, "degraded_witness": n_inj, "malformed_witness": n_mal, "operators": n_bond, "decimal_operators": n_dec, "large_graph_operators": len(lcases)}}
