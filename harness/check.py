"""Entry point: ./check <ID> [--tier quick|thorough] [--replay path]"""
import argparse
import importlib
import json
import os
import sys
import traceback

sys.path.insert(0, os.path.dirname(os.path.abspath(__file__)))
import common


def main():
    ap = argparse.ArgumentParser()
    ap.add_argument("pid")
    ap.add_argument("--tier", default=os.environ.get("VERIF_TIER", "quick"))
    ap.add_argument("--replay", default=None)
    a = ap.parse_args()
    seed = int(os.environ.get("VERIF_SEED", "0") or 0)
    tier = a.tier if a.tier in ("quick", "thorough") else "quick"
    if a.replay:
        rep = json.load(open(a.replay))
        snippet = rep.get("repro")
        if not snippet:
            print("replay %s has no executable repro (broken: %s)" % (a.replay, rep.get("broken")))
            print("VIOLATION property=%s replay=%s no-failing-input-found" % (a.pid, a.replay))
            sys.exit(1)
        rc, out = common.sh([common.IMPL_PY, "-c", snippet], env=common.impl_env(), cwd="/", timeout=900)
        print(out[-4000:])
        if rc != 0:
            print("VIOLATION property=%s replay=%s" % (a.pid, a.replay))
            sys.exit(1)
        print("replay passes on the current tree")
        sys.exit(0)
    ctx = common.Ctx(a.pid, tier, seed)
    try:
        mod = importlib.import_module(a.pid.lower())
        cov = mod.run(ctx)
    except Exception:
        tb = traceback.format_exc()
        print(tb)
        ctx.violation("harness-crash", "check harness raised an exception (machinery fault, not evidence about the code)",
                      {"traceback": tb[-3000:]}, found=False)
        cov = {"explanation": "harness crashed"}
    sys.exit(ctx.finish(cov))


main()
