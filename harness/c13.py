"""C13: operations return new objects and never disturb the state of their inputs.

1. translator tx/evolveentry.py -> Gen/EvolveEntry.v (entry kind / writes-to-input / return status of every
   evolution entry point, compressed_sum and its call sites)
2. Coq: Model/Heap.v, Proofs/HeapProofs.v, Props/C13.v (frame theorem over all programs, prefactor folding,
   sig_ok_all over the generated table, queue theorem for compressed_sum)
3. correspondence of the effect signatures by OBSERVATION of the real code on random programs
   "derive b from a (and maybe c), mutate one, observe the other" (this is also the failing-input search):
   the observed effect of every executed operation is evaluated against the model's signature table inside
   Coq (within_sig, vm_compute); a program on which an untouched object's dense value changes is the replay.
"""
import json
import os
import re
import sys

import common
sys.path.insert(0, os.path.join(common.VERIF, "tx"))
import evolveentry as txee
import opentries as txop

# --------------------------------------------------------------------------------------------------
# operation table.  kinds: chain mps/mpo/mpdm, tree ttns/ttno.
# code placeholders: {r} result name, {a0} {a1} operand names, {t} in-place target.
# "model": constructor of Model/Heap.v's opname.
S_ANY = ("mps", "mpo", "mpdm")
S_ST = ("mps", "mpdm")
SCHEMES = [("prop_and_compress", "PC"), ("prop_and_compress_tdrk4", "PCrk4"), ("prop_and_compress_tdrk", "PCrk"),
           ("tdvp_mu_vmf", "TdvpMuVmf"), ("tdvp_vmf", "TdvpVmf"), ("tdvp_mu_cmf", "TdvpMuCmf"),
           ("tdvp_ps", "TdvpPs"), ("tdvp_ps2", "TdvpPs2")]
TREE_SCHEMES = [("tdvp_vmf", "TdvpVmf"), ("prop_and_compress_tdrk4", "PCrk4"), ("tdvp_ps", "TdvpPs"), ("tdvp_ps2", "TdvpPs2")]


def op(name, world, cat, args, res, code, model, w=1.0, grow=None):
    return {"name": name, "world": world, "cat": cat, "args": args, "res": res, "code": code, "model": model,
            "w": w, "grow": grow}


OPS = []
# ---- chains: derive
OPS += [
    op("copy", "chain", "derive", [S_ANY], "=0", "{r} = {a0}.copy()", "Copy", 2.0),
    op("metacopy_fill", "chain", "derive", [S_ANY], "=0",
       "{r} = {a0}.metacopy()\nfor _i in range(len({a0})):\n    {r}[_i] = {a0}[_i].array * 1.5", "MetacopyFill"),
    op("to_complex", "chain", "derive", [S_ANY], "=0", "{r} = {a0}.to_complex()", "ToComplex"),
    op("conj", "chain", "derive", [S_ANY], "=0", "{r} = {a0}.conj()", "Conj"),
    op("conj_trans", "chain", "derive", [("mpo",)], "=0", "{r} = {a0}.conj_trans()", "ConjTrans", 0.8),
    op("scale_real", "chain", "derive", [S_ANY], "=0", "{r} = {a0}.scale(1.7)", "Scale"),
    op("scale_cplx", "chain", "derive", [S_ANY], "=0", "{r} = {a0}.scale(0.5 + 0.8j)", "Scale"),
    op("mul_float", "chain", "derive", [S_ANY], "=0", "{r} = {a0} * 2.0", "Scale", 0.5),
    op("add", "chain", "derive", [S_ANY, "=0"], "=0", "{r} = {a0}.add({a1})", "Add", 2.0, "add"),
    op("plus", "chain", "derive", [S_ANY, "=0"], "=0", "{r} = {a0} + {a1}", "Add", 1.0, "add"),
    op("minus", "chain", "derive", [S_ANY, "=0"], "=0", "{r} = {a0} - {a1}", "Add", 1.0, "add"),
    op("apply", "chain", "derive", [("mpo",), S_ANY], "=1", "{r} = {a0}.apply({a1})", "Apply", 1.5, "apply"),
    op("apply_cano", "chain", "derive", [("mpo",), S_ST], "=1", "{r} = {a0}.apply({a1}, canonicalise=True)", "Apply", 0.7, "apply"),
    op("matmul", "chain", "derive", [("mpo",), S_ANY], "=1", "{r} = {a0} @ {a1}", "Apply", 0.7, "apply"),
    op("contract", "chain", "derive", [("mpo",), S_ANY], "=1", "{r} = {a0}.contract({a1})", "Contract", 1.5, "cmp"),
    op("mpdm_apply", "chain", "derive", [("mpdm",), ("mpo",)], "=0", "{r} = {a0}.apply({a1})", "Apply", 1.0, "apply_r"),
    op("cano_copy", "chain", "derive", [S_ANY], "=0", "{r} = {a0}.copy()\n{r}.ensure_left_canonical()", "CanoCopy"),
    op("compress_copy", "chain", "derive", [S_ANY], "=0",
       "{r} = {a0}.copy()\n{r}.ensure_right_canonical()\n{r}.compress(temp_m_trunc=2)", "CompressCopy", 1.0, "cmp"),
    op("reload", "chain", "derive", [("mps",)], "=0",
       "{r} = c13_reload({a0}, Mps, model)\n{r}.compress_config = {a0}.compress_config.copy()\n{r}.evolve_config = {a0}.evolve_config.copy()", "Reload", 1.2),
    op("from_mps", "chain", "derive", [("mps",)], "mpdm", "{r} = MpDm.from_mps({a0})", "FromMps", 1.5),
    op("csum1", "chain", "derive", [S_ANY], "=0", "{r} = compressed_sum([{a0}])", "CompressedSum", 1.5, "cmp"),
    op("csum1_m2", "chain", "derive", [S_ANY], "=0", "{r} = compressed_sum([{a0}], temp_m_trunc=2)", "CompressedSum", 1.0, "cmp"),
    op("csum2", "chain", "derive", [S_ANY, "=0"], "=0", "{r} = compressed_sum([{a0}, {a1}])", "CompressedSum", 1.0, "cmp"),
    op("expand_hint", "chain", "derive", [S_ST, ("ham",)], "=0",
       "{a0}.compress_config = CompressConfig(CompressCriteria.fixed, max_bonddim=6)\n{r} = {a0}.expand_bond_dimension(hint_mpo={a1}, include_ex=False)", "Expand", 1.5, "cmp6"),
    op("expand_hint_ex", "chain", "derive", [S_ST, ("ham",)], "=0",
       "{a0}.compress_config = CompressConfig(CompressCriteria.fixed, max_bonddim=6)\n{r} = {a0}.expand_bond_dimension(hint_mpo={a1}, include_ex=True)", "Expand", 1.0, "cmp6"),
    op("expand_random", "chain", "derive", [("mps",)], "=0",
       "{a0}.compress_config = CompressConfig(CompressCriteria.fixed, max_bonddim=6)\n{r} = {a0}.expand_bond_dimension()", "Expand", 0.7, "cmp6"),
    op("evolve_exact", "chain", "derive", [S_ST, ("ham",)], "=0", "{r} = {a0}.evolve_exact({a1}, 0.3, 'GS')", "EvolveExact", 2.0),
    op("evolve_exact_ex", "chain", "derive", [S_ST, ("ham",)], "=0", "{r} = {a0}.evolve_exact({a1}, 0.2, 'EX')", "EvolveExact", 1.0),
]
for pyname, coqname in SCHEMES:
    for tname, dt in (("real", "0.05"), ("imag", "-0.05j")):
        for ad in (False, True):
            if ad and pyname in ("prop_and_compress_tdrk4", "tdvp_mu_vmf", "tdvp_vmf"):
                continue                     # these schemes have no adaptive mode
            extra = ", rk_solver='RKF45'" if (ad and pyname == "prop_and_compress_tdrk") else ""
            gdt = dt if not ad else ("0.02" if tname == "real" else "-0.02j")
            code = ("{a0}.evolve_config = EvolveConfig(EvolveMethod.%s, adaptive=%s, guess_dt=%s%s)\n"
                    "{r} = {a0}.evolve({a1}, %s)" % (pyname, ad, gdt, extra, dt))
            OPS.append(op("evolve_%s_%s%s" % (pyname, tname, "_adaptive" if ad else ""), "chain", "derive",
                          [("mps",) if pyname.startswith("tdvp_mu") or pyname == "tdvp_vmf" else S_ST, ("ham",)], "=0",
                          code, "(Evolve %s)" % coqname, 0.45 if ad else 0.9, "cmp"))
# ---- chains: observe
OPS += [
    op("expectation", "chain", "observe", [S_ST, ("mpo",)], None, "_v = {a0}.expectation({a1})", "Expectation", 1.5),
    op("expectations", "chain", "observe", [S_ST], None, "_v = {a0}.expectations([o1, o2])", "Expectations"),
    op("expectations_slow", "chain", "observe", [S_ST], None, "_v = {a0}.expectations([o1, o2], opt=False)", "Expectations", 0.5),
    op("occupations", "chain", "observe", [S_ST], None, "_v = ({a0}.e_occupations, {a0}.ph_occupations)", "Expectations"),
    op("norm", "chain", "observe", [S_ST], None, "_v = ({a0}.norm, {a0}.mp_norm)", "Norm"),
    op("mp_norm", "chain", "observe", [("mpo",)], None, "_v = {a0}.mp_norm", "Norm", 0.5),
    op("distance", "chain", "observe", [S_ANY, "=0"], None, "_v = {a0}.distance({a1})", "Distance", 1.5),
    op("angle", "chain", "observe", [S_ANY, "=0"], None, "_v = ({a0}.angle({a1}), {a0}.conj().dot({a1}))", "Norm", 0.7),
    op("rdm1", "chain", "observe", [("mps",)], None, "_v = {a0}.calc_1site_rdm()", "Rdm"),
    op("rdm2", "chain", "observe", [("mps",)], None, "_v = {a0}.calc_2site_rdm()", "Rdm", 0.7),
    op("rdm_edof", "chain", "observe", [S_ST], None, "_v = {a0}.calc_edof_rdm()", "Rdm", 0.7),
    op("entropy_1site", "chain", "observe", [("mps",)], None, "_v = {a0}.calc_entropy('1site')", "Entropy", 0.7),
    op("entropy_bond", "chain", "observe", [("mps",)], None, "_v = ({a0}.calc_bond_entropy(), {a0}.calc_bond_singular_values())", "Entropy"),
    op("entropy_mutual", "chain", "observe", [("mps",)], None, "_v = {a0}.calc_2site_mutual_entropy()", "Entropy", 0.5),
    op("dense", "chain", "observe", [S_ANY], None, "_v = ({a0}.todense(), {a0}.bond_dims, str({a0}))", "Dense", 0.7),
]
# ---- chains: in place
OPS += [
    op("scale_in", "chain", "mutate", [S_ANY], None, "{t}.scale(1.3, inplace=True)", "ScaleIn", 1.5),
    op("scale_in_cplx", "chain", "mutate", [S_ANY], None, "{t}.scale(0.4 - 0.7j, inplace=True)", "ScaleIn"),
    op("to_complex_in", "chain", "mutate", [S_ANY], None, "{t}.to_complex(inplace=True)", "ToComplexIn"),
    op("cano_in_left", "chain", "mutate", [S_ANY], None, "{t}.ensure_left_canonical()", "CanonicaliseIn"),
    op("cano_in_right", "chain", "mutate", [S_ANY], None, "{t}.ensure_right_canonical()", "CanonicaliseIn"),
    op("compress_in", "chain", "mutate", [S_ANY], None, "{t}.ensure_right_canonical()\n{t}.compress(temp_m_trunc=2)", "CompressIn", 1.5),
    op("normalize_in", "chain", "mutate", [S_ST], None, "{t}.normalize('mps_and_coeff')", "NormalizeIn"),
    op("normalize_in2", "chain", "mutate", [S_ST], None, "{t}.normalize('mps_norm_to_coeff')", "NormalizeIn", 0.5),
    op("setitem", "chain", "mutate", [S_ANY], None, "{t}[1] = {t}[1].array * 1.5", "SetItem"),
    op("setcoeff", "chain", "mutate", [S_ST], None, "{t}.coeff = {t}.coeff * 0.5", "SetCoeff"),
    op("poke", "chain", "mutate", [S_ANY], None, "for _i in range(len({t})):\n    {t}[_i].array[...] *= 1.1", "PokeSites", 1.5),
]
# ---- trees
T_ST = ("ttns",)
OPS += [
    op("copy", "tree", "derive", [T_ST], "=0", "{r} = {a0}.copy()", "Copy", 2.0),
    op("metacopy_fill", "tree", "derive", [T_ST], "=0",
       "{r} = {a0}.metacopy()\nfor _n1, _n2 in zip({r}.node_list, {a0}.node_list):\n    _n1.tensor = _n2.tensor * 1.5\n    _n1.qn = _n2.qn.copy()", "MetacopyFill"),
    op("to_complex", "tree", "derive", [T_ST], "=0", "{r} = {a0}.to_complex()", "ToComplex"),
    op("scale_real", "tree", "derive", [T_ST], "=0", "{r} = {a0}.scale(1.7)", "Scale"),
    op("scale_cplx", "tree", "derive", [T_ST], "=0", "{r} = {a0}.scale(0.5 + 0.8j)", "Scale"),
    op("add", "tree", "derive", [T_ST, "=0"], "=0", "{r} = {a0}.add({a1})", "Add", 2.0, "add"),
    op("plus", "tree", "derive", [T_ST, "=0"], "=0", "{r} = {a0} + {a1}", "Add", 1.0, "add"),
    op("apply", "tree", "derive", [("ttno",), T_ST], "=1", "{r} = {a0}.apply({a1})", "Apply", 1.5, "apply"),
    op("apply_cano", "tree", "derive", [("ttno",), T_ST], "=1", "{r} = {a0}.apply({a1}, canonicalise=True)", "Apply", 0.7, "apply"),
    op("matmul", "tree", "derive", [("ttno",), T_ST], "=1", "{r} = {a0} @ {a1}", "Apply", 0.7, "apply"),
    op("contract", "tree", "derive", [("ttno",), T_ST], "=1", "{r} = {a0}.contract({a1})", "Contract", 1.5, "cmp"),
    op("cano_copy", "tree", "derive", [T_ST], "=0", "{r} = {a0}.copy()\n{r}.canonicalise()", "CanoCopy"),
    op("compress_copy", "tree", "derive", [T_ST], "=0", "{r} = {a0}.copy()\n{r}.canonicalise()\n{r}.compress(temp_m_trunc=2)", "CompressCopy", 1.0, "cmp"),
    op("reload", "tree", "derive", [T_ST], "=0",
       "{r} = c13_reload({a0}, TTNS, basis_tree)\n{r}.compress_config = {a0}.compress_config.copy()", "Reload", 1.5),
    op("expand_hint", "tree", "derive", [T_ST, ("ham",)], "=0",
       "{a0}.compress_config = CompressConfig(CompressCriteria.fixed, max_bonddim=6)\n{r} = expand_bond_dimension_general({a0}, hint_mpo={a1})", "Expand", 1.5, "cmp6"),
    op("expand_random", "tree", "derive", [T_ST], "=0",
       "{a0}.compress_config = CompressConfig(CompressCriteria.fixed, max_bonddim=6)\n{r} = expand_bond_dimension_general({a0})", "Expand", 0.7, "cmp6"),
    op("csum1", "tree", "derive", [T_ST], "=0", "{r} = compressed_sum([{a0}])", "CompressedSum", 1.0, "cmp"),
    op("csum2", "tree", "derive", [T_ST, "=0"], "=0", "{r} = compressed_sum([{a0}, {a1}])", "CompressedSum", 1.0, "cmp"),
]
for pyname, coqname in TREE_SCHEMES:
    for tname, dt in (("real", "0.05"), ("imag", "-0.05j")):
        code = ("{a0}.evolve_config = EvolveConfig(EvolveMethod.%s, force_ovlp=False)\n{r} = {a0}.evolve({a1}, %s)" % (pyname, dt))
        OPS.append(op("evolve_%s_%s" % (pyname, tname), "tree", "derive", [T_ST, ("ham",)], "=0", code,
                      "(Evolve %s)" % coqname, 1.6, "cmp"))
OPS += [
    op("expectation", "tree", "observe", [T_ST, ("ttno",)], None, "_v = {a0}.expectation({a1})", "Expectation", 1.5),
    op("norm", "tree", "observe", [T_ST], None, "_v = ({a0}.norm, {a0}.ttns_norm)", "Norm"),
    op("rdm1", "tree", "observe", [T_ST], None, "_v = ({a0}.calc_1site_rdm(), {a0}.calc_1dof_rdm())", "Rdm"),
    op("rdm2", "tree", "observe", [T_ST], None, "_v = {a0}.calc_2site_rdm([(0, 1)])", "Rdm", 0.7),
    op("entropy", "tree", "observe", [T_ST], None, "_v = ({a0}.calc_bond_entropy(), {a0}.calc_1site_entropy())", "Entropy"),
    op("dense", "tree", "observe", [T_ST], None, "_v = ({a0}.todense(), {a0}.bond_dims)", "Dense", 0.7),
    op("dense_op", "tree", "observe", [("ttno",)], None, "_v = {a0}.todense()", "Dense", 0.4),
    op("scale_in", "tree", "mutate", [T_ST], None, "{t}.scale(1.3, inplace=True)", "ScaleIn", 1.5),
    op("scale_in_cplx", "tree", "mutate", [T_ST], None, "{t}.scale(0.4 - 0.7j, inplace=True)", "ScaleIn"),
    op("to_complex_in", "tree", "mutate", [T_ST], None, "{t}.to_complex(inplace=True)", "ToComplexIn"),
    op("cano_in", "tree", "mutate", [T_ST], None, "{t}.canonicalise()", "CanonicaliseIn"),
    op("compress_in", "tree", "mutate", [T_ST], None, "{t}.canonicalise()\n{t}.compress(temp_m_trunc=2)", "CompressIn", 1.5),
    op("normalize_in", "tree", "mutate", [T_ST], None, "{t}.normalize('ttns_and_coeff')", "NormalizeIn"),
    op("setcoeff", "tree", "mutate", [T_ST], None, "{t}.coeff = {t}.coeff * 0.5", "SetCoeff"),
    op("poke", "tree", "mutate", [T_ST, ], None, "for _n in {t}.node_list:\n    _n.tensor *= 1.1", "PokeSites", 1.5),
    op("poke_op", "tree", "mutate", [("ttno",)], None, "for _n in {t}.node_list:\n    _n.tensor *= 1.1", "PokeSites", 0.5),
]

INIT = {"chain": {"a": ("mps", 4), "b": ("mps", 3), "c": ("mps", 4), "al": ("mps", 3), "d": ("mpdm", 2), "h0": ("mpo", 4), "h1": ("mpo", 4),
                  "o1": ("mpo", 1), "o2": ("mpo", 1), "o3": ("mpo", 1)},
        "tree": {"a": ("ttns", 4), "b": ("ttns", 3), "c": ("ttns", 4), "al": ("ttns", 3), "cl": ("ttns", 3),
                 "h0": ("ttno", 4), "o1": ("ttno", 1), "o2": ("ttno", 1)}}
LOADED = {"al", "cl"}            # provenance dump -> load
HAMS = {"chain": ["h0", "h1"], "tree": ["h0"]}
MAXM = 48


def kind_ok(spec, kind, name, world):
    if spec == ("ham",):
        return name in HAMS[world]
    return kind in spec


def gen_program(rng, world, pid, length=None, force_op=None):
    """random program 'derive b from a (and maybe c), mutate one, observe the other'"""
    objs = dict(INIT[world])                 # name -> (kind, estimated bond)
    derived = []                             # (result, [operands])
    loaded_desc = set()                      # results derived from objects that went through dump -> load
    n = length or rng.randint(2, 8)
    ops_w = [o for o in OPS if o["world"] == world]
    steps = []
    have_mut = False
    for i in range(n):
        if force_op is not None and i == 0:
            cands = [force_op]
        else:
            if i == 0:
                cat = "derive"
            elif i == n - 1 and not have_mut:
                cat = "mutate"
            else:
                cat = rng.choices(["derive", "mutate", "observe"], [0.5, 0.25, 0.25])[0]
            cands = [o for o in ops_w if o["cat"] == cat]
        for _try in range(30):
            o = rng.choices(cands, [c["w"] for c in cands])[0]
            names = []
            ok = True
            for k, spec in enumerate(o["args"]):
                if spec == "=0":
                    pool = [x for x in objs if objs[x][0] == objs[names[0]][0]]
                else:
                    pool = [x for x in objs if kind_ok(spec, objs[x][0], x, world)]
                # prefer operands that are related to earlier results, and targets that are results or their inputs
                rel = [x for x in pool if any(x == r or x in a for r, a in derived)]
                if rel and rng.random() < 0.7:
                    pool = rel
                lo = [x for x in pool if x in LOADED or x in loaded_desc]
                if lo and rng.random() < 0.35:
                    pool = lo
                if not pool:
                    ok = False
                    break
                names.append(rng.choice(sorted(pool)))
            if not ok:
                continue
            ms = [objs[x][1] for x in names]
            g = o["grow"]
            newm = ms[0] if ms else 1
            if g == "add":
                newm = ms[0] + ms[1]
            elif g == "apply":
                newm = ms[0] * ms[1]
            elif g == "apply_r":
                newm = ms[0] * ms[1]
            elif g == "cmp6":
                newm = 6
            elif g == "cmp":
                newm = min(max(ms), 4) if o["model"] != "CompressedSum" else 4
            if newm > MAXM:
                continue
            break
        else:
            continue
        st = {"op": o["name"], "model": o["model"], "cat": o["cat"], "args": names, "res": None, "target": None,
              "kinds": [objs[x][0] for x in names]}
        fmt = {"a%d" % k: nm for k, nm in enumerate(names)}
        if o["cat"] == "derive":
            r = "r%d" % i
            st["res"] = r
            fmt["r"] = r
            rk = o["res"]
            kind = objs[names[int(rk[1])]][0] if rk.startswith("=") else rk
            if o["model"] == "FromMps":
                newm = ms[0]
            objs[r] = (kind, newm)
            derived.append((r, list(names)))
            if o["model"] == "Reload" or any(x in LOADED or x in loaded_desc for x in names):
                loaded_desc.add(r)
        elif o["cat"] == "mutate":
            st["target"] = names[0]
            fmt["t"] = names[0]
            have_mut = True
            if o["model"] == "CompressIn":
                objs[names[0]] = (objs[names[0]][0], min(objs[names[0]][1], 2))
        st["code"] = o["code"].format(**fmt)
        steps.append(st)
    return {"world": world, "id": pid, "steps": steps}


# --------------------------------------------------------------------------------------------------
FIELD_COQ = {"site": "FSite", "label": "FLabel", "qntot": "FQntot", "coeff": "FCoeff", "meta": "FMeta"}


def obs_summary(st, ob):
    """field-level effect summary of one executed step (what is compared with the model's signature)"""
    arg_rw = set()
    for v in ob["arg_rewritten"].values():
        arg_rw |= set(v["rebound"]) | set(v["modified"])
    args = set(st["args"])
    share = set()
    cross = False
    rs = [tuple(x) for x in ob.get("result_shares", [])]
    # result slots that share a buffer with the same field of an operand (what a signature may declare)
    via_operand = {(rf, slot) for rf, name, of, slot in rs if name in args and rf == of}
    for rf, name, of, slot in rs:
        if name in args and rf == of:
            share.add(rf)
        elif rf == of and (rf, slot) in via_operand:
            pass        # the operand's buffer is also held by another object (sharing declared earlier): transitive
        else:
            cross = True
    if ob.get("result_is_input"):
        cross = True
    return {"arg_rw": sorted(arg_rw), "tgt_w": sorted(ob["target_written"]), "share": sorted(share), "cross": cross,
            "bystander": bool(ob["bystander_rewritten"]), "value_changed": bool(ob["value_changed"])}


def coq_obs(world, st, sm):
    fl = lambda xs: "[" + "; ".join(FIELD_COQ[x] for x in xs) + "]"
    b = lambda x: "true" if x else "false"
    return "mkObs %s %s %s %s %s %s %s %s" % ("Chain" if world == "chain" else "Tree", st["model"], fl(sm["arg_rw"]),
                                             fl(sm["tgt_w"]), fl(sm["share"]), b(sm["cross"]), b(sm["bystander"]),
                                             b(sm["value_changed"]))


REPLAY_TAIL = r'''
import sys
_w = %(world)s_world(%(seed)d)
globals().update(_w)
_watch = %(watch)r            # objects that are never the in-place target of a step
_steps = %(steps)r
_before = {}
_scale = {}
np.random.seed(0)
for _c in _steps + [None]:
    for k in _watch:
        if k in globals() and k not in _before:
            _before[k] = np.array(c13_dense(globals()[k]), dtype=complex)   # value when first seen / created
            _scale[k] = c13_scale(globals()[k])
    if _c is not None:
        print(">>>", _c.replace("\n", "\n    "))
        exec(_c, globals())
_bad = 0
for k in %(probe)r:               # objects that must still be usable: the library's own todense() of them and of a copy
    try:
        globals()[k].todense()
        if hasattr(globals()[k], "copy") and not type(globals()[k]).__name__.endswith("TTNO"):
            globals()[k].copy().todense()
        print("object", k, ": todense() works")
    except Exception as _e:
        print("object", k, "is unusable after the program:", type(_e).__name__, _e)
        _bad = 1
for k in _watch:
    _after = np.array(c13_dense(globals()[k]), dtype=complex)
    _d = float(np.abs(_after - _before[k]).max()) if _after.shape == _before[k].shape else float("inf")
    print("object", k, "(never an in-place target): max |change of tensors x prefactor| =", _d)
    if not _d <= 1e-12 * max(1.0, float(np.abs(_before[k]).max()), _scale[k]):
        _bad = 1
sys.exit(_bad)
'''


def make_repro(world, seed, steps, watch, world_src, dense_src, probe=()):
    return world_src + dense_src + REPLAY_TAIL % {"world": world, "seed": seed, "watch": watch, "probe": list(probe),
                                                   "steps": [s["code"] for s in steps]}


def impl_sources():
    """WORLD_SRC / DENSE_SRC of the observation script (the replay preamble is literally the same text)"""
    txt = open(os.path.join(common.VERIF, "harness", "impl", "c13_obs.py")).read()
    w = re.search(r"WORLD_SRC = r'''(.*?)'''", txt, re.S).group(1)
    d = re.search(r"DENSE_SRC = r'''(.*?)'''", txt, re.S).group(1)
    return w, d


def minimise(ctx, p, idx, watch):
    """drop steps that are not needed for the change of `watch` (greedy, re-running the real code)"""
    cur = p["steps"][:idx + 1]
    i = len(cur) - 2
    while i >= 0:
        cand = cur[:i] + cur[i + 1:]
        defined = set(INIT[p["world"]])
        okc = True
        for s_ in cand:
            if any(a_ not in defined for a_ in s_["args"]):
                okc = False
                break
            if s_["res"]:
                defined.add(s_["res"])
        if okc and watch in defined:
            rc_, res_, out_ = ctx.impl("c13_obs.py", {"seed": ctx.seed, "programs": [{"world": p["world"], "id": "min", "seed": p["seed"], "steps": cand}]}, timeout=200)
            if res_ and res_[0]["error"] is None and res_[0]["steps"] and \
                    any(v["name"] == watch for v in res_[0]["steps"][-1]["value_changed"]):
                cur = cand
        i -= 1
    return cur


def declared_site_sharing(ctx):
    """(world, model op) -> True iff Model/Heap.v's signature declares FSite sharing for it (evaluated in Coq)"""
    pairs = sorted({(o["world"], o["model"]) for o in OPS if o["cat"] == "derive"})
    body = "; ".join("(%s, %s)" % ("Chain" if w == "chain" else "Tree", m) for w, m in pairs)
    rc, out = ctx.coq_eval("declared", "From Coq Require Import List ZArith.\nImport ListNotations.\nFrom RV Require Import Gen.EvolveEntry Model.Heap.\n"
                                       "Eval vm_compute in (map (fun wo => if fmem FSite (s_share (gsig_of (fst wo) (snd wo))) then 1%%Z else 0%%Z) [%s])." % body)
    fl = common.parse_Z_list(out) if rc == 0 else None
    if fl is None or len(fl) != len(pairs):
        return {}
    return {pr: bool(f) for pr, f in zip(pairs, fl)}


def apply_declared_sharing(p, r, declared):
    """DESIGN 12: buffers that a result shares with an operand in a field the signature DECLARES as shared
    (chain conj of a real object: site buffers) count only if a public operation writes through them.  The only
    generated step that writes into existing buffers is the raw `poke` (user code, not a library operation): a
    change it causes in an object that shares a site buffer with its target is counted separately and removed
    from the observation.  Library in-place operations get no such excuse."""
    edges = set()
    excused = []
    for st, ob in zip(p["steps"], r["steps"]):
        for rf, name, of, _slot in ob.get("result_shares", []):
            if rf == "site" and of == "site" and st["res"] and name in st["args"] and declared.get((p["world"], st["model"])):
                edges.add(frozenset((st["res"], name)))
        if st["model"] == "PokeSites" and st["target"] and edges:
            grp = {st["target"]}
            grown = True
            while grown:
                grown = False
                for e in edges:
                    if e & grp and not e <= grp:
                        grp |= e
                        grown = True
            grp.discard(st["target"])
            hit = [v for v in ob["value_changed"] if v["name"] in grp]
            if hit or any(k in grp for k in ob["bystander_rewritten"]):
                excused.append({"step": st["code"], "objects": sorted(grp), "program": [s_["code"] for s_ in p["steps"]]})
            ob["value_changed"] = [v for v in ob["value_changed"] if v["name"] not in grp]
            ob["bystander_rewritten"] = {k: v for k, v in ob["bystander_rewritten"].items() if k not in grp}
            ob["arg_rewritten"] = {k: v for k, v in ob["arg_rewritten"].items() if k not in grp}
    return excused


def run(ctx):
    ctx.trusted += [
        "translator tx/evolveentry.py (python ast -> entry kind / writes-to-input / return status; flow-sensitive alias scan, fail-closed on unknown statements; purity lists of callees are part of the translator)",
        "observation harness harness/impl/c13_obs.py (own NumPy contraction of raw buffers, np.shares_memory, byte comparison) and its encoding of observed effects as Coq terms",
        "modelled, not verified: CPython/NumPy aliasing semantics as observed (views, in-place ufuncs); the heap model knows only what the signatures say; denotation-preservation of gauge changes (QR) is observed to 1e-12, proved only for the prefactor folding",
    ]
    ctx.assumptions += ["interpretation (DESIGN 12): sharing of configuration objects is reported, not a violation; shared label buffers count only if a public operation writes through them",
                        "exempt by documentation: optimize_mps overwrites its guess; on-the-fly swapping re-orders the Hamiltonian in place (not generated)"]
    quick = ctx.tier == "quick"
    # ------------------------------------------------------------------ 1. translator
    tab = None
    try:
        text, tab = txee.main(common.REPO)
        ctx.regen("Gen/EvolveEntry.v", text)
    except Exception as e:
        ctx.notes.append("translator tx/evolveentry.py failed: %r" % (e,))
    oprows = None
    try:
        otext, oprows = txop.main(common.REPO)
        ctx.regen("Gen/OpEntries.v", otext)
    except Exception as e:
        ctx.notes.append("translator tx/opentries.py failed: %r" % (e,))
    # ------------------------------------------------------------------ 2. Coq
    ok_model, mlog = ctx.coq_make(["Model/Heap.vo"])
    ok_build, log = ctx.coq_make(["Proofs/HeapProofs.vo", "Proofs/HeapGaugeProofs.vo"])
    ok_props = False
    if ok_build:
        ok_props, log = ctx.props("Props/C13.v")
    else:
        ctx.obligations.append({"name": "C13 (build of Gen/EvolveEntry.v + Model/Heap.v + Proofs/HeapProofs.v)",
                                "file": "Proofs/HeapProofs.v", "ok": False, "assumptions": None})
    if ok_props and not quick:
        # thorough tier: independent re-check of the compiled property file
        rc_chk, out_chk = common.sh(["timeout", "900", "coqchk", "-o", "-silent", "-Q", ".", "RV", "RV.Props.C13"], cwd=common.COQ, timeout=930)
        clean = rc_chk == 0 and "Axioms: <none>" in out_chk
        ctx.obligations.append({"name": "coqchk -o RV.Props.C13 (no axioms, no assumed positivity / guard)", "file": "Props/C13.vo",
                                "ok": clean, "assumptions": [] if clean else None})
        if not clean:
            ok_props = False
            log = out_chk
    if tab is None:
        ctx.obligations.append({"name": "translator tx/evolveentry.py", "file": "tx/evolveentry.py", "ok": False, "assumptions": None})
    else:
        ctx.obligations.append({"name": "translator tx/evolveentry.py (%d entry rows, %d compressed_sum call sites)" % (len(tab["rows"]), len(tab["batches"])),
                                "file": "tx/evolveentry.py", "ok": True, "assumptions": []})
    if oprows is None:
        ctx.obligations.append({"name": "translator tx/opentries.py", "file": "tx/opentries.py", "ok": False, "assumptions": None})
    else:
        ctx.obligations.append({"name": "translator tx/opentries.py (%d operation rows)" % len(oprows),
                                "file": "tx/opentries.py", "ok": True, "assumptions": []})
    # which generated rows fail sig_ok (for the report): evaluated in Coq, independent of Props compiling
    bad_rows = []
    rc, out = ctx.coq_eval("sigok", "From Coq Require Import List String ZArith.\nImport ListNotations.\n"
                                     "From RV Require Import Gen.EvolveEntry Model.Heap.\n"
                                     "Eval vm_compute in (map (fun e => if sig_ok e then 1%Z else 0%Z) entries).\n")
    flags = common.parse_Z_list(out) if rc == 0 else None
    if flags is not None and tab is not None and len(flags) == len(tab["rows"]):
        bad_rows = [tab["rows"][i] for i, f in enumerate(flags) if f == 0]
    # which covered operations have inadmissible generated rows / disagree with the hand table
    bad_ops = []
    rc, out = ctx.coq_eval("opsok", "From Coq Require Import List String ZArith.\nImport ListNotations.\n"
                                     "From RV Require Import Model.Heap.\n"
                                     "Eval vm_compute in (flat_map (fun wo => [if gen_ok (fst wo) (snd wo) then 1%Z else 0%Z; "
                                     "if tables_agree (fst wo) (snd wo) then 1%Z else 0%Z]) covered_ops).\n")
    oflags = common.parse_Z_list(out) if rc == 0 else None
    rc, out = ctx.coq_eval("opsnames", "From Coq Require Import List String.\nImport ListNotations.\nFrom RV Require Import Model.Heap.\n"
                                        "Eval vm_compute in (map (fun wo => map (fun k => fst (fst (fst k))) (op_rows (fst wo) (snd wo))) covered_ops).\n")
    groups = re.findall(r"\[((?:\s*\"[^\"]*\"(?:%string)?;?)+)\s*\]", out.replace("\n", " ")) if rc == 0 else []
    if oflags is not None and len(oflags) == 2 * len(groups):
        for i, g in enumerate(groups):
            fns = re.findall(r'"([^"]*)"', g)
            if oflags[2 * i] == 0 or oflags[2 * i + 1] == 0:
                rows_ = [r for r in (oprows or []) if r["fn"] in fns]
                bad_ops.append({"methods": sorted(set(fns)), "rows_admissible": bool(oflags[2 * i]), "agrees_with_hand_table": bool(oflags[2 * i + 1]),
                                "rows": [{"fn": r["fn"], "variant": r["variant"], "param": r["param"], "returns_param": r["ret_in"],
                                          "share": sorted(r["shares"]),
                                          "writes": [(w["kind"], w["fields"], w["what"][:60]) for w in r["writes"] if w["kind"] not in ("config_store", "config_share")]}
                                         for r in rows_]})
    rc, out = ctx.coq_eval("inplace", "From Coq Require Import List ZArith.\nImport ListNotations.\nFrom RV Require Import Model.Heap.\n"
                                       "Eval vm_compute in (map (fun w => if inplace_ok w then 1%Z else 0%Z) [Chain; Tree]).\n")
    ipf = common.parse_Z_list(out) if rc == 0 else None
    if ipf is not None and len(ipf) == 2 and 0 in ipf:
        rows_ = [r for r in (oprows or []) if any(w.get("inplace") for w in r["writes"])]
        bad_ops.append({"in_place_update_of_a_shareable_field": [w_ for w_, f_ in zip(("chain", "tree"), ipf) if f_ == 0],
                        "methods": sorted({r["fn"] for r in rows_}),
                        "rows": [{"fn": r["fn"], "variant": r["variant"], "param": r["param"],
                                  "inplace": sorted({f for w in r["writes"] for f in w.get("inplace", ())}),
                                  "writes": [(w["kind"], w["fields"], w["what"][:60]) for w in r["writes"] if w.get("inplace")]} for r in rows_]})
    # ------------------------------------------------------------------ 3. observation on the real code
    nprog = {"chain": 300 if quick else 2400, "tree": 130 if quick else 1100}
    programs = []
    for world in ("chain", "tree"):
        # every operation at least once as the first step, then free programs
        k = 0
        for o in [o for o in OPS if o["world"] == world]:
            reps = 1 if quick else 3
            for _ in range(reps):
                p = gen_program(ctx.rng, world, "%s-cov-%d" % (world, k), force_op=o)
                p["seed"] = ctx.rng.randrange(1000)
                programs.append(p)
                k += 1
        for j in range(nprog[world]):
            p = gen_program(ctx.rng, world, "%s-%d" % (world, j))
            p["seed"] = ctx.rng.randrange(1000)
            programs.append(p)
    # light shards (a retry is cheap), generous time limits (idle: quick ~30 s, thorough ~3 min of observation; the limit
    # only guards against a hung process), one retry of a shard that timed out / produced no result.  A shard that fails
    # twice by TIMEOUT is a lack of machine time, not evidence about the code: it is recorded in the notes and reduces the
    # coverage, it is not a violation.  A crash of the harness (traceback) still is reported as a machinery fault.
    import tempfile
    import shutil
    nshard = 14 if quick else 42
    shards = [programs[i::nshard] for i in range(nshard)]
    tmpd = tempfile.mkdtemp(prefix="c13_obs_")
    limit = 900 if quick else 3600
    byid = {}
    harness_errors = []
    timed_out = []
    pending = list(range(nshard))
    for attempt in (0, 1):
        if not pending:
            break
        payloads = [{"seed": ctx.seed, "out": os.path.join(tmpd, "shard%d_%d.json" % (i, attempt)), "programs": shards[i]} for i in pending]
        results = ctx.impl_par("c13_obs.py", payloads, timeout=limit, par=14)
        again = []
        for i, (rc_, res, out_) in zip(pending, results):
            try:
                res = json.load(open(res["file"]))
            except Exception:
                is_timeout = rc_ == 124 or "[timeout]" in (out_ or "") or not (out_ or "").strip()
                if attempt == 0:
                    again.append(i)
                elif is_timeout:
                    timed_out.append(i)
                else:
                    harness_errors.append((out_ or "")[-600:])
                continue
            for r in res:
                byid[r["id"]] = r
        if again:
            ctx.notes.append("observation shards retried once (no result at the first attempt): %s" % again)
        pending = again
    shutil.rmtree(tmpd, ignore_errors=True)
    if timed_out:
        ctx.notes.append("observation shards skipped after two timeouts of %d s (machine load; NOT a violation; coverage reduced by %d programs): %s"
                         % (limit, sum(len(shards[i]) for i in timed_out), timed_out))
    if not byid and programs:
        harness_errors.append("no observation shard produced a result (timeouts: %s)" % timed_out)
    # ------------------------------------------------------------------ evaluate observations
    obs_terms = []        # (prog, step index, coq term)
    cover = {}            # (world, op, kinds) -> count of executions that did not raise
    raised = {}
    violations = []       # value changes: (prog, idx, names)
    unusable = []         # (prog, idx, [{name, error}]): an object whose todense() worked before the step and fails after it
    cfg_shared = {}
    label_shared = {}
    n_steps = 0
    nontrivial = 0
    write_through = []
    declared = declared_site_sharing(ctx) if ok_model else {}
    for p in programs:
        r = byid.get(p["id"])
        if r is None:
            continue
        if r["error"]:
            harness_errors.append(r["error"][-600:])
            continue
        touched = False
        write_through += apply_declared_sharing(p, r, declared)
        for idx, (st, ob) in enumerate(zip(p["steps"], r["steps"])):
            n_steps += 1
            key = (p["world"], st["op"], ",".join(st["kinds"]))
            if ob["raised"]:
                raised.setdefault((p["world"], st["op"], ob["raised"][:80]), 0)
                raised[(p["world"], st["op"], ob["raised"][:80])] += 1
            else:
                cover[key] = cover.get(key, 0) + 1
            sm = obs_summary(st, ob)
            obs_terms.append((p, idx, coq_obs(p["world"], st, sm), sm))
            if ob["value_changed"]:
                violations.append((p, idx, [v["name"] for v in ob["value_changed"]], ob))
            if ob.get("unusable"):
                unusable.append((p, idx, ob["unusable"]))
            for a, k in ob.get("cfg_shared", []):
                cfg_shared[(p["world"], st["op"], a)] = cfg_shared.get((p["world"], st["op"], a), 0) + 1
            for rf, name, of, _slot in ob.get("result_shares", []):
                label_shared[(p["world"], st["op"], rf, of)] = label_shared.get((p["world"], st["op"], rf, of), 0) + 1
            if st["cat"] == "mutate" and ob.get("target_value_changed"):
                touched = True
        if touched:
            nontrivial += 1
    # model side: within_sig for every observation (Coq, vm_compute)
    sig_fail = []
    model_ok = True
    if ok_model and obs_terms:
        items = []
        per = 400
        for k in range(0, len(obs_terms), per):
            chunk = obs_terms[k:k + per]
            body = ";\n  ".join(t[2] for t in chunk)
            items.append(("obs_%d" % (k // per),
                          "From Coq Require Import List ZArith.\nImport ListNotations.\nFrom RV Require Import Gen.EvolveEntry Model.Heap.\n"
                          "Definition cases : list obs := [\n  %s].\n"
                          "Eval vm_compute in (map (fun o => if within_sig o then 1%%Z else 0%%Z) cases).\n" % body))
        outs = ctx.coq_eval_many(items)
        for k in range(0, len(obs_terms), per):
            rc_, o_ = outs.get("obs_%d" % (k // per), (1, ""))
            fl = common.parse_Z_list(o_) if rc_ == 0 else None
            chunk = obs_terms[k:k + per]
            if fl is None or len(fl) != len(chunk):
                model_ok = False
                ctx.notes.append("model evaluation of observations failed: " + o_[-400:])
                continue
            for (p, idx, term, sm), f in zip(chunk, fl):
                if f == 0:
                    sig_fail.append((p, idx, term, sm))
    elif obs_terms:
        model_ok = False
    # ------------------------------------------------------------------ aliasing probes
    # a result that shares a buffer with an operand outside the signature is probed at once: the same program followed
    # by an in-place operation (library scale(inplace=True), then a raw buffer write) on the result resp. on the operand
    def mk_mut(world, opname, tgt):
        o_ = [x for x in OPS if x["world"] == world and x["name"] == opname][0]
        return {"op": o_["name"], "model": o_["model"], "cat": "mutate", "args": [tgt], "res": None, "target": tgt,
                "kinds": ["?"], "code": o_["code"].format(t=tgt)}
    probes = []
    seen_probe = set()
    sig_fail_ids = {(x[0]["id"], x[1]) for x in sig_fail}
    cand = [(p, idx, sm, True) for p, idx, term, sm in sig_fail]
    # declared sharing of a mutable prefactor / qntot object (dump -> load provenance): probe it with the library's own
    # in-place operations -- no library operation may write through it
    for p, idx, term, sm in obs_terms:
        if (p["id"], idx) not in sig_fail_ids and p["steps"][idx]["cat"] == "derive" and (set(sm["share"]) & {"coeff", "qntot"}):
            cand.append((p, idx, sm, False))
    for p, idx, sm, outside in cand:
        st = p["steps"][idx]
        if st["cat"] != "derive" or not (sm["share"] or sm["cross"]) or len(seen_probe) >= 10:
            continue
        k_ = (p["world"], re.sub(r"_(real|imag)(_adaptive)?$", "", st["op"]), outside)
        if k_ in seen_probe:
            continue
        seen_probe.add(k_)
        partners = sorted({x[1] for x in byid[p["id"]]["steps"][idx].get("result_shares", [])} |
                          set(byid[p["id"]]["steps"][idx].get("result_is_input") or []))
        muts = ("scale_in", "poke") if outside else (("normalize_in", "normalize_in2", "scale_in") if p["world"] == "chain" else ("normalize_in", "scale_in"))
        for mut in muts:
            for tgt in [st["res"]] + partners[:1]:
                if mut.startswith("normalize") and p["world"] == "chain" and st["kinds"] and "mpo" in (st["kinds"][-1],) and tgt == st["res"]:
                    continue
                q = {"world": p["world"], "id": "probe-%d" % len(probes), "seed": p["seed"],
                     "steps": p["steps"][:idx + 1] + [mk_mut(p["world"], mut, tgt)]}
                probes.append(q)
    if probes:
        rc_, res_, out_ = ctx.impl("c13_obs.py", {"seed": ctx.seed, "programs": probes}, timeout=300)
        for q, r_ in zip(probes, res_ or []):
            if r_["error"] or len(r_["steps"]) != len(q["steps"]):
                continue
            byid[q["id"]] = r_
            programs.append(q)
            last = r_["steps"][-1]
            if last["value_changed"]:
                violations.append((q, len(q["steps"]) - 1, [v["name"] for v in last["value_changed"]], last))
            if last.get("unusable"):
                unusable.append((q, len(q["steps"]) - 1, last["unusable"]))
    # ------------------------------------------------------------------ report
    world_src, dense_src = impl_sources()
    reported = set()
    fam = lambda o_: re.sub(r"_(real|imag)(_adaptive)?$", "", o_)
    for p, idx, names, ob in violations:
        st = p["steps"][idx]
        key = "%s:%s:input-changed" % (p["world"], fam(st["op"]))
        what = "the operation changed tensors x prefactor of an object that is not its in-place target"
        if st["cat"] == "mutate":
            # was the changed object aliased with the target by an earlier result-producing step?
            origin = None
            r_ = byid[p["id"]]
            for j in range(idx):
                sj, oj = p["steps"][j], r_["steps"][j]
                if not sj["res"]:
                    continue
                linked = {x[1] for x in oj.get("result_shares", [])} | set(oj.get("result_is_input") or [])
                pair = {sj["res"]} | linked
                if st["target"] in pair and any(n_ in pair for n_ in names) and len(pair) > 1:
                    origin = sj
                    break
            if origin is not None:
                key = "%s:%s:result-aliases-input" % (p["world"], fam(origin["op"]))
                what = "a result shares buffers with (or is) its input: mutating one in place changed the other"
            else:
                key = "%s:%s:untouched-object-changed" % (p["world"], st["op"])
        if key in reported:
            continue
        if len(reported) >= 8:
            ctx.notes.append("further value changes not reported separately (cap 8 replays per run)")
            break
        reported.add(key)
        seed = ctx.seed + p["seed"]
        steps = p["steps"][:idx + 1]
        try:
            steps = minimise(ctx, p, idx, names[0])
        except Exception as e:
            ctx.notes.append("minimisation failed: %r" % (e,))
        repro = make_repro(p["world"], seed, steps, [names[0]], world_src, dense_src)
        ctx.violation(key, "frame property on the real code (%s); C13_frame's hypothesis 'every step obeys its signature' fails for %s in Model/Heap.v" % (what, st["model"]),
                      {"program": [s["code"] for s in steps], "changed_objects": ob["value_changed"], "step": st["code"],
                       "sig_ok_failing_rows": [r["fn"] for r in bad_rows],
                       "operations_with_inadmissible_or_disagreeing_generated_rows": [b["methods"] for b in bad_ops]},
                      found=True, repro=repro)
    # an object that could be densified before a step and cannot afterwards (e.g. a tree whose root is left attached to
    # a temporary node): the operation damaged it although tensors x prefactor may still be right
    rep_un = set()
    for p, idx, lst in unusable:
        st = p["steps"][idx]
        key = "%s:%s:object-unusable-after" % (p["world"], fam(st["op"]))
        if key in rep_un:
            continue
        rep_un.add(key)
        steps = p["steps"][:idx + 1]
        names_ = [u["name"] for u in lst]
        try:
            cur = list(steps)
            i = len(cur) - 2
            while i >= 0:
                cand_ = cur[:i] + cur[i + 1:]
                defined = set(INIT[p["world"]])
                okc = True
                for s_ in cand_:
                    if any(a_ not in defined for a_ in s_["args"]):
                        okc = False
                        break
                    if s_["res"]:
                        defined.add(s_["res"])
                if okc and all(n_ in defined for n_ in names_):
                    rc_, res_, out_ = ctx.impl("c13_obs.py", {"seed": ctx.seed, "programs": [{"world": p["world"], "id": "min", "seed": p["seed"], "steps": cand_}]}, timeout=200)
                    if res_ and res_[0]["error"] is None and res_[0]["steps"] and \
                            {u["name"] for u in res_[0]["steps"][-1].get("unusable", [])} >= set(names_):
                        cur = cand_
                i -= 1
            steps = cur
        except Exception as e:
            ctx.notes.append("minimisation failed: %r" % (e,))
        repro = make_repro(p["world"], ctx.seed + p["seed"], steps, [], world_src, dense_src, probe=names_)
        ctx.violation(key, "frame property on the real code: after %s the library can no longer densify (todense / copy().todense) objects it could before; signature of %s in Model/Heap.v" % (st["op"], st["model"]),
                      {"program": [s_["code"] for s_ in steps], "unusable_objects": lst,
                       "operations_with_inadmissible_or_disagreeing_generated_rows": [b["methods"] for b in bad_ops]},
                      found=True, repro=repro)
    # only the first step of a program that leaves its signature is reported (later steps act on an already
    # aliased / damaged state), and not at all when the program already produced a value change before it
    first_bad = {}
    for p, idx, names, ob in violations:
        first_bad[p["id"]] = min(first_bad.get(p["id"], 10 ** 9), idx)
    sig_only = []
    seen_prog = set()
    for x in sig_fail:
        p, idx = x[0], x[1]
        if p["id"] in seen_prog or first_bad.get(p["id"], 10 ** 9) <= idx:
            continue
        seen_prog.add(p["id"])
        sig_only.append(x)
    seen = set()
    all_sig_keys = sorted({"%s:%s" % (x[0]["world"], fam(x[0]["steps"][x[1]]["op"])) for x in sig_only})
    for p, idx, term, sm in sig_only:
        st = p["steps"][idx]
        key = "%s:%s:effect-outside-signature" % (p["world"], fam(st["op"]))
        if key in seen:
            continue
        if len(seen) >= 6:
            ctx.notes.append("further operations observed outside their signature (not reported separately): " + ", ".join(all_sig_keys))
            break
        seen.add(key)
        ctx.violation(key, "correspondence: observed effect of %s is outside the signature of %s in Model/Heap.v" % (st["op"], st["model"]),
                      {"program": [s["code"] for s in p["steps"][:idx + 1]], "observed": sm, "coq_term": term,
                       "observation": byid[p["id"]]["steps"][idx]}, found=False)
    if harness_errors:
        ctx.violation("harness-error", "observation harness failed (machinery fault)", {"errors": harness_errors[:3]}, found=False)
    if not model_ok:
        ctx.violation("model-eval", "Coq evaluation of within_sig failed (Model/Heap.v does not build or a cases file failed)",
                      {"log": (mlog or "")[-1500:]}, found=False)
    if tab is None or oprows is None or not ok_build or not ok_props:
        broken = []
        if tab is None:
            broken.append("translator tx/evolveentry.py")
        if oprows is None:
            broken.append("translator tx/opentries.py")
        if not ok_build or not ok_props:
            broken.append("theorem(s) of Props/C13.v: " + (", ".join(o["name"] for o in ctx.obligations if not o["ok"]) or "build"))
        if not violations and not unusable:
            ctx.violation("evolve-entry-table", "; ".join(broken),
                          {"coq_log_tail": (log or "")[-1800:],
                           "sig_ok_failing_rows": [{"fn": r["fn"], "first": r["first"], "ret": r["ret"], "writes": r["writes"]} for r in bad_rows],
                           "operations_with_inadmissible_or_disagreeing_generated_rows": bad_ops},
                          found=False)
    # ------------------------------------------------------------------ coverage
    pairs = sorted(cover)
    ops_kinds = len(pairs)
    ctx.notes.append("configuration objects shared between a result and a live object (reported, not a violation): " +
                     "; ".join("%s/%s:%s x%d" % (w, o_, a, n) for (w, o_, a), n in sorted(cfg_shared.items())))
    ctx.notes.append("buffers shared between a result and a live object: " +
                     ("; ".join("%s/%s:%s~%s x%d" % (w, o_, rf, of, n) for (w, o_, rf, of), n in sorted(label_shared.items())) or "none"))
    ctx.notes.append("raw in-place writes into a buffer shared by DECLARED sharing (chain conj of a real object shares its site buffers; no library operation writes into existing site buffers; reported, not a violation): %d%s" %
                     (len(write_through), (", e.g. " + json.dumps(write_through[0]["program"])) if write_through else ""))
    ctx.notes.append("steps that raised (not violations; inputs were still compared): " +
                     ("; ".join("%s/%s [%s] x%d" % (w, o_, e, n) for (w, o_, e), n in sorted(raised.items())) or "none"))
    samples = []
    for p in programs[:400]:
        if len(samples) >= 3:
            break
        r = byid.get(p["id"])
        if r and not r["error"] and len(p["steps"]) >= 3 and any(s["cat"] == "mutate" for s in p["steps"]) and not any(o_["raised"] for o_ in r["steps"]):
            samples.append({"world": p["world"], "program": [s["code"] for s in p["steps"]],
                            "observed": [obs_summary(s, o_) for s, o_ in zip(p["steps"], r["steps"])]})
    hist = {}
    for p in programs:
        hist[len(p["steps"])] = hist.get(len(p["steps"]), 0) + 1
    return {"evaluations": n_steps, "distinct_nontrivial": ops_kinds,
            "rule": "evaluations = executed program steps, each with before/after comparison of tensors x prefactor of every live object (1e-12), np.shares_memory of every result buffer against every live buffer, slot identity and byte comparison; distinct_nontrivial = number of distinct (world, operation, operand kinds) triples executed without raising; programs in which an in-place step really changed its target: %d" % nontrivial,
            "samples": samples, "exhaustive": False,
            "input_distribution": {"programs": len(programs), "by_length": hist, "worlds": {w: sum(1 for p in programs if p["world"] == w) for w in ("chain", "tree")},
                                   "operations_in_table": len(OPS), "op_kind_pairs_observed": ["%s/%s(%s)" % k for k in pairs],
                                   "observations_outside_signature": len(sig_fail), "value_changes": len(violations),
                                   "steps_raised": sum(raised.values())}}
