"""C01: automatic MPO construction is exact for every sum-of-products operator (+ site swapping).

Coq: Model/SymMpo.v, Proofs/SymMpoProofs.v, Props/C01.v.
Tie: correspondence of the hand-written model with renormalizer/mps/symbolic_mpo.py on generated
models / term lists (witnesses: vertex covers, row order, pivoted-QR factors), exact `coeff` check of
the implementation's exported symbolic MPO, dense oracle (construct, all three algorithms; swaps)."""
import json
import os
from fractions import Fraction

import common

ALGOS = ["qr", "Hopcroft-Karp", "Hungarian"]
GRAPH_ALGOS = ["Hopcroft-Karp", "Hungarian"]
SQ_BITS = 96           # scale of the QR witnesses (floats are dyadic: exact after scaling unless tiny)
DENSE_TOL = 1e-9
DENSE_TOL_QR = 1e-8   # _decompose_qr drops q / r entries below 1e-10 (relative) at every site by design (residual, see notes)
QR_MAX_ROWS = 18      # QR steps are recomputed by the Coq model for tables up to this many rows (big-integer cost)
QR_TOL = 1e-9          # relative (to the Frobenius norm of Gamma) tolerance of a logged factorisation, + 2e-10 per dropped entry
QR_COEFF_TOL = 1e-8    # coefficient function of a QR-built MPO, relative to the largest factor


# ====================================================================== generator
# CODATA 2018, hard-coded (independent of renormalizer.utils.constant / scipy.constants):
#   1 Hartree = 27.211386245988 eV = 219474.63136320 cm^-1 = 315775.02480407 K
HARTREE_IN = {"eV": 27.211386245988, "ev": 27.211386245988, "meV": 27211.386245988, "mev": 27211.386245988,
              "cm-1": 219474.63136320, "cm^{-1}": 219474.63136320, "K": 315775.02480407, "k": 315775.02480407,
              "au": 1.0, "a.u.": 1.0}
UNIT_TOL = 1e-9        # relative tolerance wherever a unit conversion enters (the package uses scipy's CODATA set)

def site_dofs(i, s):
    if s.get("dofs"):
        return list(s["dofs"])
    if s["kind"] in ("multi", "multivac"):
        return ["m%d_%d" % (i, j) for j in range(s["ndof"])]
    return ["s%d" % i]


def nbas_of(s):
    k = s["kind"]
    if k in ("spin", "elec"):
        return 2
    if k == "sho":
        return s["nbas"]
    if k == "multi":
        return s["ndof"]
    return s["ndof"] + 1


def menu(i, s, cplx):
    """elementary operators of a site; cplx=True adds the symbols whose local matrix is complex (sigma_y, p) --
    they are generated with real AND complex factor lists (Mpo must promote the dtype itself)"""
    d = site_dofs(i, s)
    k = s["kind"]
    d0 = d[0]
    if k == "spin":
        m = [[(d0, "sigma_x")], [(d0, "sigma_z")], [(d0, "sigma_+")], [(d0, "sigma_-")], [(d0, "X")],
             [(d0, "sigma_x"), (d0, "sigma_z")], [(d0, "sigma_z"), (d0, "sigma_x")],
             [(d0, "sigma_+"), (d0, "sigma_-")], [(d0, "I")]]
        if cplx:
            m += [[(d0, "sigma_y")], [(d0, "sigma_y"), (d0, "sigma_z")], [(d0, "Y")]]
        return m
    if k == "sho":
        m = [[(d0, "x")], [(d0, "x^2")], [(d0, "p^2")]]
        if s.get("x0", 0.0) == 0.0:
            m += [[(d0, r"b^\dagger"), (d0, "b")], [(d0, "b")], [(d0, r"b^\dagger")]]
        if cplx:
            m += [[(d0, "p")]]
        return m
    if k == "elec":
        return [[(d0, r"a^\dagger")], [(d0, "a")], [(d0, r"a^\dagger"), (d0, "a")], [(d0, "I")]]
    if k == "multi":
        m = [[(a, r"a^\dagger"), (b, "a")] for a in d for b in d]
        return m + [[(d0, "I")], [(d[1], "I")]]
    if k == "multivac":
        m = [[(a, r"a^\dagger")] for a in d] + [[(a, "a")] for a in d]
        m += [[(a, r"a^\dagger"), (b, "a")] for a in d for b in d]
        return m + [[(d[1], "I")]]
    raise ValueError(k)


def gen_sites(rng):
    while True:
        n = rng.choice([2, 3, 3, 4, 4, 5, 6])
        sites = []
        for _ in range(n):
            k = rng.choice(["spin", "spin", "sho", "sho", "elec", "multi", "multivac"])
            if k == "sho":
                sites.append({"kind": "sho", "nbas": rng.choice([2, 3]), "omega": rng.choice([0.5, 1.0, 2.0]),
                              "x0": rng.choice([0.0, 0.0, 0.5, -1.25])})
            elif k in ("multi", "multivac"):
                sites.append({"kind": k, "ndof": rng.choice([2, 2, 3])})
            else:
                sites.append({"kind": k})
        dim = 1
        for s in sites:
            dim *= nbas_of(s)
        if dim <= 650:
            return sites


def gen_factor(rng, flavour, cplx):
    def one():
        k = rng.randint(0, 20) if flavour == "int" else (rng.randint(-20, 20) if flavour == "wide" else rng.randint(-13, 13))
        return rng.choice([-1, 1]) * rng.choice([1, 1, 1, 3, 5]) * 2.0 ** k
    if cplx and rng.random() < 0.6:
        return [one() if rng.random() < 0.7 else 0.0, one()]
    return [one(), 0.0]


def gen_term_ops(rng, sites, cplx):
    n = len(sites)
    ksup = min(n, rng.choice([1, 1, 2, 2, 2, 3, 3, 4]))
    sup = rng.sample(range(n), ksup)
    groups = [list(rng.choice(menu(i, sites[i], cplx))) for i in sup]
    ops = []
    if rng.random() < 0.3:                       # interleave the symbols of different sites
        ptr = [0] * len(groups)
        while True:
            live = [g for g in range(len(groups)) if ptr[g] < len(groups[g])]
            if not live:
                break
            g = rng.choice(live)
            ops.append(groups[g][ptr[g]])
            ptr[g] += 1
    else:
        for g in groups:
            ops += g
    return [[d, x] for d, x in ops]


def gen_case(rng, cid, flavour, nterms=None, swaps=False, sites=None, scale_ok=True):
    sites = sites or gen_sites(rng)
    cplx = rng.random() < 0.3           # complex factors
    cmat = cplx or rng.random() < 0.25  # symbols with complex local matrices (also with purely real factors)
    nt = nterms or rng.choice([1, 2, 2, 3, 4, 5, 6, 8, 10, 12, 15, 20, 25, 30, 40])
    terms = []
    while len(terms) < nt:
        u = rng.random()
        if terms and u < 0.10:                   # duplicate of an earlier term, another factor
            t = rng.choice(terms)
            terms.append({"f": gen_factor(rng, flavour, cplx), "ops": [list(o) for o in t["ops"]]})
        elif terms and u < 0.16:                 # partially cancelling: same exponent, other odd part
            t = rng.choice(terms)
            terms.append({"f": [-3 * t["f"][0], -3 * t["f"][1]], "ops": [list(o) for o in t["ops"]]})
        elif terms and u < 0.22:                 # exactly cancelling pair
            t = rng.choice(terms)
            terms.append({"f": [-t["f"][0], -t["f"][1]], "ops": [list(o) for o in t["ops"]]})
        else:
            terms.append({"f": gen_factor(rng, flavour, cplx), "ops": gen_term_ops(rng, sites, cmat)})
    if cplx and not any(t["f"][1] != 0 for t in terms):
        terms[0]["f"][1] = terms[0]["f"][0] if terms[0]["f"][0] != 0 else 1.0
    # SAME-OBJECT repetition (the identical Op instance several times, next to the equal-but-distinct duplicates above):
    # entries with the same "obj" id are one Op object; k copies must contribute k times the factor
    mode = None
    u = rng.random()
    if u < 0.15 and len(terms) >= 1:
        mode = "interleaved"                       # one or two objects repeated 1..3 more times at random positions
        for _ in range(rng.choice([1, 1, 2])):
            j = rng.randrange(len(terms))
            terms[j].setdefault("obj", "o%08x" % rng.getrandbits(32))
            for _ in range(rng.randint(1, 3)):
                terms.insert(rng.randrange(len(terms) + 1), json.loads(json.dumps(terms[j])))
    elif u < 0.22:
        mode = "times_n"                           # [op] * n
        terms = [dict(json.loads(json.dumps(terms[0])), obj="o0") for _ in range(rng.randint(2, 4))] + terms[1:]
    elif u < 0.32 and len(terms) >= 2:
        mode = "opsum"                             # part + extra + part
        npart = rng.randint(1, max(1, len(terms) // 2))
        part = [dict(t, obj="p%d" % k) for k, t in enumerate(terms[:npart])]
        extra = terms[npart:]
        terms = part + extra + json.loads(json.dumps(part))
    off = 0.0
    if rng.random() < 0.5:
        off = gen_factor(rng, flavour, False)[0]
    case = {"id": cid, "sites": sites, "terms": terms, "offset": off, "flavour": flavour, "complex": cplx,
            "complex_matrix_real_factors": bool(cmat and not cplx)}
    if mode:
        case["same_object_mode"] = mode
    if mode == "opsum":
        case["opsum"] = [npart, len(extra)]
        case["opsum_nested"] = rng.random() < 0.5
    if rng.random() < 0.25:
        case["ham"] = True                         # Model(basis, ham_terms) then Mpo(model)
    if off != 0 and rng.random() < 0.45:
        # the same kind of number, but handed over with an explicit unit; a.u. value by the harness' own factors
        unit = rng.choice(["eV", "meV", "cm-1", "cm^{-1}", "K", "ev", "au"])
        val = rng.choice([-1, 1]) * rng.choice([1, 3, 5]) * 2.0 ** rng.randint(-6, 12)
        case["offset_unit"] = unit
        case["offset_value"] = val
        case["offset"] = val / HARTREE_IN[unit]
        # keep the constant row = the converted offset alone (no explicit all-identity terms), so that the relative
        # tolerance of the unit conversion is not blurred by binary64 rounding of sums with large factors
        keep = [t for t in terms if not all(o[1] == "I" for o in t["ops"])]
        if keep and len(keep) != len(terms):
            case["terms"] = keep
            case.pop("opsum", None)
            case.pop("opsum_nested", None)
    if scale_ok and rng.random() < 0.3:
        # overall scale 2^-k (exact in binary64): MPO(c*H) must be exactly c*MPO(H) with the same symbolic structure
        k = rng.randint(1, 70)
        c = 2.0 ** -k
        case["scale_exp"] = k
        case["algos"] = GRAPH_ALGOS      # QR construction and swap_site are NOT scale invariant on HEAD (pending findings, see notes)
        swaps = False
        for t in case["terms"]:
            t["f"] = [t["f"][0] * c, t["f"][1] * c]
        case["offset"] = case["offset"] * c
        if case.get("offset_unit"):
            case["offset_value"] = case["offset_value"] * c
    if swaps:
        n = len(sites)
        case["swaps"] = [rng.randrange(n - 1) for _ in range(rng.randint(1, 6))]
    return case


def gen_jw_case(rng, cid):
    """spin chain with sigma_z / sigma_+- words (what table_row_swapped_jw accepts), integer factors, graph-built,
    followed by exchanges with swap_jw=True (symbolic correspondence only)"""
    n = rng.choice([3, 4, 5])
    sites = [{"kind": "spin"} for _ in range(n)]
    words = [["sigma_z"], ["sigma_+"], ["sigma_-"], ["sigma_z", "sigma_+"], ["sigma_z", "sigma_-"], ["sigma_+", "sigma_-"]]
    terms = []
    for _ in range(rng.choice([2, 3, 4, 6, 8, 12])):
        sup = rng.sample(range(n), min(n, rng.choice([1, 2, 2, 3])))
        ops = []
        for i in sup:
            ops += [["s%d" % i, x] for x in rng.choice(words)]
        terms.append({"f": [float(rng.choice([-1, 1]) * rng.choice([1, 3, 5]) * 2 ** rng.randint(0, 8)), 0.0], "ops": ops})
    return {"id": cid, "sites": sites, "terms": terms, "offset": 0.0, "flavour": "int", "complex": False,
            "complex_matrix_real_factors": False, "algos": ["Hopcroft-Karp"],
            "jw_swaps": [rng.randrange(n - 1) for _ in range(rng.randint(1, 3))]}


def gen_history(rng, hid):
    """several constructions in ONE process: same DoF names and sizes, different SHO parameters (omega, x0),
    different construction algorithms, with / without the model.mpos cache; the first is re-checked at the end"""
    while True:
        sites = gen_sites(rng)
        if any(s["kind"] == "sho" for s in sites):
            break
    gsites = [dict(s, x0=0.5) if s["kind"] == "sho" else s for s in sites]     # symbols valid for every x0
    while True:
        base = gen_case(rng, hid, rng.choice(["int", "dyadic"]), nterms=rng.choice([2, 3, 5, 8, 12]), sites=gsites, scale_ok=False)
        base.pop("algos", None)
        if merged_rows(base, case_view(base)):        # fully cancelling lists (zero operator) are out of scope
            break
    steps = []
    for k in range(rng.randint(3, 5)):
        c = json.loads(json.dumps(base))
        c["sites"] = [dict(s, omega=rng.choice([0.5, 1.0, 2.0, 4.0]), x0=rng.choice([0.0, 0.5, -1.25, 2.0])) if s["kind"] == "sho" else s
                      for s in sites]
        c["algo"] = rng.choice(ALGOS)
        c["via_cache"] = rng.random() < 0.5
        c["ham"] = rng.random() < 0.5
        steps.append(c)
    return {"id": hid, "steps": steps, "share_ops": rng.random() < 0.5}


def gen_regroup_history(rng, hid):
    """the SAME Op objects used for two models that group the same DoFs into different sites:
    [BasisSimpleElectron(e0), BasisSimpleElectron(e1), BasisSHO(v)]  then  [BasisMultiElectronVac([e0, e1]), BasisSHO(v)]
    (and back) -- split_elementary must depend on dof_to_siteidx, not on what an earlier model needed"""
    sho = {"kind": "sho", "nbas": rng.choice([2, 3]), "omega": rng.choice([0.5, 1.0, 2.0]), "x0": 0.5, "dofs": ["v"]}
    lay_a = [{"kind": "elec", "dofs": ["e0"]}, {"kind": "elec", "dofs": ["e1"]}, sho]
    lay_b = [{"kind": "multivac", "ndof": 2, "dofs": ["e0", "e1"]}, sho]
    words = [[["e0", r"a^\dagger"], ["e1", "a"]], [["e1", r"a^\dagger"], ["e0", "a"]], [["e0", r"a^\dagger"], ["e0", "a"]],
             [["e1", r"a^\dagger"], ["e1", "a"]], [["e0", r"a^\dagger"]], [["e1", "a"]]]
    vops = [[["v", "x"]], [["v", "x^2"]], [["v", "p^2"]], []]
    terms = []
    for k in range(rng.randint(2, 7)):
        w = rng.choice(words)
        v = rng.choice(vops)
        ops = (w + v) if rng.random() < 0.5 else (v + w)
        terms.append({"f": [float(rng.choice([-1, 1]) * rng.choice([1, 3, 5]) * 2 ** rng.randint(-3, 6)), 0.0], "ops": ops, "obj": "r%d" % k})
    steps = []
    for lay in ([lay_a, lay_b, lay_a] if rng.random() < 0.5 else [lay_b, lay_a, lay_b]):
        steps.append({"id": hid, "sites": lay, "terms": json.loads(json.dumps(terms)), "offset": 0.0, "flavour": "dyadic",
                      "complex": False, "algo": rng.choice(ALGOS), "via_cache": rng.random() < 0.5, "ham": rng.random() < 0.5})
    return {"id": hid, "steps": steps, "share_ops": True}


# ---- the harness' own view of a case: per-term elementary operators (site, label), merged rows
def case_view(case):
    sites = case["sites"]
    dof2site = {}
    for i, s in enumerate(sites):
        for d in site_dofs(i, s):
            dof2site[d] = i
    labels = {}                  # json([[dof,sym],...]) -> label
    idlab = []
    for i, s in enumerate(sites):
        kk = json.dumps([[site_dofs(i, s)[0], "I"]])
        labels[kk] = len(labels)
        idlab.append((i, labels[kk]))
    tv = []
    for t in case["terms"]:
        grp = {}
        for d, x in t["ops"]:
            grp.setdefault(dof2site[d], []).append([d, x])
        es = []
        for i in sorted(grp):
            kk = json.dumps(grp[i])
            if kk not in labels:
                labels[kk] = len(labels)
            es.append((i, labels[kk]))
        tv.append((es, Fraction(t["f"][0]), Fraction(t["f"][1])))
    return {"labels": labels, "idlab": idlab, "terms": tv, "nsite": len(sites)}


def merged_rows(case, view):
    """exact merged coefficient table keyed by the per-site labels (identity label for absent sites)"""
    acc = {}
    idl = dict(view["idlab"])
    for es, re, im in view["terms"]:
        row = [idl[i] for i in range(view["nsite"])]
        for i, lab in es:
            row[i] = lab
        k = tuple(row)
        a = acc.get(k, (0, 0))
        acc[k] = (a[0] + re, a[1] + im)
    off = Fraction(case.get("offset", 0.0))
    if off != 0:
        k = tuple(idl[i] for i in range(view["nsite"]))
        a = acc.get(k, (0, 0))
        acc[k] = (a[0] - off, a[1])
    return {k: v for k, v in acc.items() if v != (0, 0)}


# ====================================================================== Coq literals / decoding
def zlit(n):
    return "(%d)%%Z" % n


def gi_lit(p):
    return "(%s,%s)" % (zlit(p[0]), zlit(p[1]))


def key_lit(k):
    return "[" + ";".join(str(int(x)) for x in k) + "]"


def lst(xs):
    return "[" + ";".join(xs) + "]"


class NotRepresentable(Exception):
    pass


def scaler(S, allow_round=False, stats=None):
    """float pair [re, im] -> Gaussian integer (re*S, im*S); exact unless allow_round."""
    def enc(v):
        out = []
        for x in v:
            fr = Fraction(x) * S
            if fr.denominator != 1:
                if not allow_round:
                    raise NotRepresentable(repr(v))
                if stats is not None:
                    stats["rounded"] = stats.get("rounded", 0) + 1
                fr = Fraction(round(fr))
            out.append(int(fr))
        return tuple(out)
    return enc


def outop_lit(oo, enc):
    return lst("(%s,%s)" % (key_lit(k), gi_lit(enc(f))) for k, f in oo)


def bond_lit(b, enc):
    return lst(outop_lit(oo, enc) for oo in b)


def bonds_lit(bs, enc):
    return lst(bond_lit(b, enc) for b in bs)


def mat_lit(m):
    return lst(lst(gi_lit(x) for x in row) for row in m)


def terms_lit(view, S):
    items = []
    for es, re, im in view["terms"]:
        a, b = re * S, im * S
        assert a.denominator == 1 and b.denominator == 1
        items.append("(%s,%s)" % (lst("(%d,%d)" % e for e in es), gi_lit((int(a), int(b)))))
    return lst(items)


class Reader:
    def __init__(self, xs):
        self.xs = xs
        self.i = 0

    def get(self):
        v = self.xs[self.i]
        self.i += 1
        return v

    def key(self):
        n = self.get()
        return tuple(self.get() for _ in range(n))

    def tab(self):
        n = self.get()
        res = []
        for _ in range(n):
            k = self.key()
            re = self.get()
            im = self.get()
            res.append((k, (re, im)))
        return res

    def bond(self):
        return [self.tab() for _ in range(self.get())]

    def bonds(self):
        return [self.bond() for _ in range(self.get())]

    def tabs(self):
        return [self.tab() for _ in range(self.get())]

    def mo(self):
        rows = []
        for _ in range(self.get()):
            row = []
            for _ in range(self.get()):
                row.append(sorted((self.get(), self.get(), self.get()) for _ in range(self.get())))
            rows.append(row)
        return rows

    def done(self):
        return self.i == len(self.xs)


PRE = ("From Coq Require Import List ZArith.\nFrom RV Require Import Base.CRing Model.SymMpo.\n"
       "Import ListNotations.\n")


def fr2(v):
    return (Fraction(v[0]), Fraction(v[1]))


def canon_bond(b):
    """impl/model bond (list of out-ops [(key, value)]) -> list of sorted out-ops"""
    return [sorted((tuple(k), v) for k, v in oo) for oo in b]


def graph_witness(step):
    """(rsel in the order of the implementation's out-ops, csel ascending) as key lists + consistency flag"""
    tr, tc = step["term_row"], step["term_col"]
    rows = [tuple(tr[i]) for i, b in enumerate(step["rowbool"]) if b and i < len(tr)]
    cols = [tuple(tc[i]) for i, b in enumerate(step["colbool"]) if b and i < len(tc)]
    nr = len(rows)
    order = []
    ok = True
    for oo in step["out_ops"][:nr]:
        if len(oo) != 1:
            ok = False
            break
        order.append(tuple(oo[0][0]))
    if sorted(order) != sorted(rows):
        ok = False
    return (order if ok else rows), cols, ok


def wg_lit(rsel, csel):
    return "(WG GiRing %s %s)" % (lst(key_lit(k) for k in rsel), lst(key_lit(k) for k in csel))


def qr_witness(step, enc, stats):
    """thresholded q[:, :rank], r2 = r[:rank, argsort(p)] exactly as _decompose_qr uses them"""
    q = [[complex(*v) for v in row] for row in step["q"]]
    r = [[complex(*v) for v in row] for row in step["r"]]
    p = step["p"]
    r00 = abs(r[0][0])
    rank = sum(1 for i in range(min(len(r), len(r[0]))) if abs(r[i][i]) > r00 * 1e-10)
    inv = [0] * len(p)
    for m, k in enumerate(p):
        inv[k] = m
    qz = [[(row[l] if abs(row[l]) > 1e-10 else 0j) for l in range(rank)] for row in q]
    # r[:rank] thresholded in place; the model applies the column un-pivoting r[:, argsort(p)] itself (`unpivot`)
    rz = [[(r[l][m] if abs(r[l][m]) > r00 * 1e-10 else 0j) for m in range(len(p))] for l in range(rank)]
    dropped = sum(1 for row in q for l in range(rank) if 0 < abs(row[l]) <= 1e-10)
    dropped += sum(1 for l in range(rank) for m in range(len(p)) if 0 < abs(r[l][m]) <= r00 * 1e-10)
    stats["qr_dropped"] = stats.get("qr_dropped", 0) + dropped
    stats["qr_rank_deficient"] = stats.get("qr_rank_deficient", 0) + (1 if rank < min(len(q), len(p)) else 0)
    stats["qr_nontrivial_pivot"] = stats.get("qr_nontrivial_pivot", 0) + (1 if list(p) != sorted(p) else 0)
    Q = [[enc((x.real, x.imag)) for x in row] for row in qz]
    Rz = [[enc((x.real, x.imag)) for x in row] for row in rz]
    lit = "(WQ GiRing %s %s %s (unpivot GiRing %s %s %d) %d)" % (
        lst(key_lit(k) for k in step["term_row"]), lst(key_lit(k) for k in step["term_col"]),
        mat_lit(Q), mat_lit(Rz), lst(str(int(x)) for x in p), len(p), rank)
    gnorm = sum(abs(complex(*v)) ** 2 for row in step["gamma"] for v in row) ** 0.5
    return lit, rank, gnorm


def qr_drop_count(step):
    q = [[complex(*v) for v in row] for row in step["q"]]
    r = [[complex(*v) for v in row] for row in step["r"]]
    r00 = abs(r[0][0])
    rank = sum(1 for i in range(min(len(r), len(r[0]))) if abs(r[i][i]) > r00 * 1e-10)
    d = sum(1 for row in q for l in range(rank) if 0 < abs(row[l]) <= 1e-10)
    d += sum(1 for l in range(rank) for x in r[l] if 0 < abs(x) <= r00 * 1e-10)
    d += sum(1 for l in range(rank, len(r)) for x in r[l] if abs(x) > 0)      # rows of r cut by the rank
    return d


def impl_bonds(rec):
    return [[[(tuple(k), f) for k, f in oo] for oo in b] for b in rec["out_ops_list"][1:]]


# ====================================================================== building the Coq evaluations
def case_scale(case):
    """S1 = 2 * (common power-of-two denominator of all factors and the offset): every scaled factor is even,
    so the literal 1 of the model (odd) can never be confused with a scaled factor."""
    den = 1
    for t in case["terms"]:
        for x in t["f"]:
            den = max(den, Fraction(x).denominator)
    if case.get("offset_unit"):
        den = max(den, 2 ** (90 + case.get("scale_exp", 0)))   # converted offsets are arbitrary binary64 numbers: rounded at 2^-90 (times the overall scale)
    else:
        den = max(den, Fraction(case.get("offset", 0.0)).denominator)
    assert den & (den - 1) == 0
    return 2 * den


def case_prefix(case, view, S):
    n = view["nsite"]
    idl = lst("(%d,%d)" % e for e in view["idlab"])
    off = Fraction(case.get("offset", 0.0)) * S
    if case.get("offset_unit"):
        off = Fraction(2 * round(off / 2))       # keep the scaled constant even (literal 1 of the model stays unambiguous)
    assert off.denominator == 1
    return "%d %s %s %s" % (n, idl, terms_lit(view, S), gi_lit((-int(off), 0)))


def build_evals(case, view, r, stats):
    """-> list of (tag, coq expression) for one case; tag = (case id, what, algo)"""
    ev = []
    n = view["nsite"]
    S1 = case_scale(case)
    ev.append(((case["id"], "table", None), "tie_table " + case_prefix(case, view, S1)))
    for algo, rec in r["algos"].items():
        if "error" in rec:
            continue
        steps = rec["steps"]
        try:
            if algo == "qr" and steps and len(r.get("table", [])) > QR_MAX_ROWS:
                stats["qr_model_skipped_large"] = stats.get("qr_model_skipped_large", 0) + 1   # dense oracle only
                continue
            if algo == "qr" and steps:
                SQ = 2 ** SQ_BITS
                enc = scaler(SQ, allow_round=True, stats=stats)
                ws = []
                meta = []
                for st in steps:
                    lit, rank, gnorm = qr_witness(st, enc, stats)
                    ws.append(lit)
                    meta.append((rank, gnorm))
                expr = "tie_qr %s %s %s %s %s %s %s" % (case_prefix(case, view, SQ), gi_lit((SQ, 0)), gi_lit((SQ ** (n - 1), 0)),
                                                        zlit(SQ_BITS), zlit((n - 1) * SQ_BITS),
                                                        lst(ws), bonds_lit(impl_bonds(rec), enc))
                ev.append(((case["id"], "qr", algo), expr))
            else:
                enc = scaler(S1, allow_round=bool(case.get("offset_unit")))
                ws = []
                mts = []
                for st in steps:
                    rsel, csel, ok = graph_witness(st)
                    if not ok:
                        stats["witness_order_inconsistent"] = stats.get("witness_order_inconsistent", 0) + 1
                    ws.append(wg_lit(rsel, csel))
                    mts.append(lst("(%s,%s)" % (key_lit(a), key_lit(b)) for a, b in step_matching_keys(st)))
                expr = "tie_graph %s %s %s %s %s" % (case_prefix(case, view, S1), gi_lit((S1 ** (n - 1), 0)), lst(ws), lst(mts),
                                                     bonds_lit(impl_bonds(rec), enc))
                ev.append(((case["id"], "graph", algo), expr))
        except NotRepresentable as e:
            ev.append(((case["id"], "unrepresentable", algo), None))
        if "primary_qn" in r and len(r["primary_qn"][0]) == 1:
            encq = scaler(1, allow_round=True)
            ev.append(((case["id"], "qn", algo), "tie_qn %s %s" % (lst(zlit(v[0]) for v in r["primary_qn"]),
                                                                   bonds_lit(impl_bonds(rec), encq))))
        for k, sw in enumerate(rec.get("jw_swaps", [])):
            for lg in sw.get("log", []):
                if "nb2" not in lg:
                    continue
                try:
                    enc1 = scaler(1)
                    ws = [wg_lit(*graph_witness(st)[:2]) for st in lg["steps"]]
                    b2 = [[(tuple(kk), f) for kk, f in oo] for oo in lg["b2"]]
                    b3 = [[(tuple(kk), f) for kk, f in oo] for oo in lg["b3"]]
                    tbl = lst("((%d,%d),(%d,%d,%s))" % (e[0], e[1], e[2], e[3], gi_lit(enc1(e[4]))) for e in lg["jw_map"])
                    expr = "tie_swap_jw %d %d %s %s %s %s" % (lg["nprim"], lg["nprim2"], tbl, bond_lit(b2, enc1), bond_lit(b3, enc1), lst(ws))
                    ev.append(((case["id"], "swapjw", (algo, k)), expr))
                except NotRepresentable:
                    stats["swap_skipped_nonint"] = stats.get("swap_skipped_nonint", 0) + 1
        # swaps (integer flavour only: S = 1)
        for k, sw in enumerate(rec.get("swaps", [])):
            for lg in sw.get("log", []):
                if "nb2" not in lg:
                    continue
                try:
                    enc1 = scaler(1)
                    ws = [wg_lit(*graph_witness(st)[:2]) for st in lg["steps"]]
                    b2 = [[(tuple(kk), f) for kk, f in oo] for oo in lg["b2"]]
                    b3 = [[(tuple(kk), f) for kk, f in oo] for oo in lg["b3"]]
                    expr = "tie_swap %d %s %s %s" % (lg["nprim"], bond_lit(b2, enc1), bond_lit(b3, enc1), lst(ws))
                    ev.append(((case["id"], "swap", (algo, k)), expr))
                except NotRepresentable:
                    stats["swap_skipped_nonint"] = stats.get("swap_skipped_nonint", 0) + 1
    return ev


# ====================================================================== comparisons
def vclose(a, b, tol):
    if tol == 0:
        return a == b
    x = complex(float(a[0]), float(a[1]))
    y = complex(float(b[0]), float(b[1]))
    return abs(x - y) <= tol * max(abs(x), abs(y))


def rows_equal(a, b, tol):
    """sorted lists of (key, value): keys exact, values exact (tol 0) or relative"""
    return len(a) == len(b) and all(p[0] == q[0] and vclose(p[1], q[1], tol) for p, q in zip(a, b))


def bonds_equal(a, b, tol):
    return len(a) == len(b) and all(len(x) == len(y) and all(rows_equal(u, v, tol) for u, v in zip(x, y)) for x, y in zip(a, b))


def case_tol(case):
    return UNIT_TOL if case.get("offset_unit") else 0


def sorted_rows(table, factor):
    return sorted((tuple(k), fr2(f)) for k, f in zip(table, factor))


def dec_even(S):
    def dec(v):
        if v == (1, 0):
            return (Fraction(1), Fraction(0))
        return (Fraction(v[0], S), Fraction(v[1], S))
    return dec


def cmp_table(case, view, r, xs):
    S1 = case_scale(case)
    dec = dec_even(S1)
    rd = Reader(xs)
    mt = sorted((k, dec(v)) for k, v in rd.tab())
    probs = []
    if "table" not in r:
        if mt:
            probs.append("implementation rejected the term list (%s) but the model table has %d rows" % (r.get("table_error"), len(mt)))
        return probs
    it = sorted_rows(r["table"], r["factor"])
    if not rows_equal(it, mt, case_tol(case)):
        probs.append("_terms_to_table: rows/factors differ from the model (impl %d rows, model %d rows)" % (len(it), len(mt)))
    # the interning itself: primary operator i of the implementation must be the elementary operator the model
    # interned under index i (identity of site i for i < nsite, then first-appearance order)
    lab = view["labels"]
    ntab = rd.get()
    mtab = [(rd.get(), rd.get()) for _ in range(ntab)]
    n = view["nsite"]
    exp = list(view["idlab"]) + mtab
    dof2site = {}
    for i, s_ in enumerate(case["sites"]):
        for d in site_dofs(i, s_):
            dof2site[d] = i
    got = []
    for i, pk in enumerate(r["primary"]):
        kk = json.dumps(pk)
        if kk not in lab:
            probs.append("primary operator %d unknown to the generator: %s" % (i, pk))
            return probs
        got.append((dof2site[pk[0][0]], lab[kk]))
    if got != exp:
        probs.append("primary_ops list differs from the model's interning (impl %s..., model %s...)" % (got[:6], exp[:6]))
    return probs


def cmp_graph(case, view, r, rec, xs):
    S1 = case_scale(case)
    dec = dec_even(S1)
    tol = case_tol(case)
    enc = scaler(S1, allow_round=bool(tol))
    probs = []
    rd = Reader(xs)
    fastp, okb, finalb, qnb, certb = rd.get(), rd.get(), rd.get(), rd.get(), rd.get()
    mb = rd.bonds()
    mt = rd.tabs()
    diff = rd.tab()
    nb = rd.get()
    mos = [rd.mo() for _ in range(nb)]
    if not rd.done():
        probs.append("decoder out of sync")
    steps = rec["steps"]
    if bool(fastp) != (len(steps) == 0):
        probs.append("fast path taken by one side only (model %s, impl steps %d)" % (fastp, len(steps)))
        return probs
    if not fastp:
        if not okb:
            probs.append("logged vertex cover / row order is not a valid witness (cover, NoDup, subset of rows/cols)")
        if not finalb:
            probs.append("model: final table is not [([0;0],1)]")
        if not certb:
            probs.append("hypothesis of C01_bond_le_left_parts fails: the logged cover has no Koenig certificate (a maximum matching of the same size)")
        if not qnb:
            probs.append("hypothesis of C01_mpo_qn_labels fails: a selected row is not a row of the table or a selected column has an empty complementary operator")
    model_b = [[sorted((k, dec(v)) for k, v in oo) for oo in b] for b in mb]
    impl_b = [[sorted((tuple(k), fr2(f)) for k, f in oo) for oo in b] for b in rec["out_ops_list"][1:]]
    if not bonds_equal(model_b, impl_b, tol):
        j = next((i for i in range(min(len(model_b), len(impl_b))) if not bonds_equal([model_b[i]], [impl_b[i]], tol)), None)
        probs.append("out-op lists differ (first differing bond %s; impl %d bonds, model %d)" % (j, len(impl_b), len(model_b)))
    if not fastp:
        # tables after every site
        if len(mt) != len(steps) + 1:
            probs.append("number of tables %d vs %d steps" % (len(mt), len(steps)))
        else:
            for j, st in enumerate(steps):
                a = sorted((k, dec(v)) for k, v in mt[j + 1])
                b = sorted_rows(st["table"], st["factor"])
                if not rows_equal(a, b, tol):
                    probs.append("new table after site %d differs" % j)
                    break
    if diff and tol:
        # only the constant (unit conversion) is inexact: every other string must agree exactly
        n = view["nsite"]
        ident = tuple(i for i, _ in sorted(view["idlab"]))
        for k, (a, b) in diff:
            if tuple(k) != tuple(range(n)) or abs(complex(a, b)) > tol * abs(case["offset"]) * float(S1 ** n):
                probs.append("coeff(exported symbolic MPO) differs from the term list on string %s by %.3e (offset %s %s = %.6e a.u.)"
                             % (list(k), abs(complex(a, b)) / float(S1 ** n), case["offset_value"], case["offset_unit"], case["offset"]))
                break
    elif diff:
        probs.append("coeff(exported symbolic MPO) != coeff(term list) - offset: %d strings differ, e.g. %s" % (len(diff), diff[:2]))
    # compose_symbolic_mo
    try:
        for j, m in enumerate(rec["mos"]):
            exp = [[[] for _ in range(m["shape"][1])] for _ in range(m["shape"][0])]
            for a, i, l in m["entries"]:
                exp[a][i] = sorted((enc(f)[0], enc(f)[1], p) for p, f in l)
            if j >= len(mos) or mos[j] != exp:
                probs.append("compose_symbolic_mo: matrix of site %d differs from the model" % j)
                break
    except NotRepresentable:
        probs.append("compose_symbolic_mo: factor not representable")
    dims = [1] + [len(b) for b in rec["out_ops_list"][1:]]
    if dims != rec["bond_dims"]:
        probs.append("bond_dims %s != lengths of the out-op lists %s" % (rec["bond_dims"], dims))
    return probs


def close(a, b, tol):
    return abs(a - b) <= tol


def cmp_qr(case, view, r, rec, xs, stats):
    SQ = 2 ** SQ_BITS
    n = view["nsite"]
    probs = []
    rd = Reader(xs)
    nsteps = rd.get()
    steps = rec["steps"]
    worst = 0.0
    for j in range(nsteps):
        flag = rd.get()
        rmax = rd.get() + 1           # max(|re|,|im|) of SQ*Gamma - q.r2, shifted right by SQ_BITS (floor)
        if not flag:
            probs.append("QR step %d: term_row/term_col of the witness do not cover the table (NoDup / subset)" % j)
        gn = sum(abs(complex(*v)) ** 2 for row in steps[j]["gamma"] for v in row) ** 0.5
        mx = 1.5 * rmax / SQ
        rel = mx / gn if gn > 0 else mx
        worst = max(worst, rel)
        if rel > QR_TOL + 2e-10 * qr_drop_count(steps[j]):
            probs.append("QR step %d: |Gamma - q.r2| = %.3e relative to |Gamma|_F (witness invalid beyond tolerance)" % (j, rel))
    stats["qr_worst_residual"] = max(stats.get("qr_worst_residual", 0.0), worst)
    mb = rd.bonds()
    mt = rd.tabs()
    ndiff = rd.get()
    dmaxs = rd.get() + 1              # max(|re|,|im|) of the coefficient difference, scale SQ after the shift
    if not rd.done():
        probs.append("decoder out of sync")
    enc = scaler(SQ, allow_round=True)

    def same(mv, iv):
        e = enc(iv)
        if e == mv:
            return True
        mag = max(abs(complex(*iv)), 1e-300) * SQ
        return abs(complex(e[0] - mv[0], e[1] - mv[1])) <= 1e-10 * mag
    impl_b = rec["out_ops_list"][1:]
    if len(mb) != len(impl_b):
        probs.append("QR: number of bonds differs")
    else:
        for j, (b1, b2) in enumerate(zip(mb, impl_b)):
            c1 = [sorted(oo) for oo in b1]
            c2 = [sorted((tuple(k), tuple(f)) for k, f in oo) for oo in b2]
            ok = len(c1) == len(c2) and all(len(x) == len(y) and all(p[0] == q[0] and same(p[1], q[1]) for p, q in zip(x, y))
                                            for x, y in zip(c1, c2))
            if not ok:
                probs.append("QR: out-op list of bond %d differs from the model" % (j + 1))
                break
    if len(mt) == len(steps) + 1:
        for j, st in enumerate(steps):
            a = sorted(mt[j + 1])
            b = sorted((tuple(k), tuple(f)) for k, f in zip(st["table"], st["factor"]))
            ok = len(a) == len(b) and all(p[0] == q[0] and same(p[1], q[1]) for p, q in zip(a, b))
            if not ok:
                probs.append("QR: new table after site %d differs from the model" % j)
                break
        fin = mt[-1]
        if not (len(fin) == 1 and fin[0][0] == (0, 0) and fin[0][1] == (SQ, 0)):
            probs.append("QR: final table is not [([0;0],1)]")
    else:
        probs.append("QR: number of tables")
    fmax = max([abs(complex(float(re), float(im))) for _, re, im in view["terms"]] + [abs(case.get("offset", 0.0))])
    dmax = 1.5 * dmaxs / SQ if ndiff else 0.0
    stats["qr_worst_coeff"] = max(stats.get("qr_worst_coeff", 0.0), dmax / fmax)
    if dmax > QR_COEFF_TOL * fmax:
        probs.append("QR: coeff(exported symbolic MPO) differs from the term list by %.3e (relative to the largest factor)" % (dmax / fmax))
    dims = [1] + [len(b) for b in impl_b]
    if dims != rec["bond_dims"]:
        probs.append("bond_dims %s != lengths of the out-op lists %s" % (rec["bond_dims"], dims))
    return probs


def cmp_swap(lg, xs):
    probs = []
    rd = Reader(xs)
    okb = rd.get()
    some = rd.get()
    if not okb:
        probs.append("swap: logged covers are not valid witnesses")
    if not some:
        probs.append("swap: model rejects (final table / labels not unique) but the implementation returned")
        return probs
    nb2 = canon_bond(rd.bond())
    nb3 = canon_bond(rd.bond())
    i2 = [sorted((tuple(k), (int(f[0]), int(f[1]))) for k, f in oo) for oo in lg["nb2"]]
    i3 = [sorted((tuple(k), (int(f[0]), int(f[1]))) for k, f in oo) for oo in lg["nb3"]]
    if nb2 != i2:
        probs.append("swap: new out-ops of the middle bond differ")
    if nb3 != i3:
        probs.append("swap: re-sorted out-ops of the right bond differ")
    return probs


def max_matching(bigraph):
    """size of a maximum matching of a bipartite graph given as adjacency lists U -> V (augmenting paths)"""
    match_v = {}

    def aug(u, seen):
        for v in bigraph[u]:
            if v in seen:
                continue
            seen.add(v)
            if v not in match_v or aug(match_v[v], seen):
                match_v[v] = u
                return True
        return False
    n = sum(1 for u in range(len(bigraph)) if aug(u, set()))
    return n, sorted((u, v) for v, u in match_v.items())


def step_matching_keys(st):
    """a maximum matching of the step's incidence graph (computed here, independently of the implementation) as
    (row key, column key) pairs: the Koenig certificate handed to the Coq model"""
    n, edges = max_matching(st["bigraph"])
    tr, tc = st["term_row"], st["term_col"]
    if st["u_is_rows"]:
        return [(tuple(tr[u]), tuple(tc[v])) for u, v in edges]
    return [(tuple(tr[v]), tuple(tc[u])) for u, v in edges]


def bond_dim_checks(r, rec):
    """run-time side of the bond-dimension theorems (graph algorithms): the logged cover is a MINIMUM cover
    (Koenig: size = maximum matching, computed here independently), bond dimension = cover size, and at every cut
    the bond dimension is at most the number of distinct left parts and of distinct right parts of the ORIGINAL
    table (both clauses are Coq theorems (C01_bond_le_cols, C01_bond_le_left_parts); here they are re-checked on the implementation's output)"""
    probs = []
    for j, st in enumerate(rec["steps"]):
        if st["kind"] != "graph":
            return probs
        size = sum(1 for b in st["rowbool"] if b) + sum(1 for b in st["colbool"] if b)
        if size != len(st["out_ops"]):
            probs.append("site %d: bond dimension %d != size of the vertex cover %d" % (j, len(st["out_ops"]), size))
        mm = max_matching(st["bigraph"])[0]
        if size != mm:
            probs.append("site %d: cover of size %d is not minimum (maximum matching %d)" % (j, size, mm))
    if "table" in r and rec["steps"]:
        rows = [tuple(x) for x in r["table"]]
        for cut in range(1, len(rows[0])):
            d = rec["bond_dims"][cut]
            nl = len(set(x[:cut] for x in rows))
            nr = len(set(x[cut:] for x in rows))
            if d > nl or d > nr:
                probs.append("cut %d: bond dimension %d exceeds distinct left parts %d / right parts %d" % (cut, d, nl, nr))
    return probs


def cmp_qn(r, rec, xs):
    """labels_chain / qntot_of of the model on the exported out-op lists vs mpo.qn / mpo.qntot (component 0)"""
    rd = Reader(xs)
    qntot = rd.get()
    labs = [[rd.get() for _ in range(rd.get())] for _ in range(rd.get())]
    probs = []
    if [qntot] != [rec["qntot"][0]]:
        probs.append("qntot: model %s, implementation %s" % (qntot, rec["qntot"]))
    impl = [[q[0] for q in b] for b in rec["qn"]]
    exp = [[0]] + labs[:-1] + [[0]]
    if impl != exp:
        probs.append("bond labels differ from labels_chain (impl %s, model %s)" % (impl[:4], exp[:4]))
    return probs


def qn_check(r, rec):
    """harness-level label consistency (feeds C06): when all table rows carry the same total charge, every
    summand of every out-op has the label stored for that out-op, the last bond is labelled 0 and qntot is the
    common charge."""
    if "table" not in r:
        return []
    pq = r["primary_qn"]
    tot = set(tuple(sum(pq[i][c] for i in row) for c in range(len(pq[0]))) for row in r["table"])
    if len(tot) != 1:
        return []
    tot = list(tot)[0]
    probs = []
    qn = rec["qn"]
    bonds = rec["out_ops_list"]
    if list(rec["qntot"]) != list(tot):
        probs.append("qntot %s != common charge %s" % (rec["qntot"], tot))
    lab = [[0] * len(tot)]
    for j in range(1, len(bonds)):
        new = []
        for i, oo in enumerate(bonds[j]):
            vals = set()
            for k, f in oo:
                vals.add(tuple(lab[k[0]][c] + pq[k[1]][c] for c in range(len(tot))))
            if len(vals) != 1:
                probs.append("bond %d op %d: summands carry different charges" % (j, i))
                return probs
            new.append(list(vals)[0])
        lab = new
        expect = [list(x) for x in new] if j < len(bonds) - 1 else [[0] * len(tot)]
        if [list(x) for x in qn[j]] != expect:
            probs.append("qn labels of bond %d: %s expected %s" % (j, qn[j], expect))
            return probs
    return probs


# ====================================================================== probes of input classes kept out of the main stream
PROBE_COMPLEX = r'''
import numpy as np
from renormalizer.model import Model, Op
from renormalizer.model.basis import BasisHalfSpin
from renormalizer.mps import Mpo
basis = [BasisHalfSpin(i) for i in range(2)]
Y = np.array([[0, -1j], [1j, 0]]); Z = np.diag([1., -1.]); I = np.eye(2)
ref = 0.5 * np.kron(Y, I) + 2.0 * np.kron(Z, Y)
for algo in ["qr", "Hopcroft-Karp", "Hungarian"]:
    mpo = Mpo(Model(basis, []), [Op("sigma_y", 0, 0.5), Op("sigma_z sigma_y", [0, 1], 2.0)], algo=algo)   # real factors, complex local matrix
    assert np.allclose(mpo.todense(), ref)
'''
PROBE_SWAP_ONE_TERM = r'''
import numpy as np
from renormalizer.model import Model, Op
from renormalizer.model.basis import BasisHalfSpin
from renormalizer.mps import Mpo
basis = [BasisHalfSpin(i) for i in range(3)]
terms = [Op("sigma_x sigma_z", [0, 1], 2.0)]
mpo = Mpo(Model(basis, []), terms, algo="Hopcroft-Karp")        # one table row: fast path of construct_symbolic_mpo
nb = [basis[1], basis[0], basis[2]]
mpo.try_swap_site(Model(nb, []), False)                         # exchange sites 0 and 1
X = np.array([[0, 1.], [1, 0]]); Z = np.diag([1., -1.]); I = np.eye(2)
assert np.allclose(mpo.todense(), 2.0 * np.kron(np.kron(Z, X), I))
'''
PROBE_SWAP_QR = r'''
import numpy as np
from renormalizer.model import Model, Op
from renormalizer.model.basis import BasisHalfSpin
from renormalizer.mps import Mpo
basis = [BasisHalfSpin(i) for i in range(4)]
terms = [Op("sigma_z", 3, 1.0), Op("sigma_z sigma_x sigma_x", [1, 0, 3], -4.0), Op("sigma_x", 3, -4.0), Op("sigma_+ sigma_z", [3, 1], 0.5)]
mpo = Mpo(Model(basis, []), terms, algo="Hopcroft-Karp")
nb = [basis[1], basis[0], basis[2], basis[3]]
mpo.try_swap_site(Model(nb, []), False, algo="qr")              # swap algorithm "qr" on a graph-built operator
ref = Mpo(Model(nb, []), terms, algo="Hopcroft-Karp").todense()
assert np.allclose(mpo.todense(), ref)
'''
PROBE_SWAP_AFTER_QR = r'''
import numpy as np
from renormalizer.model import Model, Op
from renormalizer.model.basis import BasisHalfSpin
from renormalizer.mps import Mpo
basis = [BasisHalfSpin(i) for i in range(4)]
terms = [Op("X Z Z", [0, 2, 3], 3.0), Op("Z Z", [0, 2], 1.0), Op("X Z", [1, 3], 3.0), Op("X X Z", [1, 2, 3], 1.0), Op("X Z Z", [1, 2, 3], 3.0)]
mpo = Mpo(Model(basis, []), terms)                 # default construction algorithm ("qr")
order = [0, 1, 2, 3]
for pos in [2, 1]:
    order[pos], order[pos + 1] = order[pos + 1], order[pos]
    nb = [basis[i] for i in order]
    mpo.try_swap_site(Model(nb, []), False)        # default swap algorithm ("Hopcroft-Karp")
    ref = Mpo(Model(nb, []), terms, algo="Hopcroft-Karp").todense()
    assert np.allclose(mpo.todense(), ref)
'''
PENDING_CONJ_SWAP = r"""
import numpy as np
from renormalizer.model import Model, Op
from renormalizer.model.basis import BasisHalfSpin
from renormalizer.mps import Mpo
basis = [BasisHalfSpin(i) for i in range(3)]
terms = [Op("sigma_+ sigma_z", [0, 1], 2.0), Op("sigma_+ sigma_x", [1, 2], 3.0)]
ct = Mpo(Model(basis, []), terms, algo="Hopcroft-Karp").conj_trans()      # tensors conjugated, symbolic_out_ops_list copied unchanged
nb = [basis[1], basis[0], basis[2]]
ct.try_swap_site(Model(nb, []), False)
ref = Mpo(Model(nb, []), terms, algo="Hopcroft-Karp").todense().conj().T
assert np.allclose(ct.todense(), ref), np.abs(ct.todense() - ref).max()
"""
PENDING_QR_SCALE = r"""
import numpy as np
from renormalizer.model import Model, Op
from renormalizer.model.basis import BasisHalfSpin
from renormalizer.mps import Mpo
basis = [BasisHalfSpin(i) for i in range(3)]
def H(c, algo):
    terms = [Op("sigma_x", 0, 4 * c), Op("sigma_z sigma_z", [0, 1], c), Op("sigma_z sigma_z", [1, 2], 2 * c), Op("sigma_x", 2, 3e-3 * c)]
    return Mpo(Model(basis, []), terms, algo=algo).todense()
ref = H(1.0, "Hopcroft-Karp")
for c in (2.0 ** -27, 2.0 ** -40):                 # 7.5e-9 (term 2.2e-11 silently dropped), 9e-13 (IndexError)
    assert np.allclose(H(c, "qr") / c, ref, rtol=0, atol=1e-8), c
"""
# shrunk from the random stream (seed 11): 4 terms on (SHO, spin, SHO), overall scale 2^-64, one swap of sites (1,2):
# relative error 0.09 after the swap, no exception
PENDING_SWAP_CASE = {"id": 247, "sites": [{"kind": "sho", "nbas": 3, "omega": 1.0, "x0": 0.0}, {"kind": "spin"},
                                          {"kind": "sho", "nbas": 3, "omega": 2.0, "x0": 0.5}],
                     "terms": [{"f": [4.440892098500626e-15, 0.0], "ops": [["s2", "x"], ["s1", "sigma_z"]]},
                               {"f": [-4.1359030627651384e-24, 0.0], "ops": [["s2", "x"], ["s0", "x^2"], ["s1", "sigma_z"]]},
                               {"f": [-5.421010862427522e-20, 0.0], "ops": [["s0", "p^2"], ["s1", "sigma_x"], ["s2", "x^2"]]},
                               {"f": [4.963083675318166e-23, -0.0], "ops": [["s2", "p^2"], ["s0", "p^2"]]}],
                     "offset": 0.0, "flavour": "wide", "complex": False}
# findings reported to the coordinator and awaiting the decision fix / known: they are probed on every run, recorded in
# the evidence, and turned into KNOWN-FINDING lines as soon as a `known:` line with the key exists
PENDING = [
    ("swap-after-conj-trans-stale-symbolic-list", PENDING_CONJ_SWAP,
     "Mpo.conj_trans (metacopy) copies symbolic_out_ops_list without conjugating it; a later try_swap_site rebuilds the two sites from the stale symbols: silently wrong operator"),
    ("qr-construction-not-scale-invariant", PENDING_QR_SCALE,
     "_decompose_qr: the single-column branch filters the un-normalised q = gamma with the ABSOLUTE atol 1e-10: terms below 1e-10 on the last site are silently dropped, all-tiny Hamiltonians raise IndexError"),
    ("swap-not-scale-invariant", None,
     "swap_site: _deduplicate_table / _grouped_to_list compare coefficients with the literal 1 of pass-through entries (relative 1e-15 / 1e-10): operators with coefficients below ~1e-13 lose terms silently or fail an assertion"),
]
PROBES = [
    ("swap-default-after-qr-construction", PROBE_SWAP_AFTER_QR,
     "Mpo(...) with the default algo='qr' followed by try_swap_site with its default algo: swap_site's assertions (one re-sorted operator per label / check_swap_consistency) fail"),
    ("mpo-init-real-factors-complex-local-matrix", PROBE_COMPLEX,
     "Mpo.__init__ takes dtype from the factors only: real factors with a complex local matrix (sigma_y, SHO p) raise a casting error"),
    ("swap-after-single-term-fast-path", PROBE_SWAP_ONE_TERM,
     "construct_symbolic_mpo's single-row fast path stores bare OpTuples in out_ops_list; try_swap_site then raises AttributeError"),
    ("swap-algo-qr-on-non-orthogonal-bond", PROBE_SWAP_QR,
     "swap_site(algo='qr') assumes one re-sorted operator per label; on an operator built by a graph algorithm it fails check_swap_consistency"),
]


def make_repro(case, algo, swaps=None, swap_algo=None):
    """self-contained snippet: the source of harness/impl/c01_lib.py + the failing case"""
    lib = open(os.path.join(common.VERIF, "harness", "impl", "c01_lib.py")).read()
    c = dict(case)
    c.pop("swaps", None)
    drv = "\nimport json, sys\ncase = json.loads(%r)\n" % json.dumps(c)
    drv += "from renormalizer.mps import Mpo\n"
    drv += "mpo, _ = make_mpo(case, %r)      # same-object repetitions / OpSum grouping / ham_terms as recorded in the case\n" % algo
    drv += "err = rel_err(mpo.todense(), ref_dense(case))\nprint('construct', err)\nassert err <= 1e-9\n"
    if swaps:
        drv += "order = list(range(len(case['sites'])))\nfor pos in %r:\n" % (list(swaps),)
        drv += "    order[pos], order[pos + 1] = order[pos + 1], order[pos]\n"
        drv += "    nb = [make_basis(i, case['sites'][i]) for i in order]\n"
        if swap_algo:
            drv += "    mpo.try_swap_site(Model(nb, []), False, algo=%r)\n" % swap_algo
        else:
            drv += "    mpo.try_swap_site(Model(nb, []), False)\n"
        drv += "    err = rel_err(mpo.todense(), ref_dense(case, order))\n    print('swap', pos, err)\n    assert err <= 1e-9\n"
    return lib + drv


def oracle_key(f):
    """stable key = call site + input class of an oracle failure"""
    exc = str(f["detail"]).split(":")[0] if f["kind"] == "exception" else "mismatch"
    if f["stage"] == "history":
        return "history-%s-%s" % (f["algo"], exc)
    if f["stage"] == "scale":
        return "scale-invariance-%s" % f["algo"]
    if f["stage"] == "manyterms":
        return "many-terms-%s-%s" % (f["algo"], exc)
    if f["stage"] == "swap":
        if f["algo"] == "qr" and exc == "AssertionError":
            return "swap-default-after-qr-construction"
        return "swap-after-%s-construction-%s" % (f["algo"], exc)
    return "construct-%s-%s" % (f["algo"], exc)


def shrink(ctx, case, f, budget_s=40):
    """greedy reduction of a failing oracle case (drop terms, truncate the swap list) keeping the failure class"""
    import time
    t0 = time.time()
    key = oracle_key(f)
    cur = {k: v for k, v in case.items() if not k.startswith("_")}
    cur.pop("opsum", None)                         # the flattened list keeps the same-object ids
    cur.pop("opsum_nested", None)
    cur["algos"] = [f["algo"]]
    if f["stage"] == "swap" and "nswap" in f and cur.get("swaps"):
        cur["swaps"] = cur["swaps"][:f["nswap"] + 1]
    if f["stage"] == "construct":
        cur["swaps"] = []
    for _ in range(12):
        if time.time() - t0 > budget_s or len(cur["terms"]) <= 1:
            break
        cands = []
        for k in range(len(cur["terms"])):
            d = json.loads(json.dumps(cur))
            del d["terms"][k]
            d["id"] = k
            cands.append(d)
        rc, res, out = ctx.impl("c01_oracle.py", {"cases": cands, "algos": [f["algo"]]}, timeout=120)
        if not res:
            break
        hit = [g for g in res["fails"] if oracle_key(g) == key]
        if not hit:
            break
        g = hit[0]
        cur = cands[g["id"]]
        if g["stage"] == "swap" and "nswap" in g:
            cur["swaps"] = cur["swaps"][:g["nswap"] + 1]
    cur["id"] = case["id"]
    return cur


MANY_TERMS_REPRO = r"""
import itertools, numpy as np
from renormalizer.model import Model, Op
from renormalizer.model.basis import BasisHalfSpin
from renormalizer.mps import Mpo
n = 7                                              # 5**7 = 78125 distinct terms (> 65535)
syms = ["I", "sigma_x", "sigma_z", "sigma_+", "sigma_-"]
mats = np.array([[[1., 0], [0, 1]], [[0, 1.], [1, 0]], [[1., 0], [0, -1]], [[0, 1.], [0, 0]], [[0, 0.], [1, 0]]])
C = np.random.default_rng(0).integers(1, 1000, size=(5,) * n).astype(float)
T = C
for _ in range(n):
    T = np.tensordot(T, mats, axes=([0], [0]))
ref = T.transpose(list(range(0, 2 * n, 2)) + list(range(1, 2 * n, 2))).reshape(2 ** n, 2 ** n)
terms = [Op(" ".join(syms[k] for k in ks), list(range(n)), C[ks]) for ks in itertools.product(range(5), repeat=n)]
mpo = Mpo(Model([BasisHalfSpin(i) for i in range(n)], []), terms, algo=%r)
err = np.abs(mpo.todense() - ref).max() / np.abs(ref).max()
print(len(terms), "terms, relative error", err)
assert err <= 1e-8
"""


def make_repro_history(h):
    lib = open(os.path.join(common.VERIF, "harness", "impl", "c01_lib.py")).read()
    drv = "\nimport json, sys\nh = json.loads(%r)\nfrom renormalizer.mps import Mpo\nkept = []\n" % json.dumps(h)
    drv += "pool = {} if h.get('share_ops') else None\n"
    drv += "for case in h['steps']:\n    basis, terms, offset = build(case, pool=pool)\n    model = Model(basis, terms if case.get('ham') else [])\n"
    drv += "    mk = lambda m: [Mpo(m, terms, offset=offset, algo=case['algo'])]\n"
    drv += "    mpo = model.get_mpos('c01', mk)[0] if case.get('via_cache') else mk(model)[0]\n"
    drv += "    ref = ref_dense(case)\n    err = rel_err(mpo.todense(), ref)\n    print(case['algo'], err)\n    assert err <= 1e-8\n    kept.append((mpo, ref))\n"
    drv += "assert rel_err(kept[0][0].todense(), kept[0][1]) <= 1e-8\n"
    return lib + drv


def chunks(xs, n):
    k = max(1, (len(xs) + n - 1) // n)
    return [xs[i:i + k] for i in range(0, len(xs), k)]


# ====================================================================== the check
def run(ctx):
    quick = ctx.tier == "quick"
    rng = ctx.rng
    ncorr = 140 if quick else 1500
    norc = 420 if quick else 6000
    stats = {}
    ctx.trusted += [
        "correspondence harness/c01.py + harness/impl/c01_impl.py: generated models/term lists; witness loggers wrapping _decompose_graph, _decompose_qr, bipartite_vertex_cover, scipy.linalg.qr, swap_site; JSON export; canonicalisation (out-ops sorted inside a bond entry, tables sorted); Gaussian-integer scaling of dyadic factors",
        "vertex covers of the implementation enter as witnesses whose validity (cover, duplicate-free, subset of the rows/columns) is re-checked by the Coq model on every logged call; validity/minimality of bipartite_vertex_cover in general is property C20",
        "modelled, not verified: binary64 rounding; the relative drop thresholds 1e-15 (_deduplicate_table) and 1e-10 (_decompose_qr rank / entries) are modelled as 'drop exact zeros'; scipy.linalg.qr is a logged witness checked to 1e-9; symbolic_mo_to_numeric_mo / basis.op_mat / Mpo.todense are covered by the dense oracle only; np.unique row order (model keeps first-occurrence order, witnesses are expressed in keys)",
        "the dense NumPy oracle (harness/impl/c01_lib.py) is not in the trusted base of any theorem; it only searches for failing inputs",
    ]
    # ---------------------------------------------------------------- 1. Coq
    ok_build, log = ctx.coq_make(["Proofs/SymMpoProofs.vo"])
    ok_props = False
    if ok_build:
        ok_props, log = ctx.props("Props/C01.v")
    else:
        ctx.obligations.append({"name": "C01 (build of Model/SymMpo.v + Proofs/SymMpoProofs.v)", "file": "Proofs/SymMpoProofs.v",
                                "ok": False, "assumptions": None})
    import time as _t
    T = {"coq_build_props": round(_t.time() - ctx.t0, 1)}
    import re as _re0
    for rel in ("Model/SymMpo.v", "Proofs/SymMpoProofs.v"):
        src = _re0.sub(r"\(\*.*?\*\)", "", open(os.path.join(common.COQ, rel)).read(), flags=_re0.S)
        bad = _re0.findall(r"\b(Admitted|admit|Axiom|Parameter|Conjecture|Abort)\b", src)
        if bad:
            ok_props = False
            ctx.obligations.append({"name": "no-escape-hatch gate " + rel, "file": rel, "ok": False, "assumptions": bad})
    # ---------------------------------------------------------------- 2. cases
    cases = []
    dist = {"nsites": {}, "nterms": {}, "kinds": {}, "flavour": {}, "offset_units": {}, "complex": 0, "complex_matrix_real_factors": 0, "offset": 0, "dup_or_cancel_terms": 0,
            "single_row": 0, "all_cancel_regenerated": 0}
    cid = 0
    while len(cases) < ncorr:
        u = rng.random()
        flavour = "int" if u < 0.4 else ("dyadic" if u < 0.8 else "wide")
        case = gen_case(rng, cid, flavour, swaps=(flavour == "int"))
        view = case_view(case)
        mr = merged_rows(case, view)
        if not mr:
            dist["all_cancel_regenerated"] += 1
            continue
        if len(mr) == 1:
            dist["single_row"] += 1
        if flavour == "wide":
            case["algos"] = GRAPH_ALGOS
        if case.get("scale_exp"):
            dist["overall_scale_cases"] = dist.get("overall_scale_cases", 0) + 1
        case["_view"] = view
        cases.append(case)
        cid += 1
        dist["nsites"][len(case["sites"])] = dist["nsites"].get(len(case["sites"]), 0) + 1
        nt = len(case["terms"])
        dist["nterms"]["%d-%d" % (nt // 10 * 10, nt // 10 * 10 + 9)] = dist["nterms"].get("%d-%d" % (nt // 10 * 10, nt // 10 * 10 + 9), 0) + 1
        for s in case["sites"]:
            kk = s["kind"] + ("(x0!=0)" if s.get("x0") else "")
            dist["kinds"][kk] = dist["kinds"].get(kk, 0) + 1
        dist["flavour"][flavour] = dist["flavour"].get(flavour, 0) + 1
        if case.get("same_object_mode"):
            dist.setdefault("same_object_repetition", {})
            dist["same_object_repetition"][case["same_object_mode"]] = dist["same_object_repetition"].get(case["same_object_mode"], 0) + 1
        if case.get("ham"):
            dist["via_ham_terms"] = dist.get("via_ham_terms", 0) + 1
        dist["complex"] += 1 if case["complex"] else 0
        dist["complex_matrix_real_factors"] += 1 if case["complex_matrix_real_factors"] else 0
        dist["offset"] += 1 if case["offset"] else 0
        if case.get("offset_unit"):
            dist["offset_units"][case["offset_unit"]] = dist["offset_units"].get(case["offset_unit"], 0) + 1
        dist["dup_or_cancel_terms"] += len(case["terms"]) + (1 if case["offset"] else 0) - len(mr)
    njw = 30 if quick else 300
    for k in range(njw):
        c = gen_jw_case(rng, 500000 + k)
        if not merged_rows(c, case_view(c)):
            continue
        c["_view"] = case_view(c)
        cases.append(c)
    dist["jw_swap_cases"] = njw
    malformed = []       # fully cancelling term lists (zero operator) are out of scope: neither generated nor reported
    strip = lambda c: {k: v for k, v in c.items() if not k.startswith("_")}
    # ---------------------------------------------------------------- 3. implementation runs (parallel)
    batches = chunks([strip(c) for c in cases + malformed], 14)
    tmpd = "/tmp/c01_run_%d" % os.getpid()
    os.makedirs(tmpd, exist_ok=True)
    outs = ctx.impl_par("c01_impl.py", [{"cases": b, "algos": ALGOS, "swap": True, "seed": ctx.seed,
                                         "out": os.path.join(tmpd, "exp_%d.json" % k)} for k, b in enumerate(batches)], timeout=900 if quick else 3600)
    results = {}
    impl_crash = []
    for rc, res, txt in outs:
        if res is None or "file" not in res:
            impl_crash.append(txt[-800:])
            continue
        with open(res["file"]) as f:
            data = json.load(f)
        os.remove(res["file"])
        for r in data["results"]:
            results[r["id"]] = r
    try:
        os.rmdir(tmpd)
    except OSError:
        pass
    T["impl_export"] = round(_t.time() - ctx.t0, 1)
    bycase = {c["id"]: c for c in cases + malformed}
    # ---------------------------------------------------------------- 4. model runs (Coq) and comparison
    corr = {}          # key -> list of problem dicts
    evals = []
    ctxs = {}
    n_impl_exc = 0

    def problem(key, cid_, algo, what):
        corr.setdefault(key, []).append({"case": cid_, "algo": algo, "what": what})
    for c in cases + malformed:
        r = results.get(c["id"])
        if r is None or "error" in r:
            problem("corr-export", c["id"], None, "exporter failed: %s" % ((r or {}).get("error", "no result")[-300:]))
            continue
        ctxs[c["id"]] = (c, c["_view"], r)
        for algo, rec in r["algos"].items():
            if "error" in rec and c["id"] < 100000:
                n_impl_exc += 1
                problem("corr-impl-exception", c["id"], algo, rec["error"])
        if ok_build:
            evals += build_evals(strip(c), c["_view"], r, stats)
    n_cmp = 0
    nontrivial = set()
    fast_cases = 0
    samples = []
    if ok_build and evals:
        runnable = [(t, e) for t, e in evals if e]
        for t, e in evals:
            if e is None:
                problem("corr-unrepresentable", t[0], t[2], "a factor of the implementation's output is not a dyadic multiple of the input scale")
        runnable.sort(key=lambda te: -len(te[1]))
        nsh = max(14, (len(runnable) + 59) // 60)                                  # at most ~60 evaluations per coqc run
        shards = [runnable[k::nsh] for k in range(nsh) if runnable[k::nsh]]        # deal by decreasing size
        # one `Redirect`ed evaluation per shard: the parallel runner does not drain coqc's pipe while it runs
        rdir = os.path.join(common.COQ, "Corr", "run_" + ctx.pid)
        os.makedirs(rdir, exist_ok=True)
        import re as _re
        shard_timeout = 900 if quick else 3000

        def run_shards(shs, tag0):
            """-> list of (shard, parsed lists or None, rc, tail)"""
            items = []
            for k, sh in enumerate(shs):
                body = ";\n ".join("(%s)" % e for _, e in sh)
                items.append(("c01_%s%d" % (tag0, k), PRE + 'Redirect "%s" Eval vm_compute in ([%s]).\n'
                              % (os.path.join(rdir, "out_%s%d" % (tag0, k)), body)))
            res = ctx.coq_eval_many(items, timeout=shard_timeout, par=14)
            outl = []
            for k, sh in enumerate(shs):
                rc, out = res["c01_%s%d" % (tag0, k)]
                ls = None
                fn = os.path.join(rdir, "out_%s%d.out" % (tag0, k))
                if rc == 0 and os.path.exists(fn):
                    txt = open(fn).read().replace("- ", "-")
                    ls = [[int(x) for x in _re.findall(r"-?\d+", grp)] for grp in _re.findall(r"\[([^\[\]]*)\]", txt)]
                    if len(ls) != len(sh):
                        ls = None
                if os.path.exists(fn):
                    os.remove(fn)
                for ext in (".v", ".vo", ".vok", ".vos", ".glob"):
                    fz = os.path.join(rdir, "c01_%s%d%s" % (tag0, k, ext))
                    if os.path.exists(fz):
                        os.remove(fz)
                outl.append((sh, ls, rc, out[-600:]))
            return outl
        done = []
        pending = run_shards(shards, "a")
        for attempt in ("b", "c", "d"):
            # a failed shard (time-out under load, one ill-formed evaluation) is split and retried before anything is reported
            failed = [x for x in pending if x[1] is None]
            done += [x for x in pending if x[1] is not None]
            if not failed:
                pending = []
                break
            stats["model_eval_shards_retried"] = stats.get("model_eval_shards_retried", 0) + len(failed)
            halves = []
            for sh, _, rc, tail in failed:
                if len(sh) == 1:
                    problem("corr-model-eval", sh[0][0][0], sh[0][0][2], "coqc failed on a single evaluation %s (rc %s): %s" % (sh[0][0], rc, tail))
                else:
                    halves += [sh[:len(sh) // 2], sh[len(sh) // 2:]]
            pending = run_shards(halves, attempt) if halves else []
        for sh, ls, rc, tail in pending:
            if ls is None:
                problem("corr-model-eval", None, None, "coqc failed on a shard of %d evaluations after three retries (rc %s): %s" % (len(sh), rc, tail))
            else:
                done.append((sh, ls, rc, tail))
        for sh, ls, rc, tail in done:
            for (tag, _), xs in zip(sh, ls):
                cid_, what, algo = tag
                case, view, r = ctxs[cid_]
                n_cmp += 1
                try:
                    if what == "table":
                        p = cmp_table(case, view, r, xs)
                        key = "corr-terms-to-table"
                    elif what == "graph":
                        rec = r["algos"][algo]
                        p = cmp_graph(case, view, r, rec, xs)
                        key = "corr-construct-" + ("fastpath" if not rec["steps"] else "graph")
                        q = qn_check(r, rec)
                        for m in q:
                            problem("corr-qn-labels", cid_, algo, m)
                        for m in bond_dim_checks(r, rec):
                            problem("corr-bond-dims", cid_, algo, m)
                        stats["min_cover_steps_checked"] = stats.get("min_cover_steps_checked", 0) + len(rec["steps"])
                        if any(any(s["rowbool"]) and any(s["colbool"]) for s in rec["steps"]):
                            nontrivial.add(cid_)
                        if not rec["steps"]:
                            fast_cases += 1
                    elif what == "qn":
                        p = cmp_qn(r, r["algos"][algo], xs)
                        key = "corr-qn-labels"
                        stats["qn_cmp"] = stats.get("qn_cmp", 0) + 1
                    elif what == "qr":
                        p = cmp_qr(case, view, r, r["algos"][algo], xs, stats)
                        key = "corr-construct-qr"
                    elif what == "swapjw":
                        a, kk = algo
                        lg = [l_ for l_ in r["algos"][a]["jw_swaps"][kk]["log"] if "nb2" in l_][0]
                        p = cmp_swap(lg, xs)
                        key = "corr-swap-jw"
                        stats["swap_jw_cmp"] = stats.get("swap_jw_cmp", 0) + 1
                        stats["swap_jw_rule_nontrivial"] = stats.get("swap_jw_rule_nontrivial", 0) + (
                            1 if any(e[0] != e[2] or e[1] != e[3] or e[4] != [1.0, 0.0] for e in lg["jw_map"]) else 0)
                    else:
                        a, kk = algo
                        lg = [l_ for l_ in r["algos"][a]["swaps"][kk]["log"] if "nb2" in l_][0]
                        p = cmp_swap(lg, xs)
                        key = "corr-swap"
                        stats["swap_cmp"] = stats.get("swap_cmp", 0) + 1
                except Exception as e:           # decoder / comparison fault
                    p = ["comparison raised %r" % (e,)]
                    key = "corr-harness"
                for m in p:
                    problem(key, cid_, algo if not isinstance(algo, tuple) else list(algo), m)
        for c in cases[:2]:
            r = results.get(c["id"])
            if r and "table" in r:
                a = "Hopcroft-Karp"
                rec = r["algos"].get(a, {})
                samples.append({"sites": c["sites"], "n_terms": len(c["terms"]), "first_terms": c["terms"][:3], "offset": c["offset"],
                                "table_rows": len(r["table"]), "bond_dims": rec.get("bond_dims"),
                                "covers": [[sum(s["rowbool"]), sum(s["colbool"])] for s in rec.get("steps", [])]})
    T["model_eval_compare"] = round(_t.time() - ctx.t0, 1)
    # dense / swap results of the instrumented runs count as oracle evaluations too
    orc_fail = []
    n_orc = 0
    n_swaps = 0
    for c in cases:
        r = results.get(c["id"])
        if not r or "error" in r:
            continue
        for algo, rec in r["algos"].items():
            if "error" in rec:
                orc_fail.append({"case": c, "algo": algo, "stage": "construct", "kind": "exception", "detail": rec["error"]})
                continue
            n_orc += 1
            tol = DENSE_TOL_QR if algo == "qr" else DENSE_TOL
            if rec.get("dense_err") is None or not rec["dense_err"] <= tol:
                orc_fail.append({"case": c, "algo": algo, "stage": "construct", "kind": "mismatch", "detail": rec.get("dense_err", rec.get("dense_exc"))})
            for k, sw in enumerate(rec.get("swaps", [])):
                n_swaps += 1
                if "error" in sw:
                    orc_fail.append({"case": c, "algo": algo, "stage": "swap", "kind": "exception", "detail": sw["error"], "nswap": k})
                elif not sw["dense_err"] <= tol:
                    orc_fail.append({"case": c, "algo": algo, "stage": "swap", "kind": "mismatch", "detail": sw["dense_err"], "nswap": k})
    # ---------------------------------------------------------------- 5. dense oracle sweep on the unpatched code path
    ocases = []
    for k in range(norc):
        u = rng.random()
        flavour = "int" if u < 0.25 else ("dyadic" if u < 0.75 else "wide")
        c = gen_case(rng, 200000 + k, flavour, swaps=(rng.random() < 0.6))
        view = case_view(c)
        mr = merged_rows(c, view)
        if not mr:
            continue
        if flavour == "wide":
            c["algos"] = GRAPH_ALGOS
        ocases.append(c)
    n_exh = 0
    if not quick:
        # exhaustive small scope: every list of 1..3 distinct strings over {I, sigma_x, sigma_z}^3 (3 spin sites),
        # factors 1, 2, -3 by position, all three algorithms
        import itertools
        strings = list(itertools.product(["I", "sigma_x", "sigma_z"], repeat=3))
        sites3 = [{"kind": "spin"}] * 3
        for m in (1, 2, 3):
            for combo in itertools.combinations(strings, m):
                terms = [{"f": [[1.0, 2.0, -3.0][j], 0.0], "ops": [["s%d" % i, x] for i, x in enumerate(st)]} for j, st in enumerate(combo)]
                ocases.append({"id": 300000 + n_exh, "sites": sites3, "terms": terms, "offset": 0.0, "flavour": "int", "complex": False})
                n_exh += 1
    hists = [gen_history(rng, 400000 + k) for k in range(40 if quick else 400)]
    hists += [gen_regroup_history(rng, 450000 + k) for k in range(20 if quick else 200)]
    hbyid = {h["id"]: h for h in hists}
    obatches = chunks(ocases, 14)
    hbatches = [hists[k::len(obatches)] for k in range(len(obatches))]
    many = {"n": 7, "algos": ["Hopcroft-Karp"] if quick else ALGOS, "seed": ctx.seed}
    oouts = ctx.impl_par("c01_oracle.py", [{"cases": [], "algos": ALGOS, "many_terms": many}]
                         + [{"cases": b, "algos": ALGOS, "histories": hb} for b, hb in zip(obatches, hbatches)], timeout=1200 if quick else 5400, par=15)
    obyid = {c["id"]: c for c in ocases}
    n_hist = 0
    for rc, res, txt in oouts:
        if res is None:
            impl_crash.append(txt[-800:])
            continue
        n_orc += res["n_construct"]
        n_swaps += res["n_swap"]
        n_hist += res.get("n_history", 0)
        for f in res["fails"]:
            f["case"] = obyid.get(f["id"])
            f["history"] = hbyid.get(f["id"])
            orc_fail.append(f)
    T["oracle"] = round(_t.time() - ctx.t0, 1)
    # ---------------------------------------------------------------- 6. probes (input classes kept out of the streams)
    probe_res = {}
    reported = set()
    for key, snippet, what in PROBES:
        rc, out = common.sh([common.IMPL_PY, "-c", snippet], env=common.impl_env(), cwd="/", timeout=300)
        probe_res[key] = rc
        if rc != 0:
            reported.add(key)
            ctx.violation(key, "dense oracle only (the theorems of Props/C01.v and the correspondence are unaffected): " + what,
                          {"output_tail": out[-700:]}, found=True, repro=snippet)
    known_keys = set(k.get("key") for k in ctx.known if k.get("status") == "known" and k.get("property") == ctx.pid)
    pending_res = {}
    for key, snippet, what in PENDING:
        if snippet is None:
            snippet = make_repro(PENDING_SWAP_CASE, "Hopcroft-Karp", swaps=[1])
        rc, out = common.sh([common.IMPL_PY, "-c", snippet], env=common.impl_env(), cwd="/", timeout=300)
        pending_res[key] = rc
        if rc != 0 and key in known_keys:
            ctx.violation(key, "dense oracle only: " + what, {"output_tail": out[-700:]}, found=True, repro=snippet)
        elif rc != 0:
            ctx.notes.append("PENDING finding (reported, not yet classified; not counted as violation): %s -- %s" % (key, what))
    stats["pending_probe_exit_codes"] = pending_res
    # ---------------------------------------------------------------- 7. verdicts
    theorem_broken = (not ok_build) or (not ok_props)
    first_found = None
    classes = {}
    for f in orc_fail:
        key = oracle_key(f)
        classes.setdefault(key, []).append(f)
    stats["oracle_failure_classes"] = {k: len(v) for k, v in classes.items()}
    for key, fl in sorted(classes.items()):
        if key in reported:          # already reported through its deterministic probe
            continue
        f = min(fl, key=lambda x: len((x.get("case") or {}).get("terms", [])))
        c = f.get("case")
        repro = None
        if f.get("history") is not None:
            repro = make_repro_history(f["history"])
            first_found = first_found or repro
        if f["stage"] == "manyterms":
            repro = MANY_TERMS_REPRO % (f["algo"],)
            first_found = first_found or repro
        if c is not None:
            try:
                c = shrink(ctx, c, f)
            except Exception as e:
                ctx.notes.append("shrinker failed: %r" % (e,))
            sw = c.get("swaps") if f["stage"] == "swap" else None
            if sw is not None and "nswap" in f:
                sw = sw[:f["nswap"] + 1]
            repro = make_repro(strip(c), f["algo"] or "Hopcroft-Karp", sw)
            first_found = first_found or repro
        ctx.violation(key, "dense oracle: Mpo(...).todense() / try_swap_site vs the independent NumPy reference"
                      + ("; also correspondence: " + ", ".join(sorted(corr)) if corr else ""),
                      {"n_failures": len(fl), "algo": f["algo"], "stage": f["stage"], "kind": f["kind"], "detail": f["detail"],
                       "where": f.get("where"), "case": strip(c) if c else None, "history": f.get("history"), "step": f.get("step")},
                      found=repro is not None, repro=repro)
    for key, pl in sorted(corr.items()):
        # a correspondence failure: is there a failing input on the real code among the same cases?
        ids = set(p["case"] for p in pl)
        hit = next((f for f in orc_fail if f.get("case") and f["case"]["id"] in ids), None)
        repro = None
        if hit is not None:
            c = hit["case"]
            repro = make_repro(strip(c), hit["algo"] or "Hopcroft-Karp", c.get("swaps") if hit["stage"] == "swap" else None)
        ctx.violation(key, "correspondence %s (model Model/SymMpo.v vs renormalizer/mps/symbolic_mpo.py): the hypotheses/conclusion of C01_construct_sound / C01_swap_sound are no longer tied to the code" % key,
                      {"n_problems": len(pl), "first": pl[:5],
                       "case": strip(bycase[pl[0]["case"]]) if pl[0]["case"] in bycase else None},
                      found=repro is not None, repro=repro)
    if impl_crash:
        ctx.violation("impl-script-crash", "harness/impl script crashed (machinery fault)", {"tails": impl_crash[:3]}, found=False)
    if theorem_broken:
        bad = [o["name"] for o in ctx.obligations if not o["ok"]]
        ctx.violation("coq-theorems", "theorem(s) of Props/C01.v: " + ", ".join(bad), {"coq_log_tail": (log or "")[-1500:]},
                      found=first_found is not None, repro=first_found)
    stats["probe_exit_codes"] = probe_res
    T["end"] = round(_t.time() - ctx.t0, 1)
    stats["phase_end_times_s"] = T
    ctx.notes.append("probes of known-problem input classes (exit code 0 = property holds there): %s" % probe_res)
    ctx.notes.append("swap_sound is proved for the model of swap_site; the tie for swapping is correspondence (integer-factor cases) + dense oracle")
    dist.update({"correspondence_cases": len(cases), "oracle_cases": len(ocases), "exhaustive_3spin_lists": n_exh, "malformed_cases": len(malformed),
                 "fast_path_comparisons": fast_cases, "stats": stats})
    dist["history_sequences"] = len(hists)
    return {"evaluations": n_cmp + n_orc + n_swaps + n_hist, "oracle_history_constructions": n_hist,
            "distinct_nontrivial": len(nontrivial),
            "rule": "evaluations = model-vs-implementation comparisons (table, per-algorithm construction incl. every bond/table/coeff check, swap_site calls) + dense-oracle constructions + dense-oracle swaps + constructions of the history stream (several operators built in one process with different SHO parameters / algorithms / model.mpos use, first one re-checked at the end); a correspondence case counts as non-trivial when at some bond a graph algorithm selected both rows and columns (complementary operators next to whole rows)",
            "samples": samples[:3], "exhaustive": False,
            "input_distribution": dist,
            "correspondence_comparisons": n_cmp, "oracle_constructions": n_orc, "oracle_swaps": n_swaps,
            "qr_witness_worst_residual": stats.get("qr_worst_residual"), "qr_worst_coeff_error": stats.get("qr_worst_coeff")}
