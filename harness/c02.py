"""C02: the tree tensor network operator is exact and independent of the tree topology.

  translators     tx/partition.py (approximate_partition -> Gen/Partition.v, round trip on samples),
                  tx/builders_tree.py (the four tree builders -> Gen/TreeBuilders.v), tx/rootcover.py (cover orientation -> Gen/RootCover.v)
  theorems        Props/C02.v
  correspondence  (a) builders: every list length, tree order, contract_label vector -- model tree == real tree,
                      and the exactly-once property on the real object
                  (b) construct_symbolic_ttno on random trees / the four builders x random term lists x both
                      graph algorithms: per-node out-operators, every intermediate table (= the column
                      bookkeeping), bond dimensions, bond labels, with the logged vertex covers as witnesses;
                      the column *names* of the proved stack discipline against the logged tables;
                      the coefficient function of the composed symbolic tensors against the Coq denotation,
                      the term table and the term list
  oracle          TTNO(tree, terms).todense(order) vs dense sum of krons vs Mpo(chain).todense(), 1e-9;
                  HISTORY stream: sequences of 3-5 constructions inside ONE process sharing dof names / sizes but
                  differing in basis kind and parameters, trees and algorithms; first object re-checked at the end
"""
import json
import os
import shutil
import sys
import tempfile
from concurrent.futures import ThreadPoolExecutor
from fractions import Fraction

import common
sys.path.insert(0, os.path.join(common.VERIF, "tx"))
import partition as txpart
import builders_tree as txbuild
import rootcover as txroot
import uniquerows as txuniq
import complexguard as txcplx

TOL = 1e-9
SIZE1 = [False]     # set by the probe below: may the generators use one-function (nbas == 1) real basis sets?
PROBE_SIZE1 = r"""
import sys, numpy as np
from renormalizer import Op, BasisHalfSpin, BasisSHO
from renormalizer.tn import BasisTree, TTNO, TTNS
bad = []
obs = []      # state-side observations outside C02's observable (reported, not enforced here)
for nm, bs in [("one size-1 set", [BasisHalfSpin("s"), BasisSHO("v", omega=1.0, nbas=1)]),
               ("only size-1 sets", [BasisSHO("u", omega=2.0, nbas=1), BasisSHO("v", omega=1.0, nbas=1)])]:
    # a frozen mode: one basis function.  to_contract_args squeezes the size-1 axis; todense must not request it
    if len(bs[0].sigmaqn) == 2:
        terms = [Op("sigma_z", "s", 1.0), Op("sigma_x x^2", ["s", "v"], 0.25)]
        ref = np.kron(np.diag([1.0, -1.0]), np.eye(1)) + 0.25 * np.kron(np.array([[0, 1.0], [1.0, 0]]), np.asarray(bs[1].op_mat("x^2")))
    else:
        terms = [Op("x^2 x^2", ["u", "v"], 3.0)]
        ref = 3.0 * np.kron(np.asarray(bs[0].op_mat("x^2")), np.asarray(bs[1].op_mat("x^2")))
    for tname, tree in [("linear", BasisTree.linear(bs)), ("binary", BasisTree.binary(bs))]:
        try:
            ttno = TTNO(tree, terms)
            d = np.asarray(ttno.todense(bs)).reshape(ref.shape)
            if not np.abs(d - ref).max() <= 1e-12 * np.abs(ref).max():
                bad.append((nm, tname, "TTNO.todense differs", float(np.abs(d - ref).max())))
        except Exception as e:
            bad.append((nm, tname, "TTNO.todense raised %s: %s" % (type(e).__name__, e)))
        try:                                    # the state side (same index bookkeeping)
            ttns = TTNS.random(tree, 0, 2)
            v = np.asarray(ttns.todense(bs)).reshape(-1)
            if v.size != ref.shape[0]:
                bad.append((nm, tname, "TTNS.todense has the wrong size", int(v.size)))
            else:
                w = np.asarray(ttno.apply(ttns).todense(bs)).reshape(-1)
                if not np.abs(w - ref @ v).max() <= 1e-10 * max(np.abs(ref @ v).max(), 1e-300):
                    bad.append((nm, tname, "TTNO.apply(TTNS).todense differs from dense @ vector", float(np.abs(w - ref @ v).max())))
        except Exception as e:
            # a Hilbert space of dimension ONE contracts to a 0-d scalar; TTNS.todense then fails `asnumpy`'s assert (C11's observable)
            (obs if nm == "only size-1 sets" else bad).append((nm, tname, "TTNS.todense / apply raised %s: %s" % (type(e).__name__, e)))
if obs:
    print("OBSERVATION", obs[:4])
print("size-1 basis sets:", bad[:6] if bad else "ok")
sys.exit(1 if bad else 0)
"""
COQ_HDR = ("From Coq Require Import ZArith List Arith.\nImport ListNotations.\n"
           "From RV Require Import Base.CRing Gen.Partition Model.TreeTopo Gen.TreeBuilders Model.Ttno.\n")

SPIN_SYMS = ["sigma_x", "sigma_z", "sigma_+", "sigma_-", "sigma_+ sigma_-", "sigma_z sigma_x"]
SHO_SYMS = ["b", r"b^\dagger", "x", r"b^\dagger b", "x^2"]
EL_SYMS = [r"a^\dagger", "a", r"a^\dagger a"]


# common.coq_eval_many / impl_par read a child's stdout only after it exited, which blocks once the
# output exceeds the pipe buffer; these wrappers run the blocking single-shot variants in threads.
def coq_eval_pool(ctx, files, timeout=900, par=12):
    with ThreadPoolExecutor(par) as ex:
        res = list(ex.map(lambda nt: ctx.coq_eval(nt[0], nt[1], timeout=timeout), files))
    return {name: r for (name, _), r in zip(files, res)}


def impl_pool(ctx, script, payloads, timeout=1500, par=14):
    with ThreadPoolExecutor(par) as ex:
        return list(ex.map(lambda pl: ctx.impl(script, pl, timeout=timeout), payloads))


# ---------------------------------------------------------------------------------- Coq text helpers
def nat_list(xs):
    return "[" + "; ".join("%d" % int(x) for x in xs) + "]"


def tree_term(post_mk):
    """Coq term of the tree from its post-order (n_children, n_sets) list."""
    stack = []
    for m, k in post_mk:
        ch = stack[len(stack) - m:] if m else []
        del stack[len(stack) - m:]
        stack.append("Node %d [%s]" % (k, "; ".join(ch)))
    assert len(stack) == 1
    return stack[0]


def tree_nested(post_mk):
    stack = []
    for m, k in post_mk:
        ch = stack[len(stack) - m:] if m else []
        del stack[len(stack) - m:]
        stack.append((k, ch))
    return stack[0]


def table_term(rows, facs):
    return "[" + "; ".join("(%s, %s)" % (nat_list(r), common.coq_Z(f)) for r, f in zip(rows, facs)) + "]"


def wit_term(ws):
    return "[" + "; ".join("([%s], [%s])" % ("; ".join(nat_list(k) for k in w["rsel"]),
                                              "; ".join(nat_list(k) for k in w["csel"])) for w in ws) + "]"


class Reader:
    def __init__(self, xs):
        self.xs = xs
        self.i = 0

    def get(self):
        v = self.xs[self.i]
        self.i += 1
        return v

    def key(self):
        n = self.get()
        return [self.get() for _ in range(n)]

    def pair(self):
        k = self.key()
        return (tuple(k), self.get())

    def table(self):
        n = self.get()
        return [self.pair() for _ in range(n)]

    def bonds(self):
        nb = self.get()
        out = []
        for _ in range(nb):
            no = self.get()
            out.append([[self.pair() for _ in range(self.get())] for _ in range(no)])
        return out

    def cols(self):
        n = self.get()
        return [(self.get(), self.get(), self.get()) for _ in range(n)]

    def done(self):
        return self.i == len(self.xs)


# ---------------------------------------------------------------------------------- case generation
def gen_tree(rng, max_real):
    n = rng.choice([1, 2, 2, 3, 3, 4, 4, 5, 5, 6, 7])
    parent = [None] + [rng.randrange(i) for i in range(1, n)]
    kinds = []
    for i in range(n):
        kinds.append("dummy" if rng.random() < 0.25 else "real")
    if all(k == "dummy" for k in kinds):
        kinds[rng.randrange(n)] = "real"
    nreal_nodes = sum(1 for k in kinds if k == "real")
    budget = max_real
    sizes = {}
    for i in range(n):
        if kinds[i] == "real":
            sizes[i] = 1
            budget -= 1
    if budget < 0:       # too many real nodes: turn the surplus into dummies
        for i in range(n):
            if budget >= 0:
                break
            if kinds[i] == "real" and nreal_nodes > 1:
                kinds[i] = "dummy"
                del sizes[i]
                nreal_nodes -= 1
                budget += 1
    for i in list(sizes):
        add = rng.choice([0, 0, 1, 2])
        add = min(add, budget)
        sizes[i] += add
        budget -= add
    dof = [0]
    dcount = [0]
    qn_case = rng.random() < 0.25

    def bspec():
        d = dof[0]
        dof[0] += 1
        r = rng.random()
        if qn_case and r < 0.5:
            return ["el", d, 2]
        if r < 0.7:
            return ["spin", d, 2]
        nb = 1 if (SIZE1[0] and rng.random() < 0.08) else rng.choice([2, 3])
        return ["sho", d, nb, rng.choice([0.5, 1.0, 1.0, 2.0, 0.25]), rng.choice([0.0, 0.0, 0.0, 0.5, -1.0])]

    nodes = []
    for i in range(n):
        if kinds[i] == "dummy":
            b = [["dummy", dcount[0], 1]]
            dcount[0] += 1
        else:
            b = [bspec() for _ in range(sizes[i])]
        nodes.append({"b": b, "ch": []})
    order = list(range(1, n))
    rng.shuffle(order)                     # random child order
    for i in order:
        nodes[parent[i]]["ch"].append(nodes[i])
    reals = [s for nd in nodes for s in nd["b"] if s[0] != "dummy"]
    return nodes[0], reals


def all_ordered_trees(n):
    """every rooted ordered tree with n nodes, as lists of children (Catalan(n-1) of them)"""
    if n == 1:
        return [[]]
    out = []

    def forests(k):                      # ordered forests with k nodes in total
        if k == 0:
            return [[]]
        res = []
        for first in range(1, k + 1):
            for t in all_ordered_trees(first):
                for rest in forests(k - first):
                    res.append([t] + rest)
        return res
    return forests(n - 1)


def spec_of_shape(shape, counter, rng):
    d = counter[0]
    counter[0] += 1
    node = {"b": [["spin", d, 2]], "ch": []}
    for c in shape:
        node["ch"].append(spec_of_shape(c, counter, rng))
    return node


def reals_of(node):
    out = [s for s in node["b"] if s[0] != "dummy"]
    for c in node["ch"]:
        out += reals_of(c)
    return out


def gen_terms(rng, reals, nmax, wide=False):
    def sym_for(spec):
        return rng.choice({"spin": SPIN_SYMS, "sho": SHO_SYMS, "el": EL_SYMS}[spec[0]])

    def fac():
        if wide:      # O(1) fields next to couplings of 1e-9 .. 1e-7: far inside the code's relative 1e-15 pruning window,
            return {"num": rng.choice([1, 3, 5, -1, -3]), "exp": rng.choice([0, 0, 1, 2, 24, 26, 28, 30])}   # above the qr path's absolute 1e-10
        return {"num": rng.choice([1, 1, 1, 3, 5, -1, -1, -3]), "exp": rng.choice([-10, -3, -2, -1, 0, 0, 0, 1, 1, 2, 3, 6])}

    terms = []
    n = rng.randint(2 if wide else 1, max(2, nmax))
    while len(terms) < n:
        r = rng.random()
        if terms and r < 0.15:
            t = dict(rng.choice(terms))
            t.update(fac())                                   # duplicate with another factor
            terms.append(t)
        elif terms and r < 0.27:
            t = dict(rng.choice(terms))
            terms.append({"ops": t["ops"], "num": -t["num"], "exp": t["exp"]})      # exactly cancelling pair
        else:
            k = rng.randint(1, min(4, len(reals)))
            sup = rng.sample(reals, k)
            per = [[[s, spec[1]] for s in sym_for(spec).split(" ")] for spec in sup]
            ops = []
            if rng.random() < 0.3:                            # interleave DoFs inside the symbol string,
                while any(per):                               # keeping the order of the symbols of one DoF
                    q = rng.choice([x for x in per if x])
                    ops.append(q.pop(0))
            else:
                for q in per:
                    ops.extend(q)
            t = {"ops": ops}
            t.update(fac())
            terms.append(t)
    return terms


def gen_history(rng, sid):
    """3-5 constructions sharing dof names and sizes, differing in basis kind / parameters, trees, algorithms"""
    ndof = rng.randint(2, 4)
    nbas = [2] + [rng.choice([2, 3, 4]) for _ in range(ndof - 1)]
    omegas = [0.5, 1.0, 2.0, 0.25, 1.5]
    steps = []
    for istep in range(rng.randint(3, 5)):
        basis = []
        for d in range(ndof):
            name = "h%d" % d
            if nbas[d] == 2 and rng.random() < 0.4:
                basis.append(["spin", name, 2])
            elif nbas[d] > 2 and rng.random() < 0.25:
                xi = rng.choice([-1.0, -2.0, 0.0])
                basis.append(["sdvr", name, nbas[d], xi, xi + rng.choice([2.0, 3.0, 5.0])])
            else:
                basis.append(["sho", name, nbas[d], omegas[(istep + d + rng.randrange(2)) % len(omegas)], rng.choice([0.0, 0.0, 0.5, -1.0])])
        if all(b[0] == "spin" for b in basis):
            basis[-1] = ["sho", basis[-1][1], nbas[-1], omegas[istep % len(omegas)], 0.0]
        syms = {"spin": ["sigma_x", "sigma_z"], "sho": ["x", "x^2", "p^2", "x", r"b^\dagger b"], "sdvr": ["x", "x^2", "p^2"]}

        def fac():
            return {"num": rng.choice([1, 3, -1, 5, -3]), "exp": rng.choice([0, 1, 2, 3, -1])}
        terms = []
        for b in basis:
            t = {"ops": [[rng.choice(syms[b[0]]), b[1]]]}
            t.update(fac())
            terms.append(t)
        for _ in range(rng.randint(1, 2)):
            a, b = rng.sample(basis, 2)
            t = {"ops": [["sigma_z" if a[0] == "spin" else "x", a[1]], ["sigma_x" if b[0] == "spin" else "x", b[1]]]}
            t.update(fac())
            terms.append(t)
        r = rng.random()
        if r < 0.6:
            tree = {"builder": rng.choice(["linear", "binary", "t3ns", "mctdh"]), "order": rng.choice([2, 3]), "contract": rng.random() < 0.5}
        else:
            idx = list(range(ndof))
            rng.shuffle(idx)
            leaves = []
            while idx:
                k = rng.choice([1, 1, 2])
                leaves.append({"b": idx[:k], "ch": []})
                idx = idx[k:]
            if len(leaves) > 1 and rng.random() < 0.5:           # hang the last leaf below the first
                leaves[0]["ch"].append(leaves.pop())
            tree = {"nested": {"b": [-1], "ch": leaves}}
        steps.append({"basis": basis, "tree": tree, "algo": rng.choice(["Hopcroft-Karp", "Hungarian", "qr"]), "terms": terms})
    return {"id": sid, "steps": steps}


def gen_terms_conserving(rng, reals, nmax):
    """every term moves exactly one electron (a^dagger_i a_j or a^dagger_i a_i) times charge-neutral spectators: a common total charge 0"""
    els = [b for b in reals if b[0] == "el"]
    others = [b for b in reals if b[0] != "el"]
    terms = []
    for _ in range(rng.randint(1, nmax)):
        ops = []
        if len(els) >= 2 and rng.random() < 0.7:
            a, b = rng.sample(els, 2)
            ops += [[r"a^\dagger", a[1]], ["a", b[1]]]
        else:
            a = rng.choice(els)
            ops += [[r"a^\dagger", a[1]], ["a", a[1]]]
        for spec in rng.sample(others, min(len(others), rng.randint(0, 2))):
            for s_ in rng.choice({"spin": ["sigma_x", "sigma_z", "sigma_+ sigma_-"], "sho": ["x", r"b^\dagger b", "x^2"]}[spec[0]]).split(" "):
                ops.append([s_, spec[1]])
        terms.append({"ops": ops, "num": rng.choice([1, 1, 3, -1, 5]), "exp": rng.choice([-2, 0, 0, 1, 3])})
    return terms


ALPHA_TREES = [
    ("leaf with 3 basis sets", {"nested": {"b": [3], "ch": [{"b": [0, 1, 2], "ch": []}, {"b": [4], "ch": []}]}}, [0, 1, 2]),
    ("virtual root, leaves (0,1,2) and (3,4)", {"nested": {"b": [-1], "ch": [{"b": [0, 1, 2], "ch": []}, {"b": [3, 4], "ch": []}]}}, [0, 1, 2]),
    ("2 basis sets and 3 children", {"nested": {"b": [0, 1], "ch": [{"b": [2], "ch": []}, {"b": [3], "ch": []}, {"b": [4], "ch": []}]}}, [0, 1, 2]),
    ("4 basis sets on the root", {"nested": {"b": [0, 1, 2, 3], "ch": [{"b": [4], "ch": []}]}}, [0, 1, 2, 3]),
    ("chain of pairs", {"nested": {"b": [0, 1], "ch": [{"b": [2, 3], "ch": [{"b": [4], "ch": []}]}]}}, [1, 2, 3]),
]
ALPHA_LETTERS = ["X", "Z", "iY", "+", "-"]


def gen_alphabet(rng, aid, nterms, algo):
    """5 spins, every term a product of random Pauli words (length 1..3: 155 words per spin) on the crowded DoFs"""
    name, tree, crowd = ALPHA_TREES[aid % len(ALPHA_TREES)]
    basis = [["spin", "a%d" % i, 2] for i in range(5)]
    terms = []
    for _ in range(nterms):
        ops = []
        for d in crowd:
            ops.append([" ".join(rng.choice(ALPHA_LETTERS) for _ in range(rng.randint(1, 3))), "a%d" % d])
        rest = [d for d in range(5) if d not in crowd]
        if rest and rng.random() < 0.6:
            ops.append([rng.choice(ALPHA_LETTERS[:3]), "a%d" % rng.choice(rest)])
        terms.append([ops, rng.choice([1, 3, 5, -1, -3]), rng.choice([0, 1, 2, 3])])
    return {"id": aid, "basis": basis, "tree": tree, "algo": algo, "terms": terms, "tree_name": name}


def gen_complex(rng, cid):
    """real-looking lists whose LOCAL factors are complex: sigma_y pairs, p p, x p, on several groupings of the same sets"""
    n = rng.randint(3, 5)
    basis = []
    for d in range(n):
        basis.append(["spin", "c%d" % d, 2] if rng.random() < 0.6 else ["sho", "c%d" % d, rng.choice([2, 3]), rng.choice([0.5, 1.0, 2.0]), 0.0])
    cplx = {"spin": ["sigma_y"], "sho": ["p"]}
    real = {"spin": ["sigma_x", "sigma_z"], "sho": ["x", "x^2", "p^2"]}

    def fac():
        return {"num": rng.choice([1, 3, 5, -1, -3]), "exp": rng.choice([0, 1, 2, 3])}
    terms = []
    for _ in range(rng.randint(1, 3)):                         # the complex-factor terms: an even number of complex factors
        a, b = rng.sample(basis, 2)
        ops = [[rng.choice(cplx[a[0]]), a[1]], [rng.choice(cplx[b[0]]), b[1]]]
        if rng.random() < 0.4:
            c = rng.choice(basis)
            if c is not a and c is not b:
                ops.append([rng.choice(real[c[0]]), c[1]])
        t = {"ops": ops}
        t.update(fac())
        terms.append(t)
    for _ in range(rng.randint(1, 4)):                         # ordinary real terms
        sup = rng.sample(basis, rng.randint(1, min(3, n)))
        t = {"ops": [[rng.choice(real[b[0]]), b[1]] for b in sup]}
        t.update(fac())
        terms.append(t)
    rng.shuffle(terms)
    idx = list(range(n))
    trees = [{"builder": "linear"}, {"builder": "binary"}, {"builder": "mctdh", "order": 2, "contract": False},
             {"builder": "mctdh", "order": 3, "contract": True}, {"builder": "t3ns"},
             {"nested": {"b": [-1], "ch": [{"b": idx, "ch": []}]}},                           # everything on one node
             {"nested": {"b": idx[:2], "ch": [{"b": idx[2:], "ch": []}]}}]
    rng.shuffle(idx)
    trees.append({"nested": {"b": [-1], "ch": [{"b": idx[:2], "ch": []}, {"b": idx[2:], "ch": []}]}})
    return {"id": cid, "basis": basis, "terms": terms, "trees": trees, "algos": [rng.choice(["Hopcroft-Karp", "Hungarian", "qr"]) for _ in trees]}


def term_coeffs(terms):
    """the term list as a map  frozenset{(dof, symbol-string-on-that-dof)} -> Fraction"""
    out = {}
    for t in terms:
        per = {}
        for s, d in t["ops"]:
            per.setdefault(str(d), []).append(s)
        key = frozenset((d, " ".join(ss)) for d, ss in per.items() if set(ss) != {"I"})
        out[key] = out.get(key, Fraction(0)) + Fraction(t["num"]) / (Fraction(2) ** t["exp"] if t["exp"] >= 0 else Fraction(1, 2 ** (-t["exp"])))
    return {k: v for k, v in out.items() if v != 0}


def dyf(p):
    num, exp = p
    return Fraction(num) / (Fraction(2) ** exp) if exp >= 0 else Fraction(num) * 2 ** (-exp)


# ---------------------------------------------------------------------------------- the check
def run(ctx):
    quick = ctx.tier == "quick"
    rng = ctx.rng
    ctx.trusted += [
        "translator tx/partition.py (python ast -> Gallina over Z/lists, fail-closed; its prelude fixes the semantics of len, //, slices, range)",
        "translator tx/builders_tree.py (BasisTree.linear/binary/general_mctdh/t3ns: skeleton unification with holes for every loop bound, index, slice bound, test and counter update; the functional reading of add_child/recursion is the template's) and tx/rootcover.py (orientation rule of the vertex cover)",
        "correspondence harness/c02.py + harness/impl/c02_impl.py, c02_builders.py: wrappers around _construct_symbolic_mpo_one_site, _decompose_graph, bipartite_vertex_cover; flat integer exchange format; sorting inside a formal sum / of table rows before comparison",
        "hand-written models Model/TreeTopo.v (builders) and Model/Ttno.v (construction loop) are tied by correspondence, not by translation",
        "modelled, not verified: _terms_to_table/_deduplicate_table (C01), the qr decomposition, symbolic_mo_to_numeric_mo_general and todense/opt_einsum (dense oracle only), nodes.index lookups, binary64 rounding, np.unique / scipy.sparse ordering (results compared up to order where the theorem is order-independent)",
        "pylib/print_tree.py stub that makes renormalizer.tn importable",
    ]
    broken = []
    detail = {}
    ev = 0
    nontriv = 0
    samples = []
    dist = {}

    def bump(k, n=1):
        dist[k] = dist.get(k, 0) + n

    # ---- 0. probe: TTNO.todense / TTNS.todense / apply with one-function real basis sets (defect repaired in /repo c6996f2).
    #         If it fails: violation `todense-size1-basis` with a replay, and the generators avoid nbas == 1 so that the
    #         other streams stay informative; otherwise such basis sets are part of every stream.
    rcp, outp = common.sh([common.IMPL_PY, "-c", PROBE_SIZE1], env=common.impl_env(), cwd="/", timeout=120)
    SIZE1[0] = (rcp == 0)
    for line in outp.splitlines():
        if line.startswith("OBSERVATION"):
            ctx.notes.append("ttns-todense-dimension-one (C11's observable, not enforced by C02): " + line[12:400])
    if rcp != 0:
        # repaired in /repo c6996f2 (`fixed:` entry of C02): a failure now is a regression, reported with a replay
        ctx.notes.append("todense-size1-basis: %s; generators avoid nbas == 1" % (outp.strip().splitlines()[-1][:300] if outp.strip() else "probe failed"))
        ctx.violation("todense-size1-basis", "dense oracle (observe_at TTNO.todense): a tree with a non-dummy basis set of one function cannot be densified / is densified wrongly (size-1 physical axis squeezed in to_contract_args but still requested as output index)",
                      {"probe_output": outp[-1500:]}, found=True, repro=PROBE_SIZE1)
    bump("probe:size-1 basis sets " + ("enabled" if SIZE1[0] else "avoided (todense raises)"))
    # ---- 1. translator
    tx_ok = True
    try:
        text, sites = txpart.main(common.REPO)
        ctx.regen("Gen/Partition.v", text)
        ctx.notes.append("approximate_partition call sites: %s" % sites)
    except Exception as e:
        tx_ok = False
        broken.append("translator tx/partition.py")
        detail["translator"] = repr(e)
        ctx.obligations.append({"name": "Gen/Partition.v (translator tx/partition.py)", "file": "Gen/Partition.v", "ok": False, "assumptions": None})
    for mod, rel in ((txbuild, "Gen/TreeBuilders.v"), (txroot, "Gen/RootCover.v"), (txuniq, "Gen/UniqueRows.v"), (txcplx, "Gen/ComplexGuard.v")):
        try:
            text2, info2 = mod.main(common.REPO)
            ctx.regen(rel, text2)
        except Exception as e:
            tx_ok = False
            broken.append("translator tx/%s.py" % mod.__name__)
            detail.setdefault("translator", "")
            detail["translator"] += " | %s: %r" % (mod.__name__, e)
            ctx.obligations.append({"name": "%s (translator tx/%s.py)" % (rel, mod.__name__), "file": rel, "ok": False, "assumptions": None})
    # ---- 2. build + theorems
    ok_build, log = ctx.coq_make(["Proofs/TreeTopoProofs.vo", "Proofs/TreeBuildersProofs.vo", "Proofs/TtnoProofs.vo"])
    ok_props = False
    if ok_build:
        ok_props, log = ctx.props("Props/C02.v")
    else:
        ctx.obligations.append({"name": "C02 (build of Gen/Partition.v, Model/TreeTopo.v, Model/Ttno.v and their proofs)", "file": "Proofs/TtnoProofs.v", "ok": False, "assumptions": None})
    if tx_ok:
        for rel in ("Gen/Partition.v", "Gen/TreeBuilders.v", "Gen/RootCover.v", "Gen/UniqueRows.v", "Gen/ComplexGuard.v"):
            ctx.obligations.append({"name": rel + " regenerated from the current source and accepted by the proofs", "file": rel, "ok": bool(ok_build), "assumptions": []})
    if not (ok_build and ok_props):
        broken.append("theorem(s): " + ", ".join(o["name"] for o in ctx.obligations if not o["ok"]))
        detail["coq_log_tail"] = log[-2500:]

    # ---- 3a. builders + partition: exhaustive
    maxlen = 10 if quick else 14
    lab_max = 8
    rc, bres, bout = ctx.impl("c02_builders.py", {"maxlen": maxlen, "label_maxlen": lab_max, "orders": [2, 3, 4], "part_maxlen": 16, "part_maxn": 6})
    corr_bad = []
    once_bad = []
    if bres is None:
        corr_bad.append({"what": "builders script failed", "out": bout[-1500:]})
    else:
        # the property itself, on the real objects -- independent of the Coq side
        for t in bres["trees"]:
            ev += 1
            if t["once"] is False:
                once_bad.append({"what": "builder does not keep every basis set exactly once", "key": t["key"], "detail": t["detail"], "enc": t["enc"]})
        for p in bres["parts"]:
            ev += 1
            if sum(p["groups"], []) != list(range(p["len"])):
                once_bad.append({"what": "approximate_partition loses or repeats elements", "len": p["len"], "n": p["n"], "impl": p["groups"]})
    if bres is not None and ok_build:
        items = []
        for t in bres["trees"]:
            k = t["key"]
            if k[0] in ("linear", "binary", "t3ns"):
                expr = "enc_obtree (%s_g (seq 0 %d))" % (k[0], k[1])
            else:
                mode = {"no": "NoContract", "all": "ContractAll"}.get(k[3]) or "(ContractLabel (bools_of %d %d))" % (k[4], k[1])
                expr = "enc_obtree (general_mctdh_g (seq 0 %d) %d%%Z %s)" % (k[1], k[2], mode)
            items.append((t, expr))
        pitems = [(p, "flat_map (fun g => Z.of_nat (length g) :: map Z.of_nat g) (approximate_partition (seq 0 %d) %d%%Z)" % (p["len"], p["n"])) for p in bres["parts"]]
        allitems = items + pitems
        nshard = 8
        shards = [allitems[i::nshard] for i in range(nshard)]
        files = [("bld_%d" % i, COQ_HDR + "".join("Eval vm_compute in (%s).\n" % e for _, e in sh)) for i, sh in enumerate(shards)]
        outs = coq_eval_pool(ctx, files)
        for i, sh in enumerate(shards):
            rc_, out_ = outs["bld_%d" % i]
            vals = common.parse_Z_lists(out_) if rc_ == 0 else None
            if vals is None or len(vals) != len(sh):
                corr_bad.append({"what": "model evaluation of builders failed", "shard": i, "out": out_[-800:]})
                continue
            for (obj, expr), v in zip(sh, vals):
                ev += 1
                if "groups" in obj:
                    want = []
                    for g in obj["groups"]:
                        want += [len(g)] + list(g)
                    bump("partition")
                    if v != want:
                        corr_bad.append({"what": "approximate_partition: generated function != real function", "len": obj["len"], "n": obj["n"], "impl": obj["groups"], "model": v})
                    continue
                bump("builder:" + obj["key"][0])
                want = [-999] if obj["enc"] is None else obj["enc"]
                if v != want:
                    corr_bad.append({"what": "builder tree differs", "key": obj["key"], "impl": obj["enc"], "impl_err": obj["err"], "model": v})
                elif obj["enc"] is not None:
                    nontriv += 1 if len(obj["enc"]) > 6 else 0
        samples.append({"builder": bres["trees"][min(40, len(bres["trees"]) - 1)]["key"], "enc": bres["trees"][min(40, len(bres["trees"]) - 1)]["enc"]})

    # ---- 3b. construct_symbolic_ttno: random trees, builders, term lists, both graph algorithms
    ncase = 260 if quick else 3000
    max_real = 6 if quick else 7
    cases = []
    cid = 0
    for i in range(ncase):
        r = rng.random()
        if r < 0.72:
            tree, reals = gen_tree(rng, rng.randint(1, max_real))
            case = {"tree": tree}
            bump("tree:random")
        else:
            nb = rng.randint(2, max_real)
            reals = []
            for d in range(nb):
                reals.append(["spin", d, 2] if rng.random() < 0.7 else
                             ["sho", d, rng.choice([2, 3]), rng.choice([0.5, 1.0, 1.0, 2.0, 0.25]), rng.choice([0.0, 0.0, 0.5])])
            name = rng.choice(["linear", "binary", "mctdh", "mctdh", "t3ns"])
            bd = {"name": name}
            if name == "mctdh":
                bd["order"] = rng.choice([2, 3, 4])
                mode = rng.choice(["no", "all", "label"])
                if mode != "no":
                    bd["contract"] = True
                if mode == "label":
                    bd["label"] = [rng.random() < 0.5 for _ in range(nb)]
            case = {"tree": None, "builder": bd, "basis": reals}
            bump("tree:" + name)
        conserving = any(b[0] == "el" for b in reals) and rng.random() < 0.7
        case["wide"] = (not conserving) and rng.random() < 0.2
        for _ in range(50):
            case["terms"] = gen_terms_conserving(rng, reals, 10 if quick else 24) if conserving else gen_terms(rng, reals, 10 if quick else 24, wide=case["wide"])
            if term_coeffs(case["terms"]):                    # the zero operator goes to the malformed stream
                break
        case["qr_sym"] = rng.random() < 0.35
        case["algo"] = rng.choice(["Hopcroft-Karp", "Hungarian"])
        case["dense"] = True
        case["qr_dense"] = rng.random() < 0.3
        case["id"] = cid
        case["reals"] = reals
        cid += 1
        cases.append(case)
    # every rooted ordered tree up to a size bound (one basis set per node), one term list each
    max_nodes = 5 if quick else 7
    for nn in range(1, max_nodes + 1):
        for shp in all_ordered_trees(nn):
            tree = spec_of_shape(shp, [0], rng)
            reals = reals_of(tree)
            case = {"tree": tree, "algo": rng.choice(["Hopcroft-Karp", "Hungarian"]), "dense": True, "qr_dense": False, "id": cid, "reals": reals}
            for _ in range(50):
                case["terms"] = gen_terms(rng, reals, 8)
                if term_coeffs(case["terms"]):
                    break
            cid += 1
            cases.append(case)
            bump("tree:enumerated(all ordered trees <= %d nodes)" % max_nodes)
    # malformed stream: rejected by the implementation (an exception, never a wrong operator)
    mal = []
    for j in range(6):
        tree, reals = gen_tree(rng, 3)
        if j % 2 == 0:
            t = gen_terms(rng, reals, 1)[0]
            terms = [t, {"ops": t["ops"], "num": -t["num"], "exp": t["exp"]}]      # sums to the zero operator
            what = "zero operator"
        else:
            terms = [{"ops": [["sigma_x", 99]], "num": 1, "exp": 0}]                # unknown DoF
            what = "unknown DoF"
        mal.append({"tree": tree, "terms": terms, "algo": "Hopcroft-Karp", "dense": False, "id": cid, "reals": reals, "malformed": what})
        cid += 1
    allcases = cases + mal
    nproc = 14
    chunks = [allcases[i::nproc] for i in range(nproc)]
    tmpd = tempfile.mkdtemp(prefix="c02_")
    results = impl_pool(ctx, "c02_impl.py", [{"seed": ctx.seed, "cases": ch, "out": os.path.join(tmpd, "r%d.json" % i)} for i, ch in enumerate(chunks)], timeout=1500)
    by_id = {}
    for (rc_, res_, out_), ch in zip(results, chunks):
        data = None
        if res_ is not None and res_.get("file") and os.path.exists(res_["file"]):
            try:
                with open(res_["file"]) as f:
                    data = json.load(f)
            except Exception:
                data = None
        if data is None:
            corr_bad.append({"what": "implementation script failed", "out": (out_ or "")[-1500:]})
            continue
        for r in data["cases"]:
            by_id[r["id"]] = r
    shutil.rmtree(tmpd, ignore_errors=True)
    # ---- dense oracle, HISTORY stream: several constructions inside one process (see impl/c02_history.py)
    nseq = 10 if quick else 80
    seqs = [gen_history(rng, i) for i in range(nseq)]
    nhp = 2 if quick else 8
    scales = []
    for i in range(24 if quick else 200):
        st0 = rng.choice(gen_history(rng, 0)["steps"])
        scales.append({"id": i, "basis": st0["basis"], "tree": st0["tree"], "terms": st0["terms"],
                       "algo": rng.choice(["Hopcroft-Karp", "Hungarian"]), "k": rng.choice([1, 7, 20, 27, 30, 34, 40, 53, 64, 70])})
    # LARGE-ALPHABET stream: > 255 primary operators, packed row codes > 65535, crowded nodes, hundreds of terms
    alphas = []
    for i in range(6 if quick else 30):
        alphas.append(gen_alphabet(rng, i, rng.randint(450, 700), ["Hopcroft-Karp", "Hungarian", "qr"][i % 3] if i % 5 else "Hopcroft-Karp"))
    if not quick:      # more terms than a 16-bit counter holds, on a tree
        alphas.append(gen_alphabet(rng, len(alphas) + 1, 66000, "Hopcroft-Karp"))
    complexes = [gen_complex(rng, i) for i in range(16 if quick else 120)]
    nap = 6 if quick else 12
    apay = [{"alphabets": alphas[i::nap], "complexes": complexes[i::nap]} for i in range(nap) if alphas[i::nap] or complexes[i::nap]]
    hres = impl_pool(ctx, "c02_history.py", [{"sequences": seqs[i::nhp], "scales": scales[i::nhp]} for i in range(nhp)] + apay, timeout=1500)
    ares = hres[nhp:]
    hres = hres[:nhp]
    alpha_bad = []
    complex_bad = []
    alpha_by_id = {a["id"]: a for a in alphas}
    for (rc_, res_, out_), pl in zip(ares, apay):
        if res_ is None:
            alpha_bad.append({"what": "large-alphabet script failed", "out": (out_ or "")[-1200:], "case": pl["alphabets"][0]})
            continue
        for q in res_.get("complexes", []):
            ev += q["n"]
            bump("complex:lists")
            for v_ in q.get("verdicts", []):
                bump("complex:" + ("refused" if v_.startswith("refused") else "accepted and exact"))
            if q["fails"]:
                complex_bad.append({"what": "complex local factors", "fails": q["fails"][:3], "case": complexes[q["id"]]})
        for q in res_.get("alphabets", []):
            ev += 1
            bump("alphabet:cases")
            bump("alphabet:distinct words (max)", 0)
            dist["alphabet:distinct words (max)"] = max(dist["alphabet:distinct words (max)"], q.get("distinct_words", 0))
            if q["fails"]:
                alpha_bad.append({"what": "large alphabet", "fails": q["fails"][:3], "case": alpha_by_id[q["id"]]})
    scale_bad = []
    history_bad = []
    seq_by_id = {q["id"]: q for q in seqs}
    for (rc_, res_, out_), chunk in zip(hres, [seqs[i::nhp] for i in range(nhp)]):
        if res_ is None:
            history_bad.append({"what": "history script failed", "out": (out_ or "")[-1500:], "process": [q["id"] for q in chunk]})
            continue
        for q in res_.get("scales", []):
            ev += q["n"]
            bump("scale:twins")
            if q["fails"]:
                scale_bad.append({"what": "scale covariance", "case": scales[q["id"]], "fails": q["fails"][:4]})
        for q in res_["sequences"]:
            ev += q["n"]
            bump("history:sequences")
            bump("history:constructions", len(seq_by_id[q["id"]]["steps"]))
            if q["fails"]:
                history_bad.append({"what": "construction inside a history differs from its dense reference", "sequence": q["id"],
                                    "fails": q["fails"][:6], "process": [x["id"] for x in chunk]})
    def history_of(case):
        """the valid cases its implementation process had built before `case`, then `case` (constructions may depend
        on what the process did before, so a replay rebuilds them in the same order)"""
        for ch in chunks:
            ids = [c["id"] for c in ch]
            if case["id"] in ids:
                return [c for c in ch[:ids.index(case["id"])] if not c.get("malformed")] + [case]
        return [case]

    oracle_bad = []
    coq_items = []
    for case in allcases:
        r = by_id.get(case["id"])
        if r is None:
            continue
        if case.get("malformed"):
            ev += 1
            bump("malformed:" + case["malformed"])
            if not (r.get("error") or r.get("crash")):
                corr_bad.append({"what": "malformed input accepted", "kind": case["malformed"], "case": case})
            continue
        if r.get("crash") or r.get("error"):
            oracle_bad.append({"what": "construction raised on a valid input", "error": r.get("crash") or r.get("error"), "case": case})
            continue
        # dense oracle
        d = r.get("dense")
        if d:
            ev += 1
            qr_keys = ("ttno_qr_vs_sum",) if case.get("wide") else ("ttno_qr_vs_sum", "mpo_vs_sum", "ttno_vs_mpo", "linear_ttno_vs_mpo")
            worst = max(v for k, v in d.items() if k != "dim" and not k.endswith("_rel_smallest") and k not in qr_keys)
            worst_qr = max([v for k, v in d.items() if k in qr_keys] + [0.0])     # the default Mpo and algo="qr" drop entries below 1e-10 by design
            small = max([v for k, v in d.items() if k.endswith("_rel_smallest")] + [0.0])
            if case.get("wide"):
                bump("dense:wide dynamic range")
            if not worst <= TOL or not worst_qr <= 1e-8:
                oracle_bad.append({"what": "dense operators differ (relative to the operator's own scale; 1e-9 for the graph algorithms, 1e-8 where a qr construction is involved)", "errors": d, "case": case})
            elif not small <= 1e-3:
                oracle_bad.append({"what": "dense operators differ by more than 1e-3 of the SMALLEST coefficient (a weak term is lost or distorted)", "errors": d, "case": case})
        # term list -> coefficient function, compared with the table and the composed symbolic tensors
        tc = term_coeffs(case["terms"])
        prim = r["prim_str"]
        facs = [dyf(p) for p in r["factor"]]
        tab_map = {}
        for row, f in zip(r["table"], facs):
            key = frozenset((prim[p][1][0], prim[p][0]) for p in row if set(prim[p][0].split(" ")) != {"I"})
            tab_map[key] = tab_map.get(key, 0) + f
        ev += 1
        if tab_map != tc:
            corr_bad.append({"what": "_terms_to_table does not denote the term list", "case": case, "table": r["table"]})
        for s, c in zip(r["strings"], r["mo_coeff"]):
            key = frozenset((prim[p][1][0], prim[p][0]) for p in s if set(prim[p][0].split(" ")) != {"I"})
            want = tc.get(key, Fraction(0)) if all(r["prim_site"][p] == col for col, p in enumerate(s)) else Fraction(0)
            ev += 1
            if c is None or Fraction(c[0], c[1]) != want:
                corr_bad.append({"what": "composed symbolic TTNO: coefficient differs from the term list", "string": s, "impl": c, "want": str(want), "case": case})
                break
        if any(st.get("witness") is None for st in r.get("steps", [])):
            corr_bad.append({"what": "a node was decomposed without calling bipartite_vertex_cover: no witness logged (the model's graph step does not describe this code path)", "case": case})
        elif ok_build:
            coq_items.append((case, r))
    # ---- model recomputation in Coq
    if ok_build and coq_items:
        per = 18
        files = []
        groups = [coq_items[i:i + per] for i in range(0, len(coq_items), per)]
        for gi, grp in enumerate(groups):
            txt = [COQ_HDR]
            for ci, (case, r) in enumerate(grp):
                facs = r["factor"]
                E = 1 + max([p[1] for p in facs] + [0])
                ints = [p[0] * 2 ** (E - p[1]) for p in facs]
                r["_E"] = E
                r["_ints"] = ints
                ws = [s["witness"] for s in r["steps"]]
                txt.append("Definition TR%d : tree := %s." % (ci, tree_term(r["pmk"])))
                txt.append("Definition T%d : table ZRing := %s." % (ci, table_term(r["table"], ints)))
                txt.append("Definition WS%d : list wit := %s." % (ci, wit_term(ws)))
                txt.append("Definition BS%d := fst (construct TR%d T%d WS%d)." % (ci, ci, ci, ci))
                txt.append("Definition PQ%d : list qvec := [%s]." % (ci, "; ".join("[" + "; ".join(common.coq_Z(q) for q in v) + "]" for v in r["prim_qn"])))
                txt.append("Definition ST%d : list key := [%s]." % (ci, "; ".join(nat_list(s) for s in r["strings"])))
                txt.append("Eval vm_compute in run_case TR%d T%d WS%d." % (ci, ci, ci))
                txt.append("Eval vm_compute in run_tables TR%d T%d WS%d." % (ci, ci, ci))
                txt.append("Eval vm_compute in run_header TR%d." % ci)
                txt.append("Definition FS%d : list (list key) := [%s]." % (ci, "; ".join(
                    "[" + "; ".join(nat_list(oo[0][0]) for oo in st["out_ops"]) + "]" for st in r["steps"])))
                txt.append("Eval vm_compute in run_qn %d PQ%d TR%d FS%d." % (r["qn_size"], ci, ci, ci))
                txt.append("Eval vm_compute in run_coeff TR%d BS%d T%d ST%d." % (ci, ci, ci, ci))
                # bond labels as a theorem instance: only when all rows carry the same total charge
                r["_q"] = None
                if r["qn_size"] == 1 and r["table"]:
                    qs_ = set(sum(r["prim_qn"][p_][0] for p_ in row) for row in r["table"])
                    if len(qs_) == 1:
                        r["_q"] = qs_.pop()
                if r["_q"] is not None:
                    txt.append("Eval vm_compute in run_labels [%s] TR%d T%d WS%d." % ("; ".join(common.coq_Z(v[0]) for v in r["prim_qn"]), ci, ci, ci))
                else:
                    txt.append("Eval vm_compute in (nil : list Z).")
                # layout of the qr run with the logged factors as witnesses (coefficients set to 1 here)
                qr = r.get("qr")
                if qr and not qr.get("error"):
                    sw = []
                    for st in qr["steps"]:
                        qrows = sorted(set(tuple(a) for a in st["trow"]))
                        qcols = sorted(set(tuple(a) for a in st["tcol"]))
                        qlit = "[" + "; ".join("[" + "; ".join("(%s, 1%%Z)" % nat_list(o[0]) for o in oo) + "]" for oo in st["out_ops"]) + "]"
                        rlit = "[" + "; ".join("(%d, %s, 1%%Z)" % (row[0], nat_list(row[1:])) for row in st["new_table"]) + "]"
                        sw.append("WQ ZRing [%s] [%s] %s %s" % ("; ".join(nat_list(k) for k in qrows), "; ".join(nat_list(k) for k in qcols), qlit, rlit))
                    txt.append("Eval vm_compute in run_stables TR%d T%d [%s]." % (ci, ci, "; ".join(sw)))
                else:
                    txt.append("Eval vm_compute in (nil : list Z).")
                txt.append("Eval vm_compute in run_unique TR%d T%d WS%d." % (ci, ci, ci))
            files.append(("ttno_%d" % gi, "\n".join(txt) + "\n"))
        outs = coq_eval_pool(ctx, files, timeout=900)
        for gi, grp in enumerate(groups):
            rc_, out_ = outs["ttno_%d" % gi]
            vals = common.parse_Z_lists(out_) if rc_ == 0 else None
            if vals is None or len(vals) != 8 * len(grp):
                corr_bad.append({"what": "model evaluation failed", "shard": gi, "out": out_[-1200:]})
                continue
            for ci, (case, r) in enumerate(grp):
                bad = compare_case(case, r, vals[8 * ci: 8 * ci + 8])
                ev += bad["n"]
                if bad["bad"]:
                    corr_bad.append({"what": bad["bad"], "case": case, "detail": bad.get("detail")})
                if bad["nontrivial"]:
                    nontriv += 1
                    bump("construction:nontrivial")
                for kflag in ("mixed_cover", "inner_columns", "multi_basis_node", "dummy_node", "labels_theorem_instance", "labels_charged_operators", "qr_witness_checked", "qr_mixing"):
                    if bad.get(kflag):
                        bump("construction:" + kflag)
                bump("construction:compared")
                if len(samples) < 3 and bad["nontrivial"]:
                    samples.append({"tree_postorder_(children,n_sets)": r["pmk"], "algo": case["algo"], "n_table_rows": len(r["table"]),
                                    "bond_dims": r["bond_dims"], "dense": r.get("dense")})
        # a witness that is not a cover must be rejected by the model's validity check
        mut = []
        for case, r in coq_items[:12]:
            ws = [dict(rsel=list(s["witness"]["rsel"]), csel=list(s["witness"]["csel"])) for s in r["steps"]]
            tgt = None
            for i, w in enumerate(ws):
                if len(w["rsel"]) + len(w["csel"]) >= 1 and len(r["steps"][i]["trow"]) >= 1:
                    tgt = i
            if tgt is None:
                continue
            if ws[tgt]["csel"]:
                ws[tgt]["csel"] = ws[tgt]["csel"][1:]
            else:
                ws[tgt]["rsel"] = ws[tgt]["rsel"][1:]
            mut.append("Eval vm_compute in [b2z (valid_run (pmk (%s)) (%s : table ZRing) (%s))]." % (
                tree_term(r["pmk"]), table_term(r["table"], r["_ints"]), wit_term(ws)))
        if mut:
            rc_, out_ = ctx.coq_eval("ttno_badwit", COQ_HDR + "\n".join(mut) + "\n")
            vals = common.parse_Z_lists(out_) if rc_ == 0 else None
            ev += len(mut)
            bump("malformed:non-cover witness", len(mut))
            if vals is None or any(v != [0] for v in vals):
                corr_bad.append({"what": "model accepts a witness that is not a vertex cover", "out": out_[-600:]})

    # ---- verdict
    if once_bad:
        keyed = [b for b in once_bad if "key" in b]
        if keyed:
            rep = ("from renormalizer import BasisHalfSpin\nfrom renormalizer.model.basis import BasisDummy\nfrom renormalizer.tn import BasisTree\n"
                   "import sys\nkey = %r\nn = key[1]\nbl = [BasisHalfSpin(i) for i in range(n)]\n"
                   "if key[0] == 'mctdh':\n    lab = None if key[3] != 'label' else [bool((key[4] >> i) & 1) for i in range(n)]\n"
                   "    t = BasisTree.general_mctdh(bl, key[2], contract_primitive=(key[3] != 'no'), contract_label=lab)\n"
                   "else:\n    t = getattr(BasisTree, key[0])(bl)\n"
                   "real = [b for b in t.basis_list if not isinstance(b, BasisDummy)]\n"
                   "print(len(real), n)\nsys.exit(0 if sorted(map(id, real)) == sorted(map(id, bl)) else 1)\n") % (keyed[0]["key"],)
        else:
            rep = ("from renormalizer.tn.treebase import approximate_partition\nimport sys\n"
                   "g = approximate_partition(list(range(%d)), %d)\nprint(g)\nsys.exit(0 if sum(g, []) == list(range(%d)) else 1)\n"
                   % (once_bad[0]["len"], once_bad[0]["n"], once_bad[0]["len"]))
        ctx.violation("builders-exactly-once", "theorems C02_partition_concat / C02_builders_exactly_once no longer describe the code (a builder or approximate_partition loses/repeats a basis set)",
                      {"failures": (keyed + once_bad)[:8]}, found=True, repro=rep)
    if history_bad:
        hb = history_bad[0]
        # the replay rebuilds, in one process, everything that process had built up to the failing sequence
        ids = hb.get("process", [])
        if "sequence" in hb:
            ids = ids[:ids.index(hb["sequence"]) + 1]
        src = open(os.path.join(common.VERIF, "harness", "impl", "c02_history.py")).read()
        rep = ("C02_INLINE = True\n" + src + "\nres = run_payload(json.loads(" + repr(json.dumps({"sequences": [seq_by_id[i] for i in ids]})) + "))\n"
               "bad = [(q['id'], f) for q in res['sequences'] for f in q['fails']]\n"
               "print('constructions checked:', sum(q['n'] for q in res['sequences']), ' failures:', bad[:4])\n"
               "sys.exit(1 if bad else 0)\n")
        ctx.violation("ttno-history", "dense oracle (history stream): a TTNO built after other constructions in the same process differs from the dense sum of krons of its own local matrices",
                      {"failures": [{k: v for k, v in b.items()} for b in history_bad[:4]]}, found=True, repro=rep)
    if complex_bad:
        src = open(os.path.join(common.VERIF, "harness", "impl", "c02_history.py")).read()
        rep = ("C02_INLINE = True\n" + src + "\nres = run_payload(json.loads(" + repr(json.dumps({"complexes": [complex_bad[0]["case"]]})) + "))\n"
               "print(res['complexes'][0]['verdicts'])\nbad = [f for q in res['complexes'] for f in q['fails']]\nprint(bad[:3])\nsys.exit(1 if bad else 0)\n")
        ctx.violation("ttno-complex-local", "dense oracle (complex-local-factor stream): a term list with complex local matrices (sigma_y, p) was accepted and gives a TTNO that differs from the dense sum of krons (it must be refused or exact, independent of the tree)",
                      {"failures": complex_bad[:4]}, found=True, repro=rep)
    if alpha_bad:
        src = open(os.path.join(common.VERIF, "harness", "impl", "c02_history.py")).read()
        ac = alpha_bad[0]["case"]
        rep = ("C02_INLINE = True\n" + src + "\nres = run_payload(json.loads(" + repr(json.dumps({"alphabets": [ac]})) + "))\n"
               "bad = [f for q in res['alphabets'] for f in q['fails']]\nprint(bad[:4])\nsys.exit(1 if bad else 0)\n")
        ctx.violation("ttno-alphabet", "dense oracle (large-alphabet stream): TTNO over hundreds of distinct elementary operators per DoF on crowded nodes differs from the dense sum of krons / raises",
                      {"failures": [{k: (v if k != "case" else {kk: vv for kk, vv in v.items() if kk != "terms"}) for k, v in b.items()} for b in alpha_bad[:4]]},
                      found=True, repro=rep)
    if scale_bad:
        src = open(os.path.join(common.VERIF, "harness", "impl", "c02_history.py")).read()
        rep = ("C02_INLINE = True\n" + src + "\nres = run_payload(json.loads(" + repr(json.dumps({"scales": [scale_bad[0]["case"]]})) + "))\n"
               "bad = [f for q in res['scales'] for f in q['fails']]\nprint(bad[:4])\nsys.exit(1 if bad else 0)\n")
        ctx.violation("ttno-scale", "dense oracle (scale stream): the TTNO of a term list times 2**-k is not the scaled TTNO of the list (graph algorithms); errors relative to the operator's own scale",
                      {"failures": scale_bad[:4]}, found=True, repro=rep)
    if oracle_bad:
        c = oracle_bad[0]["case"]
        ctx.violation("ttno-dense", "dense oracle: TTNO differs from the dense sum / chain MPO" + ("; also broken: " + "; ".join(broken) if broken else ""),
                      {"failures": [{k: v for k, v in b.items() if k != "case"} for b in oracle_bad[:5]], "first_case": c,
                       "failing_cases": [{k: v for k, v in b["case"].items() if k != "reals"} for b in oracle_bad[:4]],
                       "correspondence": [{k: v for k, v in b.items() if k != "case"} for b in corr_bad[:5]]},
                      found=True, repro=repro_snippet(history_of(c)))
    if (broken or corr_bad) and not oracle_bad:
        what = list(broken)
        if corr_bad:
            what.append("correspondence (" + "; ".join(sorted(set(b["what"] for b in corr_bad))[:4]) + ")")
        ctx.violation("ttno-correspondence" if corr_bad else "ttno-proof", "; ".join(what),
                      {"coq_log_tail": detail.get("coq_log_tail", ""), "translator": detail.get("translator"),
                       "correspondence": [{k: (v if k != "case" else {kk: vv for kk, vv in v.items() if kk != "reals"}) for k, v in b.items()} for b in corr_bad[:6]]},
                      found=False)
    return {"evaluations": ev, "distinct_nontrivial": nontriv,
            "rule": "a construction case is non-trivial when some node selected both whole rows and complementary columns or carries >= 2 children with bond dimension >= 2; a builder case when the tree has more than two nodes; every compared item (tree encoding, partition, out-operator list, table, label list, coefficient, dense triple) is one evaluation",
            "samples": samples[:3], "exhaustive": False,
            "input_distribution": dist,
            "exhaustive_parts": "construction: every rooted ordered tree with <= %d nodes (one term list each); " % max_nodes + "builders: every list length 0..%d x {linear, binary, t3ns, general_mctdh order 2..4 x {no contraction, contract all, every contract_label vector up to length %d}}; approximate_partition: every length 0..16 x 1..6 groups" % (maxlen, lab_max)}


REPRO_TMPL = r"""
import json, sys, itertools
import renormalizer
import numpy as np
from renormalizer import Op, Model, Mpo, BasisHalfSpin, BasisSHO, BasisSimpleElectron
from renormalizer.model.basis import BasisDummy
from renormalizer.tn import BasisTree, TTNO, TreeNodeBasis
# the cases one implementation process had constructed up to (and including) the failing one, in order
cases = json.loads(%r)
def mk(s):
    kind, dof, nbas = s[:3]
    return {"spin": lambda: BasisHalfSpin(dof), "sho": lambda: BasisSHO(dof, omega=(s[3] if len(s) > 3 else 1.0), nbas=nbas, x0=(s[4] if len(s) > 4 else 0.0)),
            "el": lambda: BasisSimpleElectron(dof), "dummy": lambda: BasisDummy(("dummy", dof))}[kind]()
def run(case):
    real = []
    def build(n):
        bs = [mk(s) for s in n["b"]]
        real.extend(b for b, s in zip(bs, n["b"]) if s[0] != "dummy")
        node = TreeNodeBasis(bs)
        for c in n["ch"]:
            node.add_child(build(c))
        return node
    if case.get("tree") is not None:
        tree = BasisTree(build(case["tree"]))
    else:
        real.extend(mk(s) for s in case["basis"])
        bd = case["builder"]
        tree = {"linear": lambda: BasisTree.linear(real), "binary": lambda: BasisTree.binary(real), "t3ns": lambda: BasisTree.t3ns(real),
                "mctdh": lambda: BasisTree.general_mctdh(real, bd.get("order", 2), contract_primitive=bd.get("contract", False), contract_label=bd.get("label"))}[bd["name"]]()
    terms = [Op(" ".join(s for s, d in t["ops"]), [d for s, d in t["ops"]], t["num"] / 2.0 ** t["exp"]) for t in case["terms"]]
    from fractions import Fraction
    acc = {}                                        # identical products merged exactly: no cancellation error in the reference
    for t in case["terms"]:
        per = {}
        for s, d in t["ops"]:
            per.setdefault(d, []).append(s)
        key = tuple(sorted((str(d), d, " ".join(ss)) for d, ss in per.items()))
        acc[key] = acc.get(key, Fraction(0)) + Fraction(t["num"]) * Fraction(2) ** (-t["exp"])
    ref = 0
    for key, c in acc.items():
        per = {d: sym for _, d, sym in key}
        full = np.eye(1)
        for b in real:
            full = np.kron(full, np.asarray(b.op_mat(per[b.dof])) if b.dof in per else np.eye(b.nbas))
        ref = ref + float(c) * full
    dense = TTNO(tree, terms, algo=case.get("algo", "Hopcroft-Karp")).todense(real)
    wide = bool(case.get("wide"))
    mpo = Mpo(Model(real, terms), algo="Hopcroft-Karp").todense()     # graph algorithm: the default qr drops entries below 1e-10
    scale = np.abs(ref).max()                      # the operator's own scale, never an absolute floor
    e1, e2 = np.abs(dense - ref).max() / scale, np.abs(dense - mpo).max() / scale
    e3 = 0.0
    if wide:                                       # weak couplings next to strong fields: relative to the smallest coefficient
        e3 = np.abs(dense - ref).max() / min(abs(t["num"] / 2.0 ** t["exp"]) for t in case["terms"])
    return e1, e2, e3
bad = 0
for i, case in enumerate(cases):
    e1, e2, e3 = run(case)
    if not (e1 <= 1e-9 and e2 <= 1e-9 and e3 <= 1e-3):
        bad += 1
        print("construction", i, ": TTNO vs sum of krons:", e1, " TTNO vs chain MPO:", e2, " error / smallest coefficient:", e3)
print(len(cases), "constructions,", bad, "differ")
sys.exit(1 if bad else 0)
"""


def repro_snippet(cases):
    keep = ("tree", "builder", "basis", "terms", "algo", "wide")
    return REPRO_TMPL % (json.dumps([{k: v for k, v in c.items() if k in keep} for c in cases]),)


def compare_case(case, r, vals):
    """vals = [run_case, run_tables, run_header, run_qn, run_coeff] integer lists of the model."""
    n = 0
    E = r["_E"]
    scale = 2 ** E

    def fac_ok(model_int, impl_dy):
        f = dyf(impl_dy)
        if model_int % 2 == 0:
            return f * scale == model_int
        return model_int == 1 and f == 1

    def canon_model_table(tab):
        return sorted(tab)

    def rows_match(model_tab, rows, facs):
        if len(model_tab) != len(rows):
            return False
        a = sorted(model_tab)
        b = sorted((tuple(rw), f) for rw, f in zip(rows, facs))
        for (k1, f1), (k2, f2) in zip(a, b):
            if k1 != k2 or not fac_ok(f1, f2):
                return False
        return True

    steps = r["steps"]
    nontrivial = False
    try:
        rd = Reader(vals[0])
        valid = rd.get()
        bonds = rd.bonds()
        final = rd.table()
        if not rd.done():
            return {"n": 1, "bad": "model output not fully parsed", "nontrivial": False}
        n += 1
        if valid != 1:
            return {"n": n, "bad": "the implementation's vertex covers are rejected by the model's validity check", "nontrivial": False}
        if len(bonds) != len(steps):
            return {"n": n, "bad": "number of nodes differs", "nontrivial": False}
        for i, (b, st) in enumerate(zip(bonds, steps)):
            n += 1
            impl_ops = st["out_ops"]
            if len(b) != len(impl_ops):
                return {"n": n, "bad": "bond dimension differs", "nontrivial": False, "detail": {"node": i, "model": len(b), "impl": len(impl_ops)}}
            for j, (mo, io) in enumerate(zip(b, impl_ops)):
                ms = sorted(mo)
                isorted = sorted((tuple(o[0]), tuple(o[1])) for o in io)
                if len(ms) != len(isorted):
                    return {"n": n, "bad": "out-operator differs (number of summands)", "nontrivial": False, "detail": {"node": i, "op": j}}
                for (k1, f1), (k2, f2) in zip(ms, isorted):
                    if k1 != k2 or not fac_ok(f1, list(f2)):
                        return {"n": n, "bad": "out-operator differs", "nontrivial": False, "detail": {"node": i, "op": j, "model": ms, "impl": io}}
            w = st["witness"]
            if (w["rsel"] and w["csel"]) or (st["n_in"] and len(st["n_in"]) >= 2 and min(st["n_in"]) >= 2):
                nontrivial = True
            # new table of the step (before the roll)
            n += 1
        if not rows_match(final, steps[-1]["new_table"], steps[-1]["new_factor"]) or final != [((0,), 1)]:
            return {"n": n, "bad": "final table differs (must be the single row [0] with factor 1)", "nontrivial": False, "detail": {"model": final, "impl": steps[-1]["new_table"]}}
        # ---- every table handed to the one-site routine = the column bookkeeping
        rd = Reader(vals[1])
        for i, st in enumerate(steps):
            tab = rd.table()
            n += 1
            rows = [a + b for a, b in zip(st["trow"], st["tcol"])]
            if not rows_match(tab, rows, st["factor"]):
                return {"n": n, "bad": "table handed to the one-site step differs (column bookkeeping)", "nontrivial": False,
                        "detail": {"node": i, "model": sorted(tab)[:6], "impl_rows": rows[:6], "impl_factor": st["factor"][:6]}}
            wd = (r["pmk"][i][0] or 1) + r["pmk"][i][1]
            if any(len(a) != wd for a in st["trow"]):
                return {"n": n, "bad": "row part has the wrong number of columns", "nontrivial": False, "detail": {"node": i}}
        if not rd.done():
            return {"n": n, "bad": "model tables not fully parsed", "nontrivial": False}
        # ---- column names (the statement of stack_discipline) against the logged tables
        rd = Reader(vals[2])
        eq_expected = rd.get()
        n += 1
        if eq_expected != 1:
            return {"n": n, "bad": "header log differs from the proved expectation", "nontrivial": False}
        offs = [0]
        for m, k in r["pmk"]:
            offs.append(offs[-1] + k)
        for i, st in enumerate(steps):
            cons = rd.cols()
            rem = rd.cols()
            n += 1
            names = cons + rem
            rows = [a + b for a, b in zip(st["trow"], st["tcol"])]
            if rows and len(names) != len(rows[0]):
                return {"n": n, "bad": "header length differs from the table width", "nontrivial": False, "detail": {"node": i}}
            if len(cons) != len(st["trow"][0]) if st["trow"] else False:
                return {"n": n, "bad": "consumed column count differs", "nontrivial": False, "detail": {"node": i}}
            for cidx, (tag, a, b) in enumerate(names):
                for rw in rows:
                    v = rw[cidx]
                    if tag == 0 and v != 0:
                        return {"n": n, "bad": "zero column holds a non-zero entry", "nontrivial": False, "detail": {"node": i}}
                    if tag == 1 and r["prim_site"][v] != offs[a] + b:
                        return {"n": n, "bad": "column predicted physical (node,i) holds an operator of another basis set", "nontrivial": False,
                                "detail": {"node": i, "column": cidx, "predicted": [a, b], "entry": v}}
                    if tag == 2 and not (0 <= v < r["bond_dims"][a]):
                        return {"n": n, "bad": "column predicted as the output of a node holds an index beyond that node's bond dimension", "nontrivial": False,
                                "detail": {"node": i, "column": cidx, "predicted_out_of": a, "entry": v}}
            kids = [a for (tag, a, b) in cons if tag == 2]
            if kids != r["children_idx"][i]:
                return {"n": n, "bad": "consumed child outputs are not the node's children in child order", "nontrivial": False,
                        "detail": {"node": i, "model": kids, "impl": r["children_idx"][i]}}
        final_hdr = rd.cols()
        if final_hdr != [(2, len(steps) - 1, 0)] or not rd.done():
            return {"n": n, "bad": "final header is not the root output", "nontrivial": False}
        # ---- bond labels
        rd = Reader(vals[3])
        nq = rd.get()
        n += 1
        mq = []
        for _ in range(nq):
            nb = rd.get()
            mq.append([[rd.get() for _ in range(rd.get())] for _ in range(nb)])
        if mq != r["mpoqn"]:
            return {"n": n, "bad": "bond labels (mpoqn) differ", "nontrivial": False, "detail": {"model": mq, "impl": r["mpoqn"]}}
        # ---- coefficient function: Coq denotation of the model's bonds == table == composed symbolic tensors
        cf = vals[4]
        if len(cf) != 2 * len(r["strings"]):
            return {"n": n, "bad": "coefficient list length", "nontrivial": False}
        for idx, (s, c) in enumerate(zip(r["strings"], r["mo_coeff"])):
            n += 1
            den_v, tab_v = cf[2 * idx], cf[2 * idx + 1]
            if den_v != tab_v:
                return {"n": n, "bad": "Coq: denotation of the constructed bonds != coefficient of the table (contradicts ttno_sound)", "nontrivial": False,
                        "detail": {"string": s, "den": den_v, "table": tab_v}}
            if c is None or Fraction(c[0], c[1]) * scale != den_v:
                return {"n": n, "bad": "coefficient of the implementation's composed tensors != Coq denotation", "nontrivial": False,
                        "detail": {"string": s, "impl": c, "den_scaled": den_v, "scale": scale}}
    except (IndexError, KeyError, TypeError) as e:
        return {"n": n + 1, "bad": "comparison crashed: %r" % (e,), "nontrivial": False}
    flags = {}
    try:
        # ---- the unique-rows step: an index determines the row (row_index_reconstruct), term_row is what np.unique must return
        rd = Reader(vals[7])
        for i, st in enumerate(steps + ((r.get("qr") or {}).get("steps") or [])):
            n += 1
            tr_, rinv = st.get("term_row"), st.get("row_inverse")
            if tr_ is None or rinv is None or not st.get("incidence_ok"):
                return {"n": n, "bad": "unique rows: two terms share one incidence entry / an index is missing", "nontrivial": False, "detail": {"node": i}}
            for t_, (row, ri) in enumerate(zip(st["trow"], rinv)):
                if not (0 <= ri < len(tr_)) or tr_[ri] != row:
                    return {"n": n, "bad": "unique rows: term_row[row_unique_inverse[t]] != table_row[t] (two different rows share an index)", "nontrivial": False,
                            "detail": {"node": i, "term": t_, "row": row, "index": ri, "term_row_at_index": tr_[ri] if 0 <= ri < len(tr_) else None}}
            for t_, (col, ci_) in enumerate(zip(st["tcol"], st["col_inverse"])):
                if not (0 <= ci_ < len(st["term_col"])) or st["term_col"][ci_] != col:
                    return {"n": n, "bad": "unique columns: term_col[col_unique_inverse[t]] != table_col[t]", "nontrivial": False, "detail": {"node": i, "term": t_}}
            if tr_ != sorted(set(tuple(x) for x in st["trow"])) and [tuple(x) for x in tr_] != sorted(set(tuple(x) for x in st["trow"])):
                return {"n": n, "bad": "unique rows: term_row is not the sorted list of distinct rows", "nontrivial": False, "detail": {"node": i}}
            if i < len(steps):         # the Coq specification of np.unique(axis=0) on the model's table of this node
                k_ = rd.get()
                model_rows = [rd.key() for _ in range(k_)]
                if model_rows != [list(x) for x in tr_]:
                    return {"n": n, "bad": "unique rows: term_row differs from the specification term_rows (Model/Ttno.v)", "nontrivial": False,
                            "detail": {"node": i, "model": model_rows[:6], "impl": tr_[:6]}}
        # ---- the root: columns are the U side, the cover is the column (hypothesis of root_factor_one)
        rc = r.get("root_cover") or {}
        n += 1
        if rc.get("rows_lt_cols") is not False or rc.get("n_cols") != 1 or rc.get("cover") != [[True], [False] * rc.get("n_rows", 0)]:
            return {"n": n, "bad": "root step: the cover is not (all columns = U side selected, no row)", "nontrivial": False, "detail": rc}
        # ---- bond labels: instance of ttno_qn_labels
        if r.get("_q") is not None:
            lv = vals[5]
            n += 1
            if len(lv) < 2 or lv[0] != 1:
                return {"n": n, "bad": "labels: summands of an out-operator carry different charges although all terms share one total charge", "nontrivial": False, "detail": {"q": r["_q"]}}
            if lv[1] != 1:
                return {"n": n, "bad": "labels: a selected column is redundant (empty complementary operator)", "nontrivial": False}
            rd = Reader(lv[2:])
            labs = []
            while not rd.done():
                labs.append([rd.get() for _ in range(rd.get())])
            want = [[v[0] for v in node] for node in r["mpoqn"]]
            if labs != want:
                return {"n": n, "bad": "labels: model labels differ from mpoqn", "nontrivial": False, "detail": {"model": labs, "impl": want}}
            if labs[-1] != [r["_q"]]:
                return {"n": n, "bad": "labels: the root does not carry the common total charge", "nontrivial": False, "detail": {"root": labs[-1], "q": r["_q"]}}
            flags["labels_theorem_instance"] = True
            flags["labels_charged_operators"] = any(v[0] != 0 for v in r["prim_qn"])
        # ---- qr: the logged factors are an (approximately) exact factorisation witness, same layout, same operator
        qr = r.get("qr")
        if qr:
            if qr.get("error"):
                return {"n": n + 1, "bad": "construct_symbolic_ttno(algo='qr') raised", "nontrivial": False, "detail": qr["error"]}
            bad_qr, nq, mixing = check_qr(r, qr, vals[6])
            n += nq
            if bad_qr:
                return {"n": n, "bad": bad_qr[0], "nontrivial": False, "detail": bad_qr[1]}
            flags["qr_witness_checked"] = True
            flags["qr_mixing"] = mixing
    except (IndexError, KeyError, TypeError, ValueError) as e:
        return {"n": n + 1, "bad": "comparison crashed (labels/qr): %r" % (e,), "nontrivial": False}
    mixed = any(st["witness"]["rsel"] and st["witness"]["csel"] for st in steps)
    inner = any(st["witness"]["csel"] for st in steps[:-1])
    out = {"n": n, "bad": None, "nontrivial": nontrivial, "mixed_cover": mixed, "inner_columns": inner,
           "multi_basis_node": any(k >= 2 for m, k in r["pmk"]), "dummy_node": any(r["dummy_cols"])}
    out.update(flags)
    return out


QR_TOL = 1e-8      # _decompose_qr drops q / r entries below 1e-10 (relative) by design


def check_qr(r, qr, layout):
    """logged qr factors: keys, factorisation identity Gamma = Q.R per node, table layout (Coq sloop with the witnesses), operator"""
    n = 0
    mixing = False
    steps = qr["steps"]
    if len(steps) != len(r["pmk"]):
        return ("qr: number of nodes differs", None), n, mixing
    rd = Reader(layout)
    for i, st in enumerate(steps):
        rows = [tuple(a) for a in st["trow"]]
        cols = [tuple(a) for a in st["tcol"]]
        fac = [dyf(p) for p in st["factor"]]
        gamma = {}
        for a, b, f in zip(rows, cols, fac):
            gamma[(a, b)] = gamma.get((a, b), 0) + f
        qcoef = {}
        for l, oo in enumerate(st["out_ops"]):
            if len(oo) > 1:
                mixing = True
            for sym, f, _qn in oo:
                if tuple(sym) not in set(rows):
                    return ("qr: an out-operator mentions a row key that is not in the table", {"node": i, "symbol": sym}), n, mixing
                qcoef[(l, tuple(sym))] = qcoef.get((l, tuple(sym)), 0) + dyf(f)
        prod = {}
        for row, f in zip(st["new_table"], st["new_factor"]):
            l, c = row[0], tuple(row[1:])
            if c not in set(cols) or not (0 <= l < len(st["out_ops"])):
                return ("qr: a new table row mentions an unknown column key / bond index", {"node": i, "row": row}), n, mixing
            for (l2, rk), q in qcoef.items():
                if l2 == l:
                    prod[(rk, c)] = prod.get((rk, c), 0) + q * dyf(f)
        scale = max([abs(v) for v in gamma.values()] + [Fraction(1, 10 ** 30)])
        n += 1
        for k in set(gamma) | set(prod):
            if abs(gamma.get(k, 0) - prod.get(k, 0)) > QR_TOL * scale:
                return ("qr: the logged factors are not a factorisation of gamma (hypothesis qr_valid of ttno_sound_qr)",
                        {"node": i, "entry": [list(k[0]), list(k[1])], "gamma": float(gamma.get(k, 0)), "q.r": float(prod.get(k, 0))}), n, mixing
        # layout: the table this node received, as the Coq loop computes it from the witnesses
        tab = rd.table()
        n += 1
        if sorted(k for k, _ in tab) != sorted(a + b for a, b in zip(rows, cols)):
            return ("qr: table handed to the one-site step differs from the model's (column bookkeeping)", {"node": i}), n, mixing
    fin = rd.table()
    if [k for k, _ in fin] != [(0,)] or not rd.done():
        return ("qr: final table is not the single row [0]", {"model": fin}), n, mixing
    if [tuple(x) for x in steps[-1]["new_table"]] != [(0,)] or dyf(steps[-1]["new_factor"][0]) != 1:
        return ("qr: the implementation's final table is not [0] with factor 1", {"impl": steps[-1]["new_table"], "factor": steps[-1]["new_factor"]}), n, mixing
    # operator: coefficients of the composed qr tensors vs the graph run's (exact) coefficients
    exact = [Fraction(c[0], c[1]) for c in r["mo_coeff"]]
    cscale = max([abs(v) for v in exact] + [1])
    for s_, c, e in zip(r["strings"], qr["mo_coeff"], exact):
        n += 1
        if c is None or abs(dyf(c) - e) > QR_TOL * cscale:
            return ("qr: coefficient of the composed tensors differs from the term list", {"string": s_, "qr": None if c is None else float(dyf(c)), "exact": float(e)}), n, mixing
    return None, n, mixing
