"""C08: ground- and excited-state searches are variational and consistent.

1. tx/sweepsched.py: index / environment bookkeeping of single_sweep, GetLR, _construct, _update_mps,
   iter_idx_list, _switch_direction  ->  Gen/SweepSched.v (fail-closed).
2. Props/C08.v: env_fresh, sweep_coverage (all n, both methods, both gauges, any number of sweeps) over the
   generated schedule; variational bound, shifted target, second root (abstract ordered ring).
3. correspondence: event traces of optimize_mps (hooks on Environ / MatrixProduct / the eigen-solvers) against
   the Coq model's trace for the same (method, n, gauge, number of sweeps), exact; witness checks of every local
   solve (Rayleigh pair of an independently contracted masked H_eff, isometries away from the centre, the same
   number from the dense vector P c and the dense H, no weight outside the sector).
4. oracle (always): exact diagonalisation per symmetry sector of random spin / electron-phonon / ab-initio-like
   models, chains and trees.
"""
import json
import os
import shutil
import sys
import tempfile

import common
sys.path.insert(0, os.path.join(common.VERIF, "tx"))
sys.path.insert(0, os.path.join(common.VERIF, "harness", "impl"))
import c08_judge as J

BIG_M = 4096


# ----------------------------------------------------------------------------- case generation
def gen_cases(rng, tier):
    mult = 1 if tier == "quick" else 10
    cases = []

    def add(**kw):
        kw["id"] = len(cases)
        kw["seed"] = rng.randrange(1, 2 ** 31)
        # the operator handed to the optimiser is varied independently of model.ham_terms in every class: explicit terms=, the MPO's own
        # offset, a scaled MPO, a sum of two MPOs, a model with EMPTY ham_terms plus explicit terms (not with on-the-fly swapping, which
        # rebuilds the operator from the model)
        if not kw.get("ofs") and "hvar" not in kw and rng.random() < (0.75 if kw.get("omega") is not None else 0.5):
            kw["hvar"] = rng.choice(["terms", "offset", "scale", "sum", "empty"])
        cases.append(kw)

    def proc(k, full=False, lowm=(2, 3, 4, 6, 10)):
        if full:
            pcts = [0.4, 0.2, 0.1] + [0.0] * 10
            return [[BIG_M, pcts[i]] for i in range(k)]
        out = []
        for i in range(k):
            out.append([rng.choice(lowm), rng.choice([0.0, 0.2, 0.5]) if i < k - 1 else rng.choice([0.0, 0.0, 0.2])])
        return out

    # (a) schedule-oriented: every n in 1..6, both methods, both input gauges, 2..4 sweeps
    for rep in range(mult):
        for n in range(1, 7):
            for method in ("1site", "2site"):
                if n == 1 and method == "2site":
                    continue            # the code has no 2-site problem on one site (min() of an empty list)
                for prep in ("left", "right"):
                    for v in range(2):
                        k = rng.choice([2, 3, 4])
                        add(cls="sched", kind="spin", n=n, qn=rng.random() < 0.7, enc=rng.choice(["01", "01", "pm"]), sector="rand", method=method, prep=prep,
                            procedure=proc(k, full=rng.random() < 0.3), nroots=rng.choice([1, 1, 2, 3]),
                            e_rtol=0.0 if rng.random() < 0.5 else 1e-6, e_atol=0.0 if rng.random() < 0.5 else 1e-8, m_init=rng.choice([4, 8, 16]))
    # (b) spin chains 4..6 sites
    for rep in range(16 * mult):
        full = rng.random() < 0.5
        add(cls="spin", kind="spin", n=rng.choice([4, 5, 6]), qn=rng.random() < 0.6, enc=rng.choice(["01", "01", "pm"]), sector="rand", method=rng.choice(["1site", "2site"]),
            prep=rng.choice(["left", "right"]), procedure=proc(rng.choice([6, 8]) if full else rng.choice([3, 4, 5]), full=full),
            nroots=rng.choice([1, 1, 2, 3, 4]), m_init=64 if full else rng.choice([4, 8]), e_rtol=1e-12 if full else 1e-6, e_atol=1e-12 if full else 1e-8,
            algo=rng.choice(["davidson", "direct"]))
    # (c) electron-phonon (Holstein) 2-3 molecules, 2-3 phonon levels
    for rep in range(12 * mult):
        full = rng.random() < 0.5
        nmol = rng.choice([2, 3])
        add(cls="holstein", kind="holstein", nmol=nmol, nbas=rng.choice([2, 3]), sector=[rng.choice([0, 1, 1, 1, 2][: 3 + nmol])],
            method=rng.choice(["1site", "2site"]), prep=rng.choice(["left", "right"]),
            procedure=proc(rng.choice([6, 8]) if full else rng.choice([3, 4]), full=full),
            nroots=rng.choice([1, 1, 2, 4]), m_init=64 if full else 8, e_rtol=1e-12 if full else 1e-6, e_atol=1e-12 if full else 1e-8)
    # (d) ab-initio-like, 2-3 spatial orbitals, two-component quantum number (n_alpha, n_beta)
    for rep in range(10 * mult):
        full = rng.random() < 0.6
        norb = rng.choice([2, 2, 3])
        add(cls="qc", kind="qc", norb=norb, sector=[rng.randrange(0, norb + 1), rng.randrange(0, norb + 1)], method=rng.choice(["1site", "2site"]),
            prep=rng.choice(["left", "right"]), procedure=proc(rng.choice([6, 8]) if full else rng.choice([3, 4]), full=full, lowm=(4, 6, 10)),
            nroots=rng.choice([1, 1, 2, 3]), m_init=64 if full else 16, e_rtol=1e-12 if full else 1e-6, e_atol=1e-12 if full else 1e-8)
    # (e) shifted target (H - omega)^2
    for rep in range(8 * mult):
        full = rng.random() < 0.7
        kind = rng.choice(["spin", "holstein"])
        kw = dict(n=rng.choice([4, 5]), qn=True, sector="rand") if kind == "spin" else dict(nmol=2, nbas=rng.choice([2, 3]), sector=[1])
        add(cls="omega", kind=kind, method=rng.choice(["1site", "2site"]), prep=rng.choice(["left", "right"]), omega=round(rng.uniform(0.05, 0.95), 3),
            procedure=proc(8 if full else 3, full=full), nroots=rng.choice([1, 1, 2]), m_init=64 if full else 8,
            e_rtol=1e-12 if full else 1e-6, e_atol=1e-12 if full else 1e-8, **kw)
    # (f) inverse = -1 (largest eigenvalue)
    for rep in range(2 * mult):
        add(cls="inverse", kind="spin", n=rng.choice([4, 5]), qn=True, sector="rand", method=rng.choice(["1site", "2site"]), prep="left", inverse=-1.0,
            procedure=proc(6, full=True), nroots=1, m_init=64)
    # (g) on-the-fly swapping (general Model, 2-site, fixed bond dimension)
    for rep in range(4 * mult):
        kind = rng.choice(["spin", "spin", "qc"])
        full = rng.random() < 0.5
        if kind == "spin":
            kw = dict(n=rng.choice([4, 5, 6]), qn=True, enc="01", sector="rand", swap_jw=False)
        else:
            kw = dict(norb=2, sector=[1, 1], swap_jw=False)
        o = rng.choice(["s", "d", "ds", "debug"])
        add(cls="ofs", hvar=None, kind=kind, method="2site", prep="left",
            procedure=[[{"m": m_, "ofs": o, "swap_jw": False}, p_] for m_, p_ in proc(6 if full else 3, full=full, lowm=(4, 6, 10))],
            nroots=1, m_init=64 if full else 8, **kw)
    # (k) every returned state: roots 1..4 x both methods x truncating / non-truncating bond limit, strongly entangled chain (couplings
    #     between all pairs), largest sector: norm, sector, <H> by dense contraction, consistency with the reported energy
    for rep in range(mult):
        for nroots in (1, 2, 3, 4):
            for method in ("1site", "2site"):
                for trunc in (True, False):
                    m = rng.choice([2, 3]) if trunc else BIG_M
                    add(cls="roots-grid", kind="spin", lr=True, n=6, qn=True, enc="01", sector="mid", method=method, prep=rng.choice(["left", "right"]),
                        procedure=[[m, 0.4], [m, 0.2], [m, 0.0], [m, 0.0]] + ([] if trunc else [[m, 0.0], [m, 0.0]]), nroots=nroots,
                        m_init=rng.choice([2, 3]) if trunc else 64, algo=rng.choice(["davidson", "direct"]))
    # (l) start from a full-rank random state, reduce the bond limit, restore it to the exact ranks (6 spins: 8): the energy
    #     recorded in sweep 0 before anything is truncated must not certify convergence (fix 95f634f)
    for rep in range(2 * mult):
        for method in ("2site", "1site"):
            n = 6 if rep % 2 == 0 else 5
            mx = 8 if n == 6 else 4
            add(cls="reduce-restore", kind="spin", lr=True, n=n, qn=True, enc="01", sector="mid", method=method, prep="left", m_init=mx,
                procedure=[[2, 0.5], [max(2, mx // 2), 0.3]] + [[mx, 0.0]] * 5, nroots=1, e_rtol=1e-12, e_atol=1e-12,
                expect_final_exact=(method == "2site"), algo="davidson")
    # (m) procedures given as CompressConfig objects with NON-UNIFORM per-bond limits: spins + one big oscillator site at either end
    #     (exact ranks 1,2,4,8,1 resp. 1,8,4,2,1), both sweep parities (all sweeps but the last are perturbed, so the number of sweeps
    #     and hence the direction of the last one is fixed), both methods, ground state and an omega-targeted interior level
    def ranks_of(pd):
        out = [1]
        for cut in range(1, len(pd)):
            lft = rgt = 1
            for x in pd[:cut]:
                lft *= x
            for x in pd[cut:]:
                rgt *= x
            out.append(min(lft, rgt))
        return out + [1]
    for rep in range(mult):
        for pos in ("right", "left"):
            pd = [2, 2, 2, 8] if pos == "right" else [8, 2, 2, 2]
            rk = ranks_of(pd)
            for nsw in (3, 4):
                def cproc(lim, n_=nsw):
                    return [[{"max_dims": lim}, 0.2 if i < n_ - 1 else 0.0] for i in range(n_)]
                base = dict(cls="maxdims", kind="spinboson", ns=3, nbas=8, pos=pos, sector=None, prep="left", nroots=1, m_init=4, e_rtol=1e-12, e_atol=1e-12)
                add(method="2site", procedure=cproc(rk), expect_final_exact=True, expect_bond_dims=True, **base)
                add(method="2site", procedure=cproc(rk), expect_final_exact=True, expect_bond_dims=True, omega=round(rng.uniform(0.25, 0.45), 3), **base)
                red = list(rk)
                red[rng.choice([1, 2, 3])] = max(1, red[2] // 2)
                add(method="2site", procedure=cproc(red), **base)
                add(method="1site", procedure=cproc(rk), **dict(base, m_init=8))
    # (n) inverse = -1 on both sides of the dense / iterative switch, the same problem through both solvers
    for rep in range(1 * mult):
        ms = rng.randrange(1, 2 ** 31)
        hv = rng.choice([None, "terms", "offset", "sum", "empty"])
        for algo in ("davidson", "direct"):
            add(cls="inverse", hvar=hv, group="inv%d" % rep, kind="osc", n=4, nbas=6, sector=None, method="2site", prep="left", inverse=-1.0,
                procedure=[[40, 0.2], [40, 0.0], [40, 0.0], [40, 0.0]], nroots=1, m_init=8, algo=algo, e_rtol=1e-12, e_atol=1e-12)
            cases[-1]["seed"] = ms
    if tier != "quick":
        for rep in range(2):
            ms = rng.randrange(1, 2 ** 31)
            hv = rng.choice([None, "terms", "offset", "sum", "empty"])
            for algo in ("davidson", "direct"):
                add(cls="inverse", hvar=hv, group="invs%d" % rep, kind="spin", n=10, qn=False, sector=None, method="2site", prep="left", inverse=-1.0,
                    procedure=[[32, 0.2], [32, 0.0], [32, 0.0]], nroots=1, m_init=20, algo=algo)
                cases[-1]["seed"] = ms
    # (o) corpus: the input of fix 9c06eb1 -- an exception raised by the optimiser on a legal input is a failure
    cases.append({"id": len(cases), "seed": 5, "cls": "raise-corpus", "kind": "nroots_corpus", "sector": [3], "method": "1site", "prep": "left",
                  "procedure": [[2, 0.4], [2, 0.2], [2, 0.0], [2, 0.0]], "nroots": 4, "m_init": 2})
    # (p) on-the-fly swapping really switched ON: procedure entries are CompressConfig(..., ofs=...) objects (integer entries switch it off),
    #     2-site, strong non-neighbour couplings so that swaps are accepted late in the last sweep; exact ranks (6 spins: 8) and truncating
    for rep in range(mult):
        for ofs in ("s", "d", "ds"):
            for full in (True, True, False):
                m = 8 if full else 4
                add(cls="ofs-on", hvar=None, kind="spin_ofs", n=6, sector=None, method="2site", prep="left", nroots=1, m_init=8,
                    procedure=[[{"m": m, "ofs": ofs}, 0.0]] * 4, expect_final_exact=full, e_rtol=1e-12, e_atol=1e-12)
    # (i) warm starts: non-canonical tensors under canonical-looking flags (results of add / apply), both flag settings
    for rep in range(8 * mult):
        kind = rng.choice(["spin", "spin", "holstein"])
        kw = dict(n=rng.choice([4, 5, 6, 7]), qn=rng.random() < 0.7, enc="01", sector="rand") if kind == "spin" else dict(nmol=2, nbas=rng.choice([2, 3]), sector=[1])
        if kind == "spin" and not kw["qn"]:
            kw["sector"] = None
        add(cls="warm", kind=kind, method=rng.choice(["1site", "2site"]), prep=["warm_sum", "warm_apply", "sum_left", "apply_left"][rep % 4],
            procedure=proc(rng.choice([3, 4]), full=rng.random() < 0.4, lowm=(3, 4, 6, 10)), nroots=rng.choice([1, 1, 2]), m_init=rng.choice([4, 6]), **kw)
    # (j) complex hermitian Hamiltonians (Dzyaloshinskii-Moriya + complex next-nearest-neighbour exchange, sigma_y fields), complex states
    for rep in range(6 * mult):
        full = rng.random() < 0.5
        qn = rng.random() < 0.6
        add(cls="complex", kind="spin", cplx=True, n=rng.choice([3, 4, 5, 6]), qn=qn, enc="01", sector="rand" if qn else None, method=rng.choice(["1site", "2site"]),
            prep=rng.choice(["left", "right", "warm_sum"]), procedure=proc(rng.choice([6, 8]) if full else rng.choice([3, 4]), full=full),
            nroots=rng.choice([1, 1, 2, 3]), m_init=64 if full else rng.choice([4, 8]), omega=(round(rng.uniform(0.1, 0.9), 3) if rng.random() < 0.2 else None))
    # omega targeting with complex hermitian H, dense solver: the RETURNED state's <(H-omega)^2> is compared with the reported value
    for rep in range(8 * mult):
        full = rep % 4 != 3
        qn = rng.random() < 0.6
        add(cls="complex-omega", kind="spin", cplx=True, n=rng.choice([4, 5, 6]), qn=qn, enc="01", sector="rand" if qn else None,
            method="2site" if rep % 2 == 0 else "1site", prep=rng.choice(["left", "right"]), omega=round(rng.uniform(0.1, 0.9), 3),
            procedure=proc(8 if full else 3, full=full), nroots=rng.choice([1, 1, 2]), m_init=64 if full else 8, e_rtol=1e-12 if full else 1e-6, e_atol=1e-12 if full else 1e-8)
    # ... and with the iterative solver (two-layer hop_expr)
    for rep in range(1 if tier == "quick" else 3):
        add(cls="complex-omega-davidson", kind="spin", cplx=True, n=10, qn=False, sector=None, method="2site" if rep != 1 else "1site", prep="left",
            omega=round(rng.uniform(0.2, 0.8), 3), procedure=[[20, 0.2], [20, 0.0]], nroots=1, m_init=20, algo="davidson")
    # complex + iterative solver: 10 spins without quantum number, M = 20 puts the middle two-site problems (20*2*2*20) on Davidson
    for rep in range(1 if tier == "quick" else 6):
        add(cls="complex-davidson", kind="spin", cplx=True, n=10, qn=False, sector=None, method="2site" if rep % 3 != 2 else "1site", prep="left",
            procedure=[[20 if tier == "quick" or rep < 3 else 32, 0.2], [20 if tier == "quick" or rep < 3 else 32, 0.0]] + ([] if tier == "quick" else [[32, 0.0]]),
            nroots=1 if rep % 2 == 0 else 2, m_init=20, algo="davidson")
    # (h) centre dimension >= 1000: the iterative (Davidson) solver
    for rep in range(2 if tier == "quick" else 8):
        add(cls="davidson", kind="spin", n=10, qn=False, enc="pm", sector=None, method=rng.choice(["1site", "2site"]) if rep else "2site", prep="left",
            procedure=[[rng.choice([16, 20]), 0.2], [rng.choice([16, 20]), 0.0], [rng.choice([16, 20]), 0.0]], nroots=rng.choice([1, 2]), m_init=20, algo="davidson")
    # trees
    trees = []

    def addt(**kw):
        kw["id"] = len(trees)
        kw["seed"] = rng.randrange(1, 2 ** 31)
        if "group" not in kw and "hvar" not in kw and rng.random() < 0.5:
            kw["hvar"] = "terms"
        trees.append(kw)
    # corpus (always first): a truncating tree run -- optimize_ttns leaves the optimised TTNS unnormalised (see notes/C08.md)
    trees.append({"id": 0, "seed": 260653340, "topo": "binary", "procedure": [[6, 0.3], [3, 0.1], [2, 0]], "m_init": 6, "algo": "davidson",
                  "kind": "spin", "n": 6, "qn": False, "enc": "pm", "sector": None})
    # every eigen-solver branch of tn/gs.py on the same problem at full bond dimension: spectra that straddle zero (spin) and
    # non-negative ones (electron-phonon); no quantum number so that every local problem has dimension >= 4 (ARPACK needs k < n)
    for g in range(4 * mult):
        if g % 2 == 0:
            kw = dict(kind="spin", n=rng.choice([4, 5, 6]), qn=False, lr=rng.random() < 0.5, sector=None)
        else:
            kw = dict(kind="holstein", nmol=2, nbas=rng.choice([2, 3]), qn=False, sector=None)
        ms, topo = rng.randrange(1, 2 ** 31), rng.choice(["linear", "binary", "star", "multi", "random"])
        for algo in ("davidson", "arpack", "direct"):
            addt(group=g, model_seed=ms, topo=topo, procedure=[[BIG_M, 0.3], [BIG_M, 0.1], [BIG_M, 0], [BIG_M, 0]], m_init=32, algo=algo, **kw)
            trees[-1]["seed"] = ms
    # multi-component quantum numbers (two conserved species; (n_alpha, n_beta) of the ab-initio-like model; the input of fix a4feae3:
    # an unlabelled oscillator at the root with a labelled spin below it, sector [1, 0]): every solver branch, full bond and truncating
    for rep in range(mult):
        for kw in (dict(kind="sho_spin", ns=1, nbas=3, sector=[1, 0], topo="linear"), dict(kind="sho_spin", ns=3, nbas=3, sector="rand", topo=rng.choice(["linear", "star", "binary"])),
                   dict(kind="two_species", n=rng.choice([4, 5, 6]), sector="rand", topo=rng.choice(["linear", "binary", "star", "random"])),
                   dict(kind="qc", norb=2, sector="rand", topo=rng.choice(["linear", "binary", "star"]))):
            ms = rng.randrange(1, 2 ** 31)
            for algo in ("davidson", "arpack", "direct"):
                for full in (True, False):
                    m = BIG_M if full else 2
                    addt(hvar=None, model_seed=ms, procedure=[[m, 0.3], [m, 0.1], [m, 0], [m, 0]][: 4 if full else 3], m_init=16 if full else 4, algo=algo, **kw)
                    trees[-1]["seed"] = ms
    # ... and truncating runs with every solver: the state left behind must be normalised, in the sector, variational
    for rep in range(2 * mult):
        for algo in ("davidson", "arpack", "direct"):
            m = rng.choice([2, 3])
            addt(topo=rng.choice(["linear", "binary", "star", "random"]), kind="spin", n=rng.choice([5, 6]), qn=False, lr=True, sector=None,
                 procedure=[[m, 0.3], [m, 0.1], [m, 0]], m_init=4, algo=algo)
    for rep in range(14 * mult):
        full = rng.random() < 0.5
        if rng.random() < 0.7:
            kw = dict(kind="spin", n=rng.choice([3, 4, 5, 6]), qn=rng.random() < 0.6, enc=rng.choice(["01", "pm"]), sector="rand")
            if not kw["qn"]:
                kw["sector"] = None
        else:
            kw = dict(kind="holstein", nmol=2, nbas=rng.choice([2, 3]), sector=[1])
        k = rng.choice([3, 4])
        addt(topo=rng.choice(["linear", "binary", "star", "multi", "random"]),
             procedure=[[BIG_M, [0.3, 0.1, 0, 0][i]] for i in range(k)] if full else [[rng.choice([2, 3, 4, 6]), [0.3, 0.1, 0, 0][i]] for i in range(k)],
             m_init=32 if full else 6, algo=rng.choice(["davidson", "davidson", "direct"]), **kw)
    return cases, trees


def gen_heff_cases(rng, tier):
    out = []
    for k in range(32 if tier == "quick" else 160):
        two = k % 2 == 1
        om = (k // 2) % 2 == 1
        hi = [1, 2] if om else [1, 2, 3]
        c = {"id": k, "seed": rng.randrange(1, 2 ** 31), "two": two, "omega": om, "da": rng.choice([1, 2, 3]), "db": rng.choice(hi),
             "dr": rng.choice([1, 2, 3]), "bo": rng.choice(hi)}
        if two:
            c.update(p1=rng.choice([2, 3]), p2=rng.choice([2, 3]), b1=rng.choice(hi))
        else:
            c.update(p=rng.choice([2, 3]))
        out.append(c)
    return out


def glit(x):
    """nested [re, im] lists -> Coq list literal of Gaussian integers"""
    if isinstance(x, list) and len(x) == 2 and all(isinstance(y, int) for y in x):
        return "(%s, %s)" % tuple("(%d)" % y if y < 0 else "%d" % y for y in x)
    return "[" + "; ".join(glit(y) for y in x) + "]"


def gflat(x):
    """nested [re, im] lists -> flat list of integers"""
    if isinstance(x, list) and len(x) == 2 and all(isinstance(y, int) for y in x):
        return list(x)
    out = []
    for y in x:
        out += gflat(y)
    return out


def blit(x):
    if isinstance(x, list):
        return "[" + "; ".join(blit(y) for y in x) + "]"
    return "true" if x else "false"


HEFF_HDR = """From Coq Require Import ZArith List Bool.
Import ListNotations.
From RV Require Import Base.CRing Base.BigSum Model.Chain Model.Env Model.Heff.
Local Open Scope Z_scope.
Definition m3 (ml : list (list (list bool))) (a d f : nat) : bool := nth f (nth d (nth a ml []) []) false.
Definition m4 (ml : list (list (list (list bool)))) (a d g l : nat) : bool := nth l (nth g (nth d (nth a ml []) []) []) false.
Definition out3 (da p dr : nat) (m : nat -> nat -> nat -> bool) (T : T3 GiRing) : list Z :=
  flat_map (fun a => flat_map (fun d => flat_map (fun f => if m a d f then [fst (T a d f); snd (T a d f)] else []) (seq 0 dr)) (seq 0 p)) (seq 0 da).
Definition out4 (da p1 p2 dr : nat) (m : nat -> nat -> nat -> nat -> bool) (T : T4 GiRing) : list Z :=
  flat_map (fun a => flat_map (fun d => flat_map (fun g => flat_map (fun l => if m a d g l then [fst (T a d g l); snd (T a d g l)] else []) (seq 0 dr)) (seq 0 p2)) (seq 0 p1)) (seq 0 da).
"""


def heff_coq(case, r):
    G3, G4 = "(@of3 GiRing %s)", "(@of4 GiRing %s)"
    if case["two"]:
        fn = "heff_omega2" if case["omega"] else "heff2_apply"
        env = G4 if case["omega"] else G3
        return ("Eval vm_compute in (out4 %d %d %d %d (m4 %s) (%s (R:=GiRing) %d %d %d %d %d %d %d %s %s %s %s %s)).\n" %
                (case["da"], case["p1"], case["p2"], case["dr"], blit(r["mask"]), fn, case["da"], case["db"], case["p1"], case["p2"], case["dr"], case["b1"], case["bo"],
                 env % glit(r["L"]), env % glit(r["R"]), G4 % glit(r["cmo"][0]), G4 % glit(r["cmo"][1]), G4 % glit(r["cstruct"])))
    if case["omega"]:
        return ("Eval vm_compute in (out3 %d %d %d (m3 %s) (heff_omega1 (R:=GiRing) %d %d %d %d %d %s %s %s %s)).\n" %
                (case["da"], case["p"], case["dr"], blit(r["mask"]), case["da"], case["db"], case["p"], case["dr"], case["bo"],
                 G4 % glit(r["L"]), G4 % glit(r["R"]), G4 % glit(r["cmo"][0]), G3 % glit(r["cstruct"])))
    return ("Eval vm_compute in (out3 %d %d %d (m3 %s) (heff1_masked (R:=GiRing) (m3 %s) %d %d %d %d %d %s %s %s %s)).\n" %
            (case["da"], case["p"], case["dr"], blit(r["mask"]), blit(r["mask"]), case["da"], case["db"], case["p"], case["dr"], case["bo"],
             G3 % glit(r["L"]), G3 % glit(r["R"]), G4 % glit(r["cmo"][0]), G3 % glit(r["cstruct"])))


def chunks(xs, n):
    n = max(1, min(n, len(xs)))
    out = [[] for _ in range(n)]
    # longest first for balance: the big cases go to different chunks
    order = sorted(range(len(xs)), key=lambda i: -(1000 if "davidson" in str(xs[i].get("cls")) else len(xs[i].get("procedure", []))))
    for j, i in enumerate(order):
        out[j % n].append(xs[i])
    return out


REPRO_CHAIN = r'''
import sys, json
sys.path.insert(0, "/verif/harness/impl")
import c08_run as R, c08_judge as J
case = json.loads(%r)
R.install()
r = R.run_case(case)
bad = [b for b in J.judge_chain(case, r) if b[0] == %r]
print("case:", case)
print("exact sector spectrum:", r.get("exact"), "macro energies:", r.get("macro"))
print("failures of class", %r, ":", bad[:3])
sys.exit(1 if bad else 0)
'''

REPRO_CGROUP = r'''
import sys, json
sys.path.insert(0, "/verif/harness/impl")
import c08_run as R
cases = json.loads(%r)
R.install()
es = {}
for case in cases:
    r = R.run_case(case)
    es[case["algo"]] = r["macro"][-1][0] if r.get("ok") else None
    exact = r.get("exact", [None])[0]
print("same chain problem at full bond dimension; last reported value per eigen-solver:", es, " exact:", exact)
vals = [v for v in es.values() if v is not None]
sys.exit(1 if (len(vals) < len(es) or max(vals) - min(vals) > 1e-6 * max(1.0, abs(min(vals)))) else 0)
'''

REPRO_GROUP = r'''
import sys, json
sys.path.insert(0, "/verif/harness/impl")
import c08_tree as R
cases = json.loads(%r)
R.install()
es = {}
for case in cases:
    r = R.run_case(case)
    es[case["algo"]] = r["macro"][-1] if r.get("ok") else None
    exact = r.get("exact", [None])[0]
print("same model, same tree, full bond dimension; last reported energy per eigen-solver branch:", es, " exact:", exact)
vals = [v for v in es.values() if v is not None]
sys.exit(1 if (len(vals) < len(es) or max(vals) - min(vals) > 1e-6 * max(1.0, abs(min(vals)))) else 0)
'''

REPRO_TREE = r'''
import sys, json
sys.path.insert(0, "/verif/harness/impl")
import c08_tree as R, c08_judge as J
case = json.loads(%r)
R.install()
r = R.run_case(case)
bad = [b for b in J.judge_tree(case, r) if b[0] == %r]
print("case:", case)
print("exact:", r.get("exact"), "macro:", r.get("macro"))
print("failures of class", %r, ":", bad[:3])
sys.exit(1 if bad else 0)
'''


def run(ctx):
    ctx.trusted += [
        "translator tx/sweepsched.py (python ast -> Coq definitions of the sweep bookkeeping; fail-closed)",
        "hand-modelled, tied by witness: gauge after ensure_right/left_canonical = (to_right, qnidx) = (True, 0) / (False, n-1), read off the implementation when Environ is constructed in every traced run",
        "event-trace hooks (harness/impl/c08_run.py: attribute assignment on Environ.read/write/GetLR/_construct, MatrixProduct.__setitem__/_switch_direction/_get_big_qn, gs.eigh_direct/eigh_iterative/single_sweep) and the exact comparison with Model/Sweep.v:trace_Z",
        "witness checks per local solve (numpy einsum H_eff, 1e-8): `H_eff = P^dagger H P with P isometric, mask included` and `the eigensolver returns a Rayleigh pair` are checked per call, not proved",
        "modelled, not verified: binary64 arithmetic; convergence of the sweeps / of Davidson to the exact eigenpair (observed by the oracle at full bond dimension); LAPACK eigh/svd; opt_einsum contraction paths",
        "the dense oracles (kron of basis.op_mat per term, numpy eigvalsh per sector) only search for failing inputs",
    ]
    ctx.assumptions += [
        "variational_bound is applied to Re<.,.> on the realification; all generated models are real symmetric",
        "StackedMpo and primme are not exercised (primme is not installed); trees are covered by the oracle and the dense witness check only (no tree schedule model)",
    ]
    # ------------------------------------------------------------------ 1. translator
    tx_ok = True
    try:
        import sweepsched
        text, _ = sweepsched.main(common.REPO)
        ctx.regen("Gen/SweepSched.v", text)
    except Exception as e:
        tx_ok = False
        ctx.notes.append("translator tx/sweepsched.py failed: %r" % (e,))
        ctx.obligations.append({"name": "translator tx/sweepsched.py", "file": "Gen/SweepSched.v", "ok": False, "assumptions": None})
    # ------------------------------------------------------------------ 2. proofs
    ok_build, log = ctx.coq_make(["Proofs/SweepProofs.vo", "Proofs/RayleighProofs.vo", "Proofs/HeffProofs.vo", "Proofs/TreeOptProofs.vo"])
    ok_props = False
    if ok_build:
        ok_props, log = ctx.props("Props/C08.v")
    else:
        ctx.obligations.append({"name": "C08 (build of Gen/SweepSched.v + Proofs/SweepProofs.v + Proofs/RayleighProofs.v)", "file": "Proofs/SweepProofs.v", "ok": False, "assumptions": None})
    model_ok, _ = ctx.coq_make(["Model/Sweep.vo", "Model/Heff.vo", "Model/TreeOpt.vo"]) if not ok_build else (True, "")
    # ------------------------------------------------------------------ 3./4. implementation runs
    cases, trees = gen_cases(ctx.rng, ctx.tier)
    res = {}
    raw_fail = []
    tmpdir = tempfile.mkdtemp(prefix="c08_")
    tres = {}
    try:
        for script, allc, store, nchunk, tag in (("c08_run.py", cases, res, 10, "cases"), ("c08_tree.py", trees, tres, 4, "tree_cases")):
            cks = chunks(allc, nchunk)
            pls = [{"cases": c, "out": os.path.join(tmpdir, "%s_%d.json" % (tag, i))} for i, c in enumerate(cks)]
            outs = ctx.impl_par(script, pls, timeout=1500 if ctx.tier == "thorough" else 300, par=nchunk)
            for (rc, rj, out), ck, pl in zip(outs, cks, pls):
                data = None
                if rj is not None and os.path.exists(pl["out"]):
                    try:
                        data = json.load(open(pl["out"]))
                    except Exception:
                        data = None
                if data is None:
                    raw_fail.append({"rc": rc, "out": (out or "")[-1200:], tag: [c["id"] for c in ck]})
                    continue
                for r in data["results"]:
                    store[r["id"]] = r
        hcases = gen_heff_cases(ctx.rng, ctx.tier)
        hout = os.path.join(tmpdir, "heff.json")
        rc, rj, out = ctx.impl("c08_heff.py", {"cases": hcases, "out": hout}, timeout=300)
        hres = {}
        if rj is not None and os.path.exists(hout):
            for r in json.load(open(hout))["results"]:
                hres[r["id"]] = r
        else:
            raw_fail.append({"rc": rc, "out": (out or "")[-1200:], "heff_cases": len(hcases)})
    finally:
        shutil.rmtree(tmpdir, ignore_errors=True)
    # ------------------------------------------------------------------ model traces
    params = {}
    for c in cases:
        r = res.get(c["id"])
        if not r or r.get("skip") or not r.get("ok") or "trace" not in r:
            continue
        if c.get("ofs") is None or True:
            key = (c["method"] == "2site", r["n"], bool(r["input_left_canonical"]), int(r["sweeps"]))
            params.setdefault(key, []).append(c["id"])
    model_traces = {}
    corr_bad = []
    if model_ok and params:
        keys = sorted(params)
        hdr = "From Coq Require Import ZArith List.\nImport ListNotations.\nFrom RV Require Import Gen.SweepSched Model.Sweep.\nOpen Scope Z_scope.\n"
        items = []
        per = 40
        for b in range(0, len(keys), per):
            body = hdr
            for (two, n, il, k) in keys[b:b + per]:
                t = "(optimize %s %d %s %d (fun _ => O))" % ("true" if two else "false", n, "true" if il else "false", k)
                body += "Eval vm_compute in (stale_count %s :: trace_Z %s).\n" % (t, t)
            items.append(("traces_%d" % (b // per), body))
        outm = ctx.coq_eval_many(items, timeout=300)
        for b in range(0, len(keys), per):
            rc, out = outm["traces_%d" % (b // per)]
            lists = common.parse_Z_lists(out) if rc == 0 else None
            if lists is None or len(lists) != len(keys[b:b + per]):
                corr_bad.append({"what": "model evaluation failed", "rc": rc, "out": out[-800:]})
                continue
            for key, l in zip(keys[b:b + per], lists):
                model_traces[key] = l
    elif params:
        corr_bad.append({"what": "Model/Sweep.v does not build; traces not compared"})
    # ---- Model/Heff.v on exact integer data
    n_heff = n_heff_ok = 0
    heff_bad = []
    heff_tl = []
    if model_ok and hres:
        good = [c for c in hcases if c["id"] in hres and "error" not in hres[c["id"]]]
        for c in hcases:
            if c["id"] in hres and "error" in hres[c["id"]]:
                heff_bad.append({"what": "implementation raised", "case": c, "error": hres[c["id"]]["error"][-400:]})
        items = []
        per = 30
        for b in range(0, len(good), per):
            items.append(("heff_%d" % (b // per), HEFF_HDR + "".join(heff_coq(c, hres[c["id"]]) for c in good[b:b + per])))
        outm = ctx.coq_eval_many(items, timeout=300)
        for b in range(0, len(good), per):
            rc, out = outm["heff_%d" % (b // per)]
            lists = common.parse_Z_lists(out) if rc == 0 else None
            if lists is None or len(lists) != len(good[b:b + per]):
                corr_bad.append({"what": "Model/Heff.v evaluation failed", "rc": rc, "out": out[-800:]})
                continue
            for c, l in zip(good[b:b + per], lists):
                r = hres[c["id"]]
                n_heff += 1
                d_ok, i_ok = l == gflat(r["hv_direct"]), l == gflat(r["hv_iter"])
                if d_ok and i_ok:
                    n_heff_ok += 1
                if not i_ok and c["omega"]:
                    heff_tl.append({"what": "hop_expr(..., twolayer=True) differs from the two-layer operator (it applies the transpose)", "case": c,
                                    "model": l[:12], "hop_expr": gflat(r["hv_iter"])[:12], "get_ham_direct_agrees": d_ok})
                if not d_ok or (not i_ok and not c["omega"]):
                    heff_bad.append({"what": "effective operator differs", "case": c, "model": l[:12], "get_ham_direct": gflat(r["hv_direct"])[:12],
                                     "hop_expr": gflat(r["hv_iter"])[:12], "direct_ok": d_ok, "iterative_ok": i_ok})
    # ---- Model/TreeOpt.v traces
    tparams = {}
    for c in trees:
        r = tres.get(c["id"])
        if r and r.get("ok") and "trace" in r and not r.get("skip"):
            tparams.setdefault((tuple(r["shape"]), len(c["procedure"])), []).append(c["id"])
    tree_traces = {}
    if model_ok and tparams:
        keys = sorted(tparams)
        hdr = "From Coq Require Import ZArith List.\nImport ListNotations.\nFrom RV Require Import Model.TreeOpt.\n"
        items = []
        per = 12
        for b in range(0, len(keys), per):
            body = hdr
            for (shape, k) in keys[b:b + per]:
                t = "(optimize (of_shape [%s]%%nat) %d (fun _ => O))" % ("; ".join(str(x) for x in shape), k)
                body += "Eval vm_compute in (Z.of_nat (stale_count (of_shape [%s]%%nat) %s) :: trace_Z %s).\n" % ("; ".join(str(x) for x in shape), t, t)
            items.append(("ttraces_%d" % (b // per), body))
        outm = ctx.coq_eval_many(items, timeout=600)
        for b in range(0, len(keys), per):
            rc, out = outm["ttraces_%d" % (b // per)]
            lists = common.parse_Z_lists(out) if rc == 0 else None
            if lists is None or len(lists) != len(keys[b:b + per]):
                corr_bad.append({"what": "Model/TreeOpt.v evaluation failed", "rc": rc, "out": out[-800:]})
                continue
            for key, l in zip(keys[b:b + per], lists):
                tree_traces[key] = l
    # ------------------------------------------------------------------ verdicts
    n_trace = n_trace_ok = n_solves = n_full = n_conv = n_skip = n_crash = n_ofs = n_ofs_reordered = 0
    dist = {}
    classes = {}          # class -> list of (case, detail)
    samples = []
    sched_seen = set()
    for c in cases:
        r = res.get(c["id"])
        dist[c["cls"]] = dist.get(c["cls"], 0) + 1
        if r is None:
            continue
        if r.get("skip"):
            n_skip += 1
            ctx.notes.append("case %d (%s) skipped: %s" % (c["id"], c["cls"], r["skip"][-160:].replace("\n", " ")))
            continue
        for klass, detail in J.judge_chain(c, r):
            if klass == "crash":
                n_crash += 1
            classes.setdefault(klass, []).append((c, detail))
        n_solves += len(r.get("solves", []))
        if "order_after" in r:
            n_ofs += 1
            fo = [f.get("order") for f in r.get("final", []) if f.get("order")]
            if fo and fo[0] != sorted(fo[0], key=lambda x: (len(x), x)):
                n_ofs_reordered += 1
        n_full += 1 if r.get("_full_reached") else 0
        n_conv += 1 if r.get("_converged_full") else 0
        if not r.get("ok") or "trace" not in r:
            continue
        # witness validity of the hand-modelled part: gauge when the environments are built
        cons = r.get("constructs", [])
        il = bool(r["input_left_canonical"])
        want = {"domain": "R", "to_right": True, "qnidx": 0, "n": r["n"]} if il else {"domain": "L", "to_right": False, "qnidx": r["n"] - 1, "n": r["n"]}
        if cons != [want]:
            classes.setdefault("trace-correspondence", []).append((c, {"what": "gauge / environment domain at Environ construction", "impl": cons, "model_hypothesis": want}))
        key = (c["method"] == "2site", r["n"], il, int(r["sweeps"]))
        mt = model_traces.get(key)
        if mt is None:
            continue
        n_trace += 1
        if mt[0] != 0:
            classes.setdefault("trace-correspondence", []).append((c, {"what": "model reports stale observations", "stale": mt[0], "params": key}))
        if mt[1:] != r["trace"]:
            a, b = mt[1:], r["trace"]
            pos = next((i for i in range(min(len(a), len(b))) if a[i] != b[i]), min(len(a), len(b)))
            pos -= pos % 4
            classes.setdefault("trace-correspondence", []).append((c, {"what": "event sequences differ", "params (two,n,input_left_canonical,sweeps)": key,
                                                                     "first_difference_event": pos // 4, "model": a[pos:pos + 12], "impl": b[pos:pos + 12],
                                                                     "lengths": [len(a) // 4, len(b) // 4]}))
        else:
            n_trace_ok += 1
            sched_seen.add(key)
            if len(samples) < 2:
                samples.append({"case": {k: c[k] for k in ("kind", "method", "prep", "procedure", "nroots") if k in c}, "n": r["n"], "sweeps": r["sweeps"],
                                "events": len(r["trace"]) // 4, "exact": r["exact"][:2], "macro": r["macro"][:3]})
    cgroups = {}
    for c in cases:
        r = res.get(c["id"])
        if "group" in c and r and r.get("ok") and not r.get("skip"):
            cgroups.setdefault(c["group"], []).append((c, r))
    chain_group_cases = {}
    for g, lst in cgroups.items():
        if len(lst) < 2:
            continue
        es = [J._roots(r["macro"][-1])[0] for _, r in lst]
        if max(es) - min(es) > 1e-6 * max(1.0, abs(min(es))):
            chain_group_cases[g] = [c for c, _ in lst]
            classes.setdefault("solvers-disagree", []).append((lst[0][0], {"group": g, "what": "the dense and the iterative eigen-solver disagree on the same problem at full bond dimension",
                                                                         "last_reported": {c["algo"]: J._roots(r["macro"][-1])[0] for c, r in lst}, "exact": lst[0][1]["exact"][0]}))
    n_tree = n_tree_solves = n_tree_full = n_ttrace = n_ttrace_ok = 0
    tshapes = set()
    tdist = {}
    for c in trees:
        r = tres.get(c["id"])
        tdist[c["topo"]] = tdist.get(c["topo"], 0) + 1
        if r is None:
            continue
        if r.get("skip"):
            n_skip += 1
            ctx.notes.append("tree case %d (%s) skipped: %s" % (c["id"], c["topo"], r["skip"][-160:].replace("\n", " ")))
            continue
        n_tree += 1
        n_tree_solves += len(r.get("solves", []))
        for klass, detail in J.judge_tree(c, r):
            if klass == "crash":
                n_crash += 1
                klass = "tree-crash"
            classes.setdefault(klass, []).append((c, detail))
        n_tree_full += 1 if r.get("_full_reached") else 0
        if r.get("ok") and "trace" in r:
            key = (tuple(r["shape"]), len(c["procedure"]))
            mt = tree_traces.get(key)
            if mt is not None:
                n_ttrace += 1
                if mt[0] != 0:
                    classes.setdefault("tree-trace-correspondence", []).append((c, {"what": "model reports stale observations", "stale": mt[0], "shape": r["shape"]}))
                if mt[1:] != r["trace"]:
                    a, b = mt[1:], r["trace"]
                    pos = next((i for i in range(min(len(a), len(b))) if a[i] != b[i]), min(len(a), len(b)))
                    classes.setdefault("tree-trace-correspondence", []).append((c, {"what": "event sequences differ", "shape": r["shape"], "sweeps": key[1],
                                                                                  "first_difference_at": pos, "model": a[max(0, pos - 6):pos + 12], "impl": b[max(0, pos - 6):pos + 12],
                                                                                  "lengths": [len(a), len(b)]}))
                else:
                    n_ttrace_ok += 1
                    tshapes.add(key)
    groups = {}
    for c in trees:
        r = tres.get(c["id"])
        if "group" in c and r and r.get("ok") and not r.get("skip") and r.get("_converged_full"):
            groups.setdefault(c["group"], []).append((c, r))
    n_agree = 0
    group_cases = {}
    for g, lst in groups.items():
        if len(lst) < 2:
            continue
        n_agree += 1
        es = [r["macro"][-1] for _, r in lst]
        if max(es) - min(es) > 1e-6 * max(1.0, abs(min(es))):
            group_cases[g] = [c for c, _ in lst]
            classes.setdefault("tree-solvers-disagree", []).append((min(lst, key=lambda x: -x[1]["macro"][-1])[0],
                {"group": g, "what": "the eigen-solver branches of tn/gs.py disagree at full bond dimension", "energies": {c["algo"]: r["macro"][-1] for c, r in lst}, "exact": lst[0][1]["exact"][0]}))
    if len(samples) < 3 and trees:
        for c in trees:
            r = tres.get(c["id"])
            if r and r.get("ok"):
                samples.append({"tree": c["topo"], "kind": c["kind"], "exact": r["exact"][:2], "macro": r["macro"], "solves": len(r["solves"])})
                break
    # ------------------------------------------------------------------ report
    if raw_fail:
        ctx.violation("harness-impl-run", "implementation runner did not return a result (machinery fault)", {"runs": raw_fail[:3]}, found=False)
    if not tx_ok:
        ctx.violation("sweep-schedule-translation", "translator tx/sweepsched.py (the bookkeeping of single_sweep / GetLR / _update_mps changed shape)",
                      {"notes": ctx.notes[-3:], "oracle_failures": {k: len(v) for k, v in classes.items()}}, found=False)
    if not (ok_build and ok_props):
        failing = [o["name"] for o in ctx.obligations if not o["ok"]]
        # a failing input from the oracle / correspondence, if there is one, goes into the same report
        found_cls = next((k for k in ("variational-bound", "witness-projection", "witness-rayleigh", "witness-isometry", "witness-sector",
                                      "full-bond-exactness", "returned-state", "tree-full-bond-exactness", "tree-variational-bound",
                                      "tree-witness-projection", "tree-returned-state") if k in classes), None)
        if found_cls is None and len(classes.get("crash", [])) >= 5:
            found_cls = "crash"
        repro = None
        if found_cls:
            c0 = classes[found_cls][0][0]
            repro = (REPRO_TREE if found_cls.startswith("tree-") else REPRO_CHAIN) % (json.dumps(c0), found_cls, found_cls)
        ctx.violation("sweep-proofs", "theorem(s) of Props/C08.v no longer check against the regenerated Gen/SweepSched.v: " + ", ".join(failing),
                      {"coq_log_tail": (log or "")[-1800:], "failing_input_class": found_cls,
                       "first_failure": classes[found_cls][0][1] if found_cls else None}, found=bool(found_cls), repro=repro)
    import c08_heff_repro as HR
    if heff_bad:
        c0 = heff_bad[0]["case"]
        ctx.violation("chain:heff-correspondence", "correspondence: get_ham_direct / hop_expr vs Model/Heff.v on exact Gaussian-integer data (heff_is_projection no longer describes the code)",
                      {"n_failing_cases": len(heff_bad), "first": heff_bad[0]}, found=True,
                      repro=HR.REPRO % (json.dumps(c0), "d > 1e-9" if c0["omega"] else "d > 1e-9 or i > 1e-9"))
    if heff_tl or "omega-iterative-transposed" in classes:
        c0 = heff_tl[0]["case"] if heff_tl else None
        items = classes.pop("omega-iterative-transposed", [])
        ctx.violation("chain:omega-iterative-transposed",
                      "correspondence + dense oracle: with omega the iterative solver applies the TRANSPOSE of P^dagger (H-omega)^2 P (hop_expr, twolayer=True); "
                      "for complex Hermitian H the vector written into the state is the complex conjugate of the minimiser",
                      {"n_failing_heff_cases": len(heff_tl), "first_heff": heff_tl[0] if heff_tl else None,
                       "n_failing_dmrg_cases": len(items), "first_dmrg": {"case": items[0][0], "detail": items[0][1]} if items else None},
                      found=True,
                      repro=(HR.REPRO % (json.dumps(c0), "i > 1e-9")) if c0 else (REPRO_CHAIN % (json.dumps(items[0][0]), "omega-iterative-transposed", "omega-iterative-transposed")))
    for cb in corr_bad:
        ctx.violation("trace-model-eval", "correspondence: the Coq model could not be evaluated", cb, found=False)
    order = ["variational-bound", "witness-projection", "witness-rayleigh", "witness-isometry", "witness-sector", "witness-hook", "full-bond-exactness",
             "returned-state", "ofs-order", "bond-limit", "solvers-disagree", "trace-correspondence", "crash", "invalid-input"]
    for klass in order + sorted(k for k in classes if k not in order):
        if klass not in classes:
            continue
        items = classes[klass]
        c0, d0 = items[0]
        tree = klass.startswith("tree-")
        if klass in ("invalid-input",):
            ctx.notes.append("%d generated cases had MPO/TTNO != dense reference or a Hamiltonian not commuting with the quantum number (C01/C02/C16 territory): %r" % (len(items), d0))
            continue
        if klass in ("crash", "tree-crash"):
            ctx.violation("tree:optimizer-raised" if tree or klass == "tree-crash" else "chain:optimizer-raised",
                          "dense oracle: the optimiser raised an exception on a legal input (no energy, no state is delivered)",
                          {"n_failing_cases": len(items), "case": c0, "detail": d0}, found=True,
                          repro=(REPRO_TREE % (json.dumps(c0), "crash", "crash")) if klass == "tree-crash" else (REPRO_CHAIN % (json.dumps(c0), "crash", "crash")))
            continue
        broken = {"trace-correspondence": "correspondence: event trace of optimize_mps vs Model/Sweep.v (env_fresh / sweep_coverage no longer describe the code)"
                  if not tree else "correspondence: event trace of optimize_ttns vs Model/TreeOpt.v (tree_env_fresh no longer describes the code)",
                  "witness-rayleigh": "witness validity: the reported energy is not a Rayleigh quotient of the masked H_eff (hypothesis of C08_variational_bound)",
                  "witness-isometry": "witness validity: P is not an isometry when H_eff is formed (hypothesis of C08_variational_bound)",
                  "witness-projection": "witness validity: H_eff != P^dagger H P (hypothesis of C08_variational_bound)",
                  "witness-sector": "witness validity: the solved vector leaves the symmetry sector (mask)",
                  "witness-hook": "witness checker raised (machinery)",
                  "trace-correspondence ": "",
                  "variational-bound": "dense oracle: reported energy below the exact sector eigenvalue (C08_variational_bound / C08_second_root / C08_shifted_target contradicted, so one of their witness hypotheses fails)",
                  "full-bond-exactness": "dense oracle: at full bond dimension the reported energy differs from exact diagonalisation (residual clause)",
                  "returned-state": "dense oracle: returned state not normalised / outside the sector / energy differs from the reported one",
                  "ofs-order": "dense oracle: on-the-fly swapping leaves state / operator / model site orders inconsistent",
                  "bond-limit": "dense oracle: a bond of the returned state exceeds the limit given for it (C08_trunc_bond_is_active_bond)",
                  "state-not-normalised": "dense oracle: `the returned states are normalised` fails for the tree optimiser (state optimised in place)",
                  "solvers-disagree": "dense oracle: eigen-solver branches disagree at full bond dimension (C08_solvers_request_smallest / exact diagonalisation)"}.get(
                      klass[5:] if tree else klass, "dense oracle")
        found = klass not in ("trace-correspondence", "witness-hook", "tree-trace-correspondence")
        repro = None
        if found:
            repro = (REPRO_TREE if tree else REPRO_CHAIN) % (json.dumps(c0), klass[5:] if tree else klass, klass)
            if tree:
                repro = REPRO_TREE % (json.dumps(c0), klass, klass)
            if klass == "solvers-disagree":
                repro = REPRO_CGROUP % (json.dumps(chain_group_cases[d0["group"]]),)
            if klass == "tree-solvers-disagree":
                repro = REPRO_GROUP % (json.dumps(group_cases[d0["group"]]),)
        key = ("tree:" + klass[5:]) if tree else ("chain:" + klass)      # stable: call-site family + failure class
        ctx.violation(key, broken, {"n_failing_cases": len(items), "case": c0, "detail": d0}, found=found, repro=repro)
    ev = n_trace + n_solves + n_tree_solves + n_heff + n_ttrace
    return {
        "evaluations": ev,
        "distinct_nontrivial": len(sched_seen) + n_full + n_tree_full + len(tshapes) + n_heff_ok,
        "rule": "evaluations = traced optimize_mps runs compared event-by-event with the Coq model (%d, %d equal) + local solves witness-checked (chain %d, tree %d). "
                "distinct_nontrivial = distinct schedule parameter tuples (method, n, input gauge, sweeps executed) whose full trace matched (%d) "
                "+ runs that reached a local problem spanning the whole sector, where exactness is checked sharply (chain %d, of which %d also had the returned state checked against the reported energy; tree %d)" %
                (n_trace, n_trace_ok, n_solves, n_tree_solves, len(sched_seen), n_full, n_conv, n_tree_full) +
                "; tree event traces compared with Model/TreeOpt.v: %d (%d equal, %d distinct (shape, sweeps)); effective-operator cases on exact integer data compared with Model/Heff.v: %d (%d equal)" %
                (n_ttrace, n_ttrace_ok, len(tshapes), n_heff, n_heff_ok),
        "samples": samples[:3],
        "exhaustive": False,
        "input_distribution": {"operator_handed_in": {str(k): sum(1 for c in cases if c.get("hvar") == k) for k in (None, "terms", "offset", "scale", "sum", "empty")},
                               "chain_cases_by_class": dist, "tree_cases_by_topology": tdist, "swapping_runs": n_ofs, "swapping_runs_with_reordered_result": n_ofs_reordered, "skipped_at_setup": n_skip, "optimiser_raised": n_crash,
                               "trace_param_tuples": len(params), "tree_runs": n_tree},
    }
