"""Shared machinery for all property checks (stdlib only; runs under any python3).

A check is a python module harness/cXX.py exposing run(ctx).  The module uses
  ctx.regen(path, text)        write a generated Coq file if its text changed
  ctx.coq_make([targets])      build .vo targets of /verif/coq (full .vo build, flock'ed)
  ctx.props("Props/C19.v")     compile the property file, parse `Print Assumptions`
  ctx.coq_eval(name, text)     run a generated cases file through coqc, return stdout
  ctx.impl(script, payload)    run harness/impl/<script> with /venv/bin/python on /repo
  ctx.violation(...)           record a violation (replay file is written)
  ctx.finish(coverage)         write evidence, print VIOLATION / KNOWN-FINDING lines, exit
"""
import fcntl
import hashlib
import json
import os
import random
import re
import subprocess
import sys
import tempfile
import time

VERIF = os.path.dirname(os.path.dirname(os.path.abspath(__file__)))
REPO = os.environ.get("VERIF_REPO", "/repo")
COQ = os.path.join(VERIF, "coq")
IMPL_PY = "/venv/bin/python"
GUARD = "RENORMALIZER_VERIF"

ALLOWED_AXIOMS = {
    # none are needed by the property theorems; the list names what *may* appear and is reported.
}

KERNEL_TB = [
    "Coq 8.16.1 kernel (coqc full .vo build; vm_compute used inside finite-domain proofs and to run models; no native_compute)",
]


def impl_env():
    env = dict(os.environ)
    env["PYTHONPATH"] = REPO + ":" + os.path.join(VERIF, "pylib") + ":" + os.path.join(VERIF, "harness", "impl")
    env["PYTHONHASHSEED"] = "0"
    env["RENO_NUM_THREADS"] = "1"
    env["OMP_NUM_THREADS"] = "1"
    env["OPENBLAS_NUM_THREADS"] = "1"
    env["MKL_NUM_THREADS"] = "1"
    env[GUARD] = "1"
    env["RENO_LOG_LEVEL"] = "40"
    return env


def _tscale():
    """Every harness timeout is a guard against a hang, not a performance claim: scale it with the machine's load
    (or VERIF_TIMEOUT_SCALE) so that a busy host does not turn into a false alarm."""
    v = os.environ.get("VERIF_TIMEOUT_SCALE")
    if v:
        try:
            return max(1.0, float(v))
        except ValueError:
            pass
    try:
        return max(1.0, min(8.0, 2.0 * os.getloadavg()[0] / (os.cpu_count() or 1)))
    except OSError:
        return 1.0


TSCALE = _tscale()


def _t(x):
    return int(x * TSCALE)


def sh(cmd, timeout=600, cwd=None, env=None, inp=None, scaled=False):
    """Run a command (list) under a timeout; returns (rc, stdout+stderr)."""
    if not scaled:
        timeout = _t(timeout)
    try:
        p = subprocess.run(cmd, cwd=cwd, env=env, input=inp, timeout=timeout,
                           stdout=subprocess.PIPE, stderr=subprocess.STDOUT, text=True)
        return p.returncode, p.stdout
    except subprocess.TimeoutExpired as e:
        out = e.stdout if isinstance(e.stdout, str) else (e.stdout or b"").decode("utf8", "replace")
        return 124, (out or "") + "\n[timeout after %ss]" % timeout


def repo_head():
    rc, out = sh(["git", "-C", REPO, "rev-parse", "HEAD"])
    rc2, st = sh(["git", "-C", REPO, "status", "--short"])
    return out.strip() + ("+dirty" if st.strip() else "")


class Ctx:
    def __init__(self, pid, tier, seed):
        self.pid = pid
        self.tier = tier
        self.seed = seed
        self.rng = random.Random((seed, pid).__repr__())
        self.t0 = time.time()
        self.obligations = []      # {name, file, ok, assumptions}
        self.violations = []       # dicts with 'replay', 'key', 'found'
        self.known_hits = []
        self.notes = []
        self.trusted = list(KERNEL_TB)
        self.assumptions = []
        self.axioms_seen = set()
        self.known = load_known()
        self._nrep = 0

    # ------------------------------------------------------------------ Coq side
    def regen(self, rel, text):
        path = os.path.join(COQ, rel)
        os.makedirs(os.path.dirname(path), exist_ok=True)
        old = None
        if os.path.exists(path):
            with open(path) as f:
                old = f.read()
        if old != text:
            with open(path, "w") as f:
                f.write(text)
        return old != text

    def coq_make(self, targets, timeout=900):
        """make the given .vo targets (relative to coq/).  Returns (ok, log)."""
        timeout = _t(timeout)
        with open(os.path.join(COQ, ".lock"), "w") as lk:
            fcntl.flock(lk, fcntl.LOCK_EX)
            changed = write_coq_project()
            if changed or not os.path.exists(os.path.join(COQ, "Makefile")):
                rc, out = sh(["coq_makefile", "-f", "_CoqProject", "-o", "Makefile"], cwd=COQ)
                if rc != 0:
                    return False, out
            rc, out = sh(["timeout", str(timeout), "make", "-j16"] + list(targets), cwd=COQ, timeout=timeout + 30, scaled=True)
        return rc == 0, out

    def props(self, rel, timeout=600):
        """Compile a property file; every `Theorem`/`Lemma`/`Corollary` in it is an obligation.
        Returns True iff it compiled and every Print Assumptions is closed / allowed."""
        timeout = _t(timeout)
        path = os.path.join(COQ, rel)
        src = open(path).read()
        names = re.findall(r"^\s*(?:Theorem|Lemma|Corollary)\s+([A-Za-z0-9_']+)", src, re.M)
        printed = re.findall(r"^\s*Print Assumptions\s+([A-Za-z0-9_']+)\s*\.", src, re.M)
        forbidden = re.findall(r"\b(Admitted|admit|Axiom|Parameter|Conjecture|Abort)\b", re.sub(r"\(\*.*?\*\)", "", src, flags=re.S))
        with open(os.path.join(COQ, ".lock"), "w") as lk:
            fcntl.flock(lk, fcntl.LOCK_EX)
            rc, out = sh(["timeout", str(timeout), "coqc", "-Q", ".", "RV", rel], cwd=COQ, timeout=timeout + 30, scaled=True)
        ok_all = rc == 0 and not forbidden
        # parse Print Assumptions blocks in order
        blocks = re.split(r"(?m)^(?=Closed under the global context|Axioms:)", out)
        results = []
        for b in blocks:
            if b.startswith("Closed under the global context"):
                results.append([])
            elif b.startswith("Axioms:"):
                ax = re.findall(r"(?m)^([A-Za-z_][A-Za-z0-9_.']*)\s*:", b[len("Axioms:"):])
                results.append(ax)
        for i, n in enumerate(names):
            if rc != 0:
                self.obligations.append({"name": n, "file": rel, "ok": False, "assumptions": None})
                continue
            ax = None
            if n in printed:
                k = printed.index(n)
                ax = results[k] if k < len(results) else None
            bad = ax is None or any(a not in ALLOWED_AXIOMS for a in ax)
            if ax:
                self.axioms_seen.update(ax)
            self.obligations.append({"name": n, "file": rel, "ok": (not bad) and not forbidden, "assumptions": ax})
            if bad:
                ok_all = False
        if not names:
            ok_all = False
        if ok_all and self.tier == "thorough":
            # independent re-check of the compiled property file and everything it depends on
            mod = "RV." + rel[:-2].replace("/", ".")
            with open(os.path.join(COQ, ".lock"), "w") as lk:
                fcntl.flock(lk, fcntl.LOCK_EX)
                sh(["timeout", str(_t(900)), "make", rel + "o"], cwd=COQ, timeout=_t(900) + 30, scaled=True)
            rc2, out2 = sh(["timeout", str(_t(1500)), "coqchk", "-o", "-silent", "-Q", ".", "RV", mod], cwd=COQ, timeout=_t(1500) + 30, scaled=True)
            m = re.search(r"\* Axioms:(.*?)\n\s*\n\s*\*", out2, re.S)
            axioms = m.group(1).strip() if m else "?"
            self.notes.append("coqchk -o %s: rc=%d axioms=%s" % (mod, rc2, axioms[:600]))
            self.trusted.append("coqchk -o %s (independent checker) reports axioms: %s" % (mod, axioms[:600]))
            bad_flags = re.findall(r"relying on type-in-type: (?!<none>)|unsafe \(co\)fixpoints: (?!<none>)|positivity is assumed: (?!<none>)", out2)
            if rc2 != 0 or bad_flags:
                ok_all = False
                self.obligations.append({"name": "coqchk " + mod, "file": rel, "ok": False, "assumptions": None})
                out += "\n[coqchk]\n" + out2[-2000:]
        return ok_all, out

    def coq_eval(self, name, text, timeout=600):
        timeout = _t(timeout)
        d = os.path.join(COQ, "Corr", "run_" + self.pid)
        os.makedirs(d, exist_ok=True)
        rel = os.path.join("Corr", "run_" + self.pid, name + ".v")
        with open(os.path.join(COQ, rel), "w") as f:
            f.write(text)
        rc, out = sh(["timeout", str(timeout), "coqc", "-Q", ".", "RV", rel], cwd=COQ, timeout=timeout + 30, scaled=True)
        return rc, out

    def coq_eval_many(self, items, timeout=600, par=12):
        """items: list of (name, text).  Runs coqc on each in parallel; returns {name: (rc, out)}."""
        timeout = _t(timeout)
        d = os.path.join(COQ, "Corr", "run_" + self.pid)
        os.makedirs(d, exist_ok=True)
        procs = []
        res = {}
        pending = list(items)
        running = []
        while pending or running:
            while pending and len(running) < par:
                name, text = pending.pop(0)
                rel = os.path.join("Corr", "run_" + self.pid, name + ".v")
                with open(os.path.join(COQ, rel), "w") as f:
                    f.write(text)
                fo = tempfile.TemporaryFile(mode="w+")
                p = subprocess.Popen(["timeout", str(timeout), "coqc", "-Q", ".", "RV", rel], cwd=COQ,
                                     stdout=fo, stderr=subprocess.STDOUT, text=True)
                running.append((name, p, fo))
            still = []
            for name, p, fo in running:
                if p.poll() is None:
                    still.append((name, p, fo))
                else:
                    fo.seek(0)
                    res[name] = (p.returncode, fo.read())
                    fo.close()
            running = still
            if running:
                time.sleep(0.2)
        return res

    # ----------------------------------------------------------- implementation side
    def impl(self, script, payload, timeout=900, args=()):
        """Run harness/impl/<script> under the repo's python; payload (JSON) on stdin; JSON on stdout
        (last line starting with 'RESULT ')."""
        timeout = _t(timeout)
        path = os.path.join(VERIF, "harness", "impl", script)
        rc, out = sh([IMPL_PY, path] + list(args), cwd="/", env=impl_env(), inp=json.dumps(payload), timeout=timeout, scaled=True)
        res = None
        for line in out.splitlines():
            if line.startswith("RESULT "):
                try:
                    res = json.loads(line[7:])
                except Exception:
                    res = None
        return rc, res, out

    def impl_par(self, script, payloads, timeout=900, par=14):
        """Run the same impl script on several payloads in parallel. Returns list of (rc,res,out)."""
        timeout = _t(timeout)
        path = os.path.join(VERIF, "harness", "impl", script)
        out = [None] * len(payloads)
        pending = list(enumerate(payloads))
        running = []
        env = impl_env()
        t_end = time.time() + timeout
        while pending or running:
            while pending and len(running) < par:
                i, pl = pending.pop(0)
                fo = tempfile.TemporaryFile(mode="w+")
                fi = tempfile.TemporaryFile(mode="w+")
                fi.write(json.dumps(pl))
                fi.seek(0)
                p = subprocess.Popen([IMPL_PY, path], cwd="/", env=env, stdin=fi,
                                     stdout=fo, stderr=subprocess.STDOUT, text=True)
                running.append((i, p, (fo, fi)))
            still = []
            for i, p, buf in running:
                if p.poll() is None:
                    if time.time() > t_end:
                        p.kill()
                        out[i] = (124, None, "[timeout]")
                    else:
                        still.append((i, p, buf))
                else:
                    buf[0].seek(0)
                    txt = buf[0].read()
                    buf[0].close()
                    buf[1].close()
                    res = None
                    for line in txt.splitlines():
                        if line.startswith("RESULT "):
                            try:
                                res = json.loads(line[7:])
                            except Exception:
                                res = None
                    out[i] = (p.returncode, res, txt)
            running = still
            if running:
                time.sleep(0.1)
        return out

    # ------------------------------------------------------------------ reporting
    def violation(self, key, broken, detail, found, repro=None, extra=None):
        """key: stable identifier of the failing input class / call site (matched against known findings).
        broken: which theorem / translator / correspondence no longer checks.
        found: True when a concrete failing input on the real code is in the replay."""
        for k in self.known:
            if k.get("status") == "known" and k.get("property") == self.pid and k.get("key") == key:
                if key not in [h["key"] for h in self.known_hits]:
                    self.known_hits.append({"key": key, "what": k.get("what", ""), "detail": detail})
                return None
        self._nrep += 1
        os.makedirs(os.path.join(VERIF, "replays"), exist_ok=True)
        h = hashlib.sha1((key + json.dumps(detail, sort_keys=True, default=str)).encode()).hexdigest()[:8]
        path = os.path.join(VERIF, "replays", "%s-%s-%s.json" % (self.pid, re.sub(r"[^A-Za-z0-9_.-]", "_", key)[:40], h))
        rep = {"property": self.pid, "key": key, "broken": broken, "failing_input_found": bool(found),
               "detail": detail, "repro": repro, "repo_head": repo_head(), "seed": self.seed, "tier": self.tier}
        if extra:
            rep.update(extra)
        with open(path, "w") as f:
            json.dump(rep, f, indent=1, default=str)
        self.violations.append({"key": key, "replay": path, "found": bool(found), "broken": broken})
        return path

    def finish(self, coverage, level="proof"):
        wall = time.time() - self.t0
        nob = len(self.obligations)
        ndis = sum(1 for o in self.obligations if o["ok"])
        cov = dict(coverage)
        cov.setdefault("obligations", nob)
        cov.setdefault("discharged", ndis)
        cov.setdefault("checker_cmd", "cd /verif/coq && coqc -Q . RV Props/%s.v  (after make of its dependencies; see harness/common.py:props)" % self.pid)
        tb = list(self.trusted)
        tb.append("axioms reported by Print Assumptions under the property theorems: %s" %
                  (", ".join(sorted(self.axioms_seen)) if self.axioms_seen else "none (closed under the global context)"))
        cov.setdefault("trusted_base", tb)
        cov["theorems"] = [{"name": o["name"], "ok": o["ok"], "assumptions": o["assumptions"]} for o in self.obligations]
        cov.setdefault("evaluations", 0)
        cov.setdefault("distinct_nontrivial", 0)
        cov.setdefault("rule", "")
        cov.setdefault("samples", [])
        cov["known_findings_reproduced"] = self.known_hits
        cov["notes"] = self.notes
        cov["repo_head"] = repo_head()
        ev = {"property_id": self.pid, "tier": self.tier, "seed": self.seed, "level": level,
              "coverage": cov, "assumptions": self.assumptions, "wall_s": round(wall, 2),
              "violations": len(self.violations)}
        evdir = os.environ.get("VERIF_EVIDENCE_DIR") or os.path.join(VERIF, "evidence")   # seed tests redirect it
        os.makedirs(evdir, exist_ok=True)
        with open(os.path.join(evdir, self.pid + ".json"), "w") as f:
            json.dump(ev, f, indent=1, default=str)
        for h in self.known_hits:
            print("KNOWN-FINDING: property=%s %s" % (self.pid, h["what"] or h["key"]))
        for v in self.violations:
            print("VIOLATION property=%s replay=%s%s" % (self.pid, v["replay"], "" if v["found"] else " no-failing-input-found"))
        print("[%s %s] obligations %d/%d, evaluations %s, nontrivial %s, violations %d, known %d, %.1fs" % (
            self.pid, self.tier, ndis, nob, cov.get("evaluations"), cov.get("distinct_nontrivial"),
            len(self.violations), len(self.known_hits), wall))
        sys.stdout.flush()
        return 1 if self.violations else 0


def write_coq_project():
    """_CoqProject = fixed header + every .v under Base/ Model/ Gen/ Proofs/ Props/ (sorted).  Returns True if it changed."""
    hdr = ["-Q . RV", "-arg -w -arg -notation-overridden,-deprecated-hint-without-locality,-deprecated-instance-without-locality,-deprecated-hint-rewrite-without-locality"]
    files = []
    for d in ("Base", "Model", "Gen", "Proofs", "Props"):
        dd = os.path.join(COQ, d)
        if os.path.isdir(dd):
            for root, _, fs in os.walk(dd):
                for f in sorted(fs):
                    if f.endswith(".v") and not f.startswith("."):
                        files.append(os.path.relpath(os.path.join(root, f), COQ))
    text = "\n".join(hdr + sorted(files)) + "\n"
    path = os.path.join(COQ, "_CoqProject")
    old = open(path).read() if os.path.exists(path) else None
    if old != text:
        with open(path, "w") as f:
            f.write(text)
        return True
    return False


def load_known():
    """known_findings.txt:  `known: property=<id> key=<key> <what>`  |  `fixed: property=<id> <commit> <what>`"""
    path = os.path.join(VERIF, "known_findings.txt")
    out = []
    if os.path.exists(path):
        for line in open(path):
            line = line.strip()
            m = re.match(r"known:\s+property=(\S+)\s+key=(\S+)\s+(.*)", line)
            if m:
                out.append({"status": "known", "property": m.group(1), "key": m.group(2), "what": m.group(3)})
            m = re.match(r"fixed:\s+property=(\S+)\s+(\S+)\s+(.*)", line)
            if m:
                out.append({"status": "fixed", "property": m.group(1), "commit": m.group(2), "what": m.group(3)})
    return out


# ---------------------------------------------------------------- small helpers for Coq text
def coq_Z(n):
    n = int(n)
    return "(%d)%%Z" % n if n < 0 else "%d%%Z" % n


def coq_list(xs, f=str):
    return "[" + "; ".join(f(x) for x in xs) + "]"


def coq_Q(fr):
    """fractions.Fraction -> Coq Q literal (Qmake)."""
    n, d = fr.numerator, fr.denominator
    return "(Qmake (%d) %d)" % (n, d)


def parse_Z_list(out):
    """Integers of the (last) `= [...] : list Z` value printed by Eval; wrap-insensitive."""
    m = re.findall(r"=\s*(\[.*?\]|nil)\s*:\s*list Z", out, re.S)
    if not m:
        return None
    body = m[-1]
    return [int(x) for x in re.findall(r"-?\d+", body.replace("- ", "-"))]


def parse_Z_lists(out):
    """All `= [...] : list Z` values printed, in order."""
    res = []
    for body in re.findall(r"=\s*(\[.*?\]|nil)\s*:\s*list Z", out, re.S):
        res.append([int(x) for x in re.findall(r"-?\d+", body.replace("- ", "-"))])
    return res
