"""C14: saved states reload identically; result dumps survive a crash."""
import json
import os
import sys

import common
sys.path.insert(0, os.path.join(common.VERIF, "tx"))
import dumpproto as txproto
import dumpkeys as txkeys

IMPL_SUFFIXES = [".npz", ".npz.bak", ".tmp.npz", "_mps.npz"]       # what harness/impl/c14_fault.py observes
NSTEPS = 3
NSHARD = 14

COQ_HDR = ("From Coq Require Import List ZArith.\nImport ListNotations.\n"
           "From RV Require Import Model.DumpProto Gen.DumpProto.\nOpen Scope Z_scope.\n"
           "Fixpoint lens (proto : list op) (st : hstate) (h : list attempt) : list Z :=\n"
           "  match h with [] => [] | a :: h' => Z.of_nat (length (fst (crun (h_next st) proto (h_fs st)))) :: lens proto (step_attempt proto st a) h' end.\n"
           "Fixpoint after_procs (proto : list op) (st : hstate) (procs : list (list Z)) : list Z :=\n"
           "  match procs with [] => [] | p :: ps =>\n"
           "    let h := map decode_attempt p in let st' := run_history proto h st in\n"
           "    map cell_code (h_fs st') ++ [-7] ++ lens proto st h ++ [-8] ++ after_procs proto st' ps end.\n")


def zlist(xs):
    return "[" + "; ".join(("(%d)" % x) if x < 0 else str(x) for x in xs) + "]"


def fault_file(text):
    src = open(os.path.join(common.VERIF, "harness", "impl", "c14_fault.py")).read()
    return "_EMBEDDED = True\n" + src + "\n" + text


def split_on(xs, sep):
    out, cur = [], []
    for x in xs:
        if x == sep:
            out.append(cur)
            cur = []
        else:
            cur.append(x)
    return out


def procs_of_history(h):
    """flat attempt codes -> processes (a process ends with its killed attempt)"""
    procs, cur = [], []
    for a in h:
        cur.append(a)
        if a >= 0:
            procs.append(cur)
            cur = []
    if cur:
        procs.append(cur)
    return procs


def gen_roundtrip_cases(rng, n):
    cases = []
    # a gauge program keeps canonicalise's precondition (qnidx at the end the sweep starts from): full sweeps first,
    # then at most one partial sweep / label move, then at most one bare flip of the direction flag
    gauges = [[], ["cano"], ["cano", "cano"], ["left"], ["right"], ["left", "cano"]]
    for i in range(n):
        kind = ["mps", "mps", "mpdm", "ttns", "mpo"][i % 5] if i >= 20 else ["mps", "mpdm", "ttns", "mpo"][i % 4]
        nq = 1 + (rng.random() < 0.4)
        nsites = rng.choice([3, 4, 4, 5, 6]) if kind != "mpdm" else rng.choice([3, 4])
        g = list(rng.choice(gauges))
        r = rng.random()
        if kind in ("mps", "mpdm", "mpo"):
            if r < 0.35:
                g.append(["stop", rng.randrange(nsites)])
            elif r < 0.7:
                g.append(["move", rng.randrange(nsites)])
            if rng.random() < 0.2:
                g.append("flip")
        else:
            g = rng.choice([[], ["cano"], ["compress"], ["cano", "compress"]])
        legacy = None
        if kind == "mps" and rng.random() < 0.2:
            legacy = rng.choice(["0.1", "0.2", "0.3"])
        cases.append({"id": i, "kind": kind, "nq": nq, "nsites": nsites, "cplx": rng.random() < 0.5, "default_coeff": rng.random() < 0.15,
                      "m_max": rng.choice([4, 5, 6, 8]) if nq == 2 else rng.choice([1, 2, 3, 5, 8]),
                      "gauge": g, "coeff": [round(rng.uniform(-2, 2), 3) or 1.0, round(rng.uniform(-2, 2), 3)],
                      "spill": kind != "ttns" and rng.random() < 0.2, "tree": rng.choice(["linear", "binary", "ternary"]),
                      "legacy": legacy, "seed": rng.randrange(1 << 30)})
    return cases


def via_file(ctx, script, payloads, timeout, par):
    """impl_par with the results passed through files (common.impl_par reads the stdout pipe only after exit,
    so a child printing more than the pipe buffer would block)"""
    import tempfile
    import shutil
    d = tempfile.mkdtemp(prefix="c14out_")
    try:
        for i, pl in enumerate(payloads):
            pl["out"] = os.path.join(d, "r%d.json" % i)
        res = ctx.impl_par(script, payloads, timeout=timeout, par=par)
        out = []
        for rc, r, txt in res:
            if r is not None and "file" in r:
                try:
                    r = json.load(open(r["file"]))
                except Exception as e:
                    r, txt = None, "result file unreadable: %r" % (e,)
            out.append((rc, r, txt))
        return out
    finally:
        shutil.rmtree(d, ignore_errors=True)


def run(ctx):
    import time
    t0 = time.time()
    phases = {}
    quick = ctx.tier == "quick"
    ctx.trusted += ["translators tx/dumpproto.py and tx/dumpkeys.py (python ast -> op list / key families; fail-closed)",
                    "fault-injection harness harness/impl/c14_fault.py (wraps os.makedirs/remove/rename/replace and np.savez inside dump_dict; os._exit; truncated-file writer; np.load / Mps.load inspection)",
                    "round-trip harness harness/impl/c14_roundtrip.py",
                    "modelled, not verified: POSIX atomicity of rename/replace, durability without fsync, np.savez = truncating open + write + close (two atomic actions), os.makedirs has no effect on file cells, "
                    "the mps files of dump_mps='all' folded into one path"]
    ctx.assumptions += ["POSIX semantics of os.rename/os.replace (atomic; silently replace the destination)",
                        "a killed process leaves exactly the prefix of completed file-system actions (no reordering, no lost writes)"]
    # ------------------------------------------------------------------ 1. translators
    pinfo = kinfo = None
    ptx_err = []
    ktx_err = []
    try:
        text, pinfo = txproto.main(common.REPO)
        ctx.regen(txproto.TARGET, text)
    except Exception as e:
        ptx_err.append("tx/dumpproto.py: %r" % (e,))
    try:
        text, kinfo = txkeys.main(common.REPO)
        ctx.regen(txkeys.TARGET, text)
    except Exception as e:
        ktx_err.append("tx/dumpkeys.py: %r" % (e,))
    tx_err = ptx_err + ktx_err
    for e in tx_err:
        ctx.notes.append("translator failed: " + e)
    # ------------------------------------------------------------------ 2. Coq
    ok_gen = ok_build = ok_props = False
    log = ""
    if not ptx_err:
        ok_gen, log = ctx.coq_make(["Gen/DumpProto.vo"])      # enough for the model's predictions
    if not tx_err and ok_gen:
        ok_gen2, log = ctx.coq_make(["Gen/DumpKeys.vo"])
        if ok_gen2:
            ok_build, log = ctx.coq_make(["Proofs/DumpProtoProofs.vo"])
            if ok_build:
                ok_props, log = ctx.props("Props/C14.v")
                if ok_props:
                    # limitation lemmas (what is NOT guaranteed): not obligations of the property
                    nob = len(ctx.obligations)
                    ok_lim, llog = ctx.props("Props/C14Limits.v")
                    if not ok_lim:
                        del ctx.obligations[nob:]
                        ctx.notes.append("Props/C14Limits.v (limitation lemmas: side file can be left partial; Mpo reload not established) no longer "
                                         "compiles -- the source may have improved; not counted: " + llog[-300:])
    if not ok_props and not any(o["file"] == "Props/C14.v" for o in ctx.obligations):
        ctx.obligations.append({"name": "C14 (translators + build of Gen/DumpProto.v, Gen/DumpKeys.v, Proofs/DumpProtoProofs.v)",
                                "file": "Proofs/DumpProtoProofs.v", "ok": False, "assumptions": None})
    # which of the generated booleans fail, and a failing history from the model
    model_bad = []          # (config, history as flat attempt codes)
    keys_bad = []
    fields_bad = []
    if ok_gen and not ok_props and not tx_err:
        txt = ("From Coq Require Import List ZArith String.\nImport ListNotations.\nFrom RV Require Import Model.DumpProto Gen.DumpProto Gen.DumpKeys.\n"
               "Definition first_some (l : list (option (list attempt))) := match filter (fun x => match x with Some _ => true | None => false end) l with x :: _ => x | [] => None end.\n"
               "Eval vm_compute in ((flat_map (fun np => ([if check_safe (snd np) npaths watched then 1%Z else 0%Z; if check_noraise (snd np) npaths then 1%Z else 0%Z] ++\n"
               "   match first_some (map (fun d => find_unsafe d (snd np) watched (init_state npaths)) [1;2;3;4]) with Some h => map attempt_code h | None => [(-5)%Z] end ++ [(-9)%Z])%list) protocols\n"
               "   ++ map (fun k => if kind_ok k then 1%Z else 0%Z) kinds\n"
               "   ++ map (fun k => if maps_ok (snd (fst (fst k))) (snd (fst k)) (snd k) then 1%Z else 0%Z) field_kinds\n"
               "   ++ map (fun s => if check_post_inv (snd (fst s)) npaths (snd s) (reach (snd (fst s)) npaths) then 1%Z else 0%Z) side_files)%list).\n")
        rc, out = ctx.coq_eval("diagnose", txt)
        flat = common.parse_Z_list(out) if rc == 0 else None
        if flat is not None and pinfo is not None:
            per = split_on(flat, -9)
            nside = sum(1 for k_ in pinfo["protocols"] if k_ != "None")
            tailn = len(kinfo["pairs"]) + 3 + nside if kinfo else 0
            rest = flat[len(flat) - tailn:] if kinfo else []
            for nm_, v in zip(["Mps", "MpDm", "TTNS"], rest[len(kinfo["pairs"]):len(kinfo["pairs"]) + 3] if kinfo else []):
                if v == 0:
                    fields_bad.append(nm_)
            if kinfo and 0 in rest[len(kinfo["pairs"]) + 3:]:
                fields_bad.append("side-file post-condition")
            for (name, _), vals in zip(pinfo["protocols"].items(), per):
                if len(vals) >= 2 and (vals[0] == 0 or vals[1] == 0):
                    h = [v for v in vals[2:]]
                    model_bad.append({"config": name, "check_safe": bool(vals[0]), "check_noraise": bool(vals[1]),
                                      "model_history": None if h == [-5] else h})
            for pr, v in zip(kinfo["pairs"] if kinfo else [], rest):
                if v == 0:
                    keys_bad.append(pr["kind"])
    phases["coq"] = round(time.time() - t0, 1)
    # ------------------------------------------------------------------ 3. fault injection on the real code (independent of the model)
    # (dump_mps, number of processes = 1 + restarts, steps per job)
    plans = [(None, 2, NSTEPS), ("one", 2, 2), ("all", 1, NSTEPS)] if quick else [(None, 3, NSTEPS), ("one", 2, NSTEPS), ("all", 2, NSTEPS)]
    payloads = []
    for cfg, lev, nst in plans:
        for i in range(NSHARD):
            payloads.append({"mode": "explore", "dump_mps": cfg, "levels": lev, "nsteps": nst, "shard": [i, NSHARD]})
    res = via_file(ctx, "c14_fault.py", payloads, 1400 if not quick else 600, NSHARD)
    fault_cases = {}      # cfg name -> list of cases
    fault_problems = []
    for pl, (rc, r, out) in zip(payloads, res):
        name = "None" if pl["dump_mps"] is None else pl["dump_mps"]
        if r is None:
            fault_problems.append({"what": "fault-injection script failed", "config": name, "out": (out or "")[-800:]})
            continue
        fault_cases.setdefault(name, []).extend(r["cases"])
    unsafe_impl = []
    for name, cs in fault_cases.items():
        for c in cs:
            if c.get("problem") or c.get("err"):
                fault_problems.append({"what": c.get("problem") or "child error", "config": name, "procs": c["procs"], "err": (c.get("err") or "")[-600:]})
            elif not c["safe"]:
                unsafe_impl.append({"config": name, "procs": c["procs"], "obs": c["obs"]})
    # model histories that the implementation search did not reach: replay them
    for mb in model_bad:
        if mb["model_history"]:
            procs = procs_of_history(mb["model_history"])
            cfg = None if mb["config"] == "None" else mb["config"]
            rc, r, out = ctx.impl("c14_fault.py", {"mode": "replay", "dump_mps": cfg, "procs": procs, "nsteps": NSTEPS})
            mb["impl_replay"] = r
            if r is not None and not r["safe"] and not any(u["procs"] == procs and u["config"] == mb["config"] for u in unsafe_impl):
                unsafe_impl.append({"config": mb["config"], "procs": procs, "obs": r["obs"]})
    phases["fault_injection"] = round(time.time() - t0, 1)
    # ------------------------------------------------------------------ 4. model predictions for the same histories
    corr_bad = []
    n_fault = sum(len(v) for v in fault_cases.values())
    n_cmp = 0
    n_killed = n_inside = 0
    samples = []
    if ok_gen and pinfo is not None:
        idx = {s: i for i, s in enumerate(pinfo["paths"])}
        common_suf = [s for s in IMPL_SUFFIXES if s in idx]
        items = []
        index = {}
        for name, cs in fault_cases.items():
            cs = [c for c in cs if not c.get("problem")]
            for k in range(0, len(cs), 400):
                shard = cs[k:k + 400]
                nm = "pred_%s_%d" % (name.lower(), k // 400)
                txt = COQ_HDR + "Definition cases : list (list (list Z)) := [\n  " + ";\n  ".join(
                    "[" + "; ".join(zlist(p) for p in c["procs"]) + "]" for c in shard) + "].\n" + \
                    "Eval vm_compute in (flat_map (fun c => after_procs proto_%s (init_state npaths) c ++ [-9]) cases).\n" % name.lower()
                items.append((nm, txt))
                index[nm] = (name, shard)
        outs = ctx.coq_eval_many(items, timeout=900)
        for nm, (name, shard) in index.items():
            rc, out = outs.get(nm, (1, ""))
            flat = common.parse_Z_list(out) if rc == 0 else None
            per_case = split_on(flat, -9) if flat is not None else None
            if per_case is None or len(per_case) != len(shard):
                corr_bad.append({"what": "model evaluation failed", "file": nm, "out": (out or "")[-500:]})
                continue
            for c, vals in zip(shard, per_case):
                per_proc = split_on(vals, -8)
                if len(per_proc) != len(c["procs"]):
                    corr_bad.append({"what": "model output shape", "procs": c["procs"]})
                    continue
                for ip, (codes, pv) in enumerate(zip(c["procs"], per_proc)):
                    cells, lens_ = split_on(pv + [-7], -7)[:2]
                    pred = [cells[idx[s]] for s in common_suf]
                    obs = [c["obs"][ip][IMPL_SUFFIXES.index(s)] for s in common_suf]
                    if name == "all":              # the per-step mps files are not observed
                        pass
                    n_cmp += 1
                    if pred != obs:
                        corr_bad.append({"what": "file states differ", "config": name, "procs": c["procs"], "after_process": ip,
                                         "files": common_suf, "model": pred, "implementation": obs})
                    cnt = c["counts"][ip]
                    want = [min(a, L) if a >= 0 else L for a, L in zip(codes, lens_)]
                    if len(cnt) != len(codes) or list(cnt) != want:
                        corr_bad.append({"what": "number of atomic actions differ", "config": name, "procs": c["procs"], "after_process": ip,
                                         "model": want, "implementation": cnt})
                    exp_exit = 77 if any(a >= 0 for a in codes) else 0
                    if c["exit"][ip] != exp_exit:
                        corr_bad.append({"what": "child exit code", "config": name, "procs": c["procs"], "exit": c["exit"]})
                    if any(a >= 0 for a in codes):
                        n_killed += 1
                        if -2 in c["obs"][ip]:
                            n_inside += 1
                if len(samples) < 2 and any(-2 in o for o in c["obs"]):
                    samples.append({"config": name, "procs": c["procs"], "observed": c["obs"], "files": IMPL_SUFFIXES})
    phases["model_predictions"] = round(time.time() - t0, 1)
    # ------------------------------------------------------------------ 5. round trips
    ncase = 160 if quick else 1600
    cases = gen_roundtrip_cases(ctx.rng, ncase)
    shards = [cases[i::NSHARD] for i in range(NSHARD)]
    rres = via_file(ctx, "c14_roundtrip.py", [{"cases": s_} for s_ in shards], 1400, NSHARD)
    rt_bad = []
    seq_steps = 0
    type_diffs = {}
    container_bad = []
    # python mirror of Model/DumpProto.v: scalar_container / loaded_containers, from the generated load maps
    CONT = {"CInt": {"pyscalar"}, "CBool": {"pyscalar"}, "CItem0": {"pyscalar"}, "CLast": {"pyscalar", "npscalar"},
            "CNone": {"ndarray", "ndarray0d"}, "CAstypeInt": {"ndarray", "ndarray0d"}, "CAstypeIntTolist": {"list"}}
    predicted_containers = {}
    if kinfo is not None:
        for nm_, fm_ in kinfo["fieldmaps"].items():
            pc = {}
            for e_ in fm_["load"] or []:
                if e_[0] == "LScalar":
                    pc[e_[1]] = CONT[e_[3]]
                elif e_[0] == "LLabelList":
                    pc["qn"] = {"objarray"}
                elif e_[0] == "LLabelFam" and nm_ != "ttns":
                    pc["qn"] = {"list"}
            predicted_containers[nm_] = pc
    rt_n = rt_nontriv = 0
    rt_hist = {}
    mpo_soft = {}
    skipped_ops = {}
    by_id = {c["id"]: c for c in cases}
    for (rc, r, out) in rres:
        if r is None:
            rt_bad.append({"what": "round-trip script failed", "out": (out or "")[-800:]})
            continue
        for x in r["results"]:
            rt_n += 1
            c = by_id[x["id"]]
            key = "%s/nq%d/%s%s%s" % (c["kind"], c["nq"], "complex" if c["cplx"] else "real", "/spill" if c["spill"] else "", "/legacy" + c["legacy"] if c["legacy"] else "")
            rt_hist[key] = rt_hist.get(key, 0) + 1
            bd = x["info"].get("bond_dims") or [1]
            if max(bd) >= 2:
                rt_nontriv += 1
            for s_ in x["info"].get("mpo_later_ops_failed", []):
                mpo_soft[s_[:90]] = mpo_soft.get(s_[:90], 0) + 1
            for s_ in x["info"].get("skipped_ops", []):
                skipped_ops[s_] = skipped_ops.get(s_, 0) + 1
            seq_steps += x["info"].get("sequence_steps", 0)
            tl, to_ = x["info"].get("types_loaded"), x["info"].get("types_original")
            if tl and to_:
                for f_ in tl:
                    if tl[f_] != to_.get(f_):
                        kk = "%s.%s: %s -> %s" % (c["kind"], f_, to_.get(f_), tl[f_])
                        type_diffs[kk] = type_diffs.get(kk, 0) + 1
                fmk = {"mps": "mps", "mpdm": "mps", "ttns": "ttns", "mpo": "mpo"}[c["kind"]]
                for f_, want in predicted_containers.get(fmk, {}).items():
                    got = (tl.get(f_) or "").split(":")[0]
                    if got and got not in want:
                        container_bad.append({"kind": c["kind"], "field": f_, "generated_fact": sorted(want), "observed": got, "legacy": c.get("legacy")})
            if not x["ok"]:
                if x["mismatch"] and x["mismatch"][0].startswith("case raised FloatingPointError"):
                    rt_hist["generator rejected (Mps.random 0/0)"] = rt_hist.get("generator rejected (Mps.random 0/0)", 0) + 1
                    continue
                rt_bad.append({"case": c, "mismatch": x["mismatch"], "info": x["info"]})
            elif len(samples) < 3:
                samples.append({"roundtrip_case": c, "info": x["info"]})
    if type_diffs:
        ctx.notes.append("container kinds that differ between the dumped and the reloaded object (values equal; recorded because later behaviour can depend on them): %s" % json.dumps(type_diffs))
    if mpo_soft:
        ctx.notes.append("Mpo (not an object kind of the property text): reloaded operator's fields match but later operations fail: %s" % json.dumps(mpo_soft))
    if skipped_ops:
        ctx.notes.append("further operations not applicable to the ORIGINAL object (skipped, not a round-trip matter): %s" % json.dumps(skipped_ops))
    if kinfo is not None and any(kinfo["swallow"].values()):
        ctx.notes.append("MatrixProduct.dump / TTNBase.dump swallow every exception of np.savez (the round-trip harness treats a missing file as a failed round trip; none occurred)")
    phases["roundtrips"] = round(time.time() - t0, 1)
    # ------------------------------------------------------------------ 5b. spill correspondence (hand model of _array2mt/__setitem__/__getitem__)
    sp_bad = []
    sp_n = 0
    nprog = 40 if quick else 300
    progs = []
    for _ in range(nprog):
        n_ = ctx.rng.choice([2, 3, 4, 5])
        limit = ctx.rng.choice([64, 100, 200, 400])
        ops = []
        for k_ in range(ctx.rng.randrange(4, 14)):
            a_, b_ = ctx.rng.choice([1, 1, 2, 3, 5, 7]), ctx.rng.choice([1, 1, 2, 3, 5, 7])
            ops.append([ctx.rng.randrange(n_), k_ + 1, a_, b_])
        progs.append({"n": n_, "limit": limit, "ops": ops})
    rc, r, out = ctx.impl("c14_spill.py", {"programs": progs}, timeout=600)
    if r is None:
        sp_bad.append({"what": "spill script failed", "out": (out or "")[-600:]})
    elif ok_gen:
        txt = ("From Coq Require Import List ZArith.\nImport ListNotations.\nFrom RV Require Import Model.DumpProto.\nOpen Scope Z_scope.\n"
               "Definition nb (p : nat * nat) : nat := snd p.\n"
               "Fixpoint runp (limit : nat) (ops : list (nat * nat * nat)) (st : sstate (nat * nat)) : list Z :=\n"
               "  match ops with [] => [] | (k, id, sz) :: r =>\n"
               "    let st' := setitem nb limit k (id, sz) st in\n"
               "    (map Z.of_nat (files_on_disk st') ++ [-7] ++ map (fun j => match getitem j st' with Some p => Z.of_nat (fst p) | None => -3 end) (seq 0 (length (s_slots st'))) ++ [-8] ++ runp limit r st')%list end.\n"
               "Definition init (n : nat) : sstate (nat * nat) := mk_sstate (map (fun j => InMem (1000 + j, 16)%nat) (seq 0 n)) (fun _ => None).\n"
               "Definition progs : list (nat * nat * list (nat * nat * nat)) := [\n  " +
               ";\n  ".join("(%d, %d, [%s])%%nat" % (p_["n"], p_["limit"], "; ".join("(%d, %d, %d)" % (o[0], o[1], o[2] * 2 * o[3] * 8) for o in p_["ops"])) for p_ in progs) +
               "].\nEval vm_compute in (flat_map (fun p => runp (snd (fst p)) (snd p) (init (fst (fst p))) ++ [-9])%list progs).\n")
        rc2, out2 = ctx.coq_eval("spill", txt)
        flat = common.parse_Z_list(out2) if rc2 == 0 else None
        per = split_on(flat, -9) if flat is not None else None
        if per is None or len(per) != len(progs):
            sp_bad.append({"what": "spill model evaluation failed", "out": (out2 or "")[-600:]})
        else:
            for p_, run_, vals in zip(progs, r["runs"], per):
                if run_["err"]:
                    sp_bad.append({"what": "implementation raised", "program": p_, "err": run_["err"]})
                    continue
                steps = split_on(vals, -8)
                for o, st_, mv in zip(p_["ops"], run_["steps"], steps):
                    files, ids = split_on(mv + [-7], -7)[:2]
                    sp_n += 1
                    if files != st_["files"] or ids != st_["ids"]:
                        sp_bad.append({"what": "spill state differs", "program": p_, "after_op": o, "model": {"files": files, "ids": ids},
                                       "implementation": {"files": st_["files"], "ids": st_["ids"]}})
                        break
    phases["spill"] = round(time.time() - t0, 1)
    ctx.notes.append("cumulative wall time per phase (s): %s" % json.dumps(phases))
    # ------------------------------------------------------------------ 6. verdicts
    if unsafe_impl:
        u = min(unsafe_impl, key=lambda x: (len(x["procs"]), sum(len(p) for p in x["procs"])))
        cfg = None if u["config"] == "None" else u["config"]
        repro = fault_file("sys.exit(replay(%r, %r, %d))\n" % (cfg, u["procs"], NSTEPS))
        broken = []
        if ptx_err:
            broken.append("translator " + "; ".join(ptx_err))
        broken.append("theorem C14_restart_safe / C14_single_run_safe / C14_dump_never_raises (Props/C14.v; lemma protocols_checked) on the generated protocol" if model_bad or not ok_props
                      else "fault injection only (the model did not predict this)")
        ctx.violation("dump_dict-crash-restart", "; ".join(broken),
                      {"history": u["procs"], "history_format": "one list per process; -1 = dump_dict not killed, c = process dies when c atomic actions of that call are done (np.savez = 2 actions)",
                       "dump_mps": u["config"], "observed_after_each_process": u["obs"], "files": IMPL_SUFFIXES,
                       "cell_codes": "-1 absent, -2 present but not loadable, k = complete result of dump k",
                       "model": model_bad, "unsafe_histories_found": len(unsafe_impl), "coq_log_tail": log[-800:] if isinstance(log, str) else ""},
                      found=True, repro=repro)
    elif ptx_err or model_bad or (not ok_props and not keys_bad and not fields_bad and not ktx_err):
        ctx.violation("dump_dict-protocol", "; ".join((["translator " + e for e in ptx_err]) or ["theorems of Props/C14.v on the generated protocol"]),
                      {"model": model_bad, "coq_log_tail": log[-1500:] if isinstance(log, str) else "",
                       "fault_injection": "no unsafe history among %d executed" % n_fault}, found=False)
    if corr_bad or fault_problems:
        ctx.violation("dump_dict-correspondence", "correspondence model vs fault injection",
                      {"mismatches": corr_bad[:8], "n_mismatch": len(corr_bad), "problems": fault_problems[:5]}, found=False)
    if rt_bad:
        first = rt_bad[0]
        repro = None
        if "case" in first:
            src = open(os.path.join(common.VERIF, "harness", "impl", "c14_roundtrip.py")).read().replace('if __name__ == "__main__":\n    main()', "")
            repro = src + "\ncase = json.loads(%r)\ntmp = tempfile.mkdtemp()\nmism, info = (run_tree if case['kind'] == 'ttns' else run_chain)(case, tmp)\nprint(mism, info)\nsys.exit(1 if mism else 0)\n" % json.dumps(first["case"])
        ctx.violation("state-roundtrip-%s" % (first.get("case", {}).get("kind", "script")),
                      "correspondence dump/load round trip" + ("; theorem C14_keys_cover (kinds: %s)" % ",".join(keys_bad) if keys_bad else "")
                      + ("; theorem C14_fields_roundtrip (kinds: %s)" % ",".join(fields_bad) if fields_bad else "")
                      + ("; translator " + "; ".join(ktx_err) if ktx_err else ""),
                      {"failures": rt_bad[:5], "n_failures": len(rt_bad)}, found=repro is not None, repro=repro)
    elif keys_bad or fields_bad or ktx_err:
        ctx.violation("state-dump-keys", "theorem C14_keys_cover / C14_fields_roundtrip / C14_side_file_current_after_return" + ("; translator " + "; ".join(ktx_err) if ktx_err else ""),
                      {"kinds": keys_bad, "field_kinds": fields_bad, "translator": ktx_err, "coq_log_tail": log[-800:] if isinstance(log, str) else ""}, found=False)
    container_bad = [b for b in container_bad if not b.get("legacy")]
    if container_bad:
        ctx.violation("state-container-kinds", "correspondence: container kind of a reloaded field vs the generated fact loaded_containers (Gen/DumpKeys.v load maps)",
                      {"mismatches": container_bad[:6], "n": len(container_bad)}, found=False)
    if sp_bad:
        first = next((b for b in sp_bad if b.get("what") == "spill state differs"), None)
        repro = None
        if first is not None:
            src = open(os.path.join(common.VERIF, "harness", "impl", "c14_spill.py")).read().replace('if __name__ == "__main__":\n    main()', "")
            k_ = first["program"]["ops"].index(first["after_op"])
            repro = src + ("\nprog = json.loads(%r)\ntmp = tempfile.mkdtemp()\nst = run(prog, tmp)[%d]\nshutil.rmtree(tmp, ignore_errors=True)\n"
                           "print('after store', prog['ops'][%d], 'files on disk', st['files'], 'ids read back', st['ids'], '; expected', %r, %r)\n"
                           "sys.exit(0 if (st['files'], st['ids']) == (%r, %r) else 1)\n") % (
                json.dumps(first["program"]), k_, k_, first["model"]["files"], first["model"]["ids"], first["model"]["files"], first["model"]["ids"])
        ctx.violation("spill-correspondence", "correspondence spill model (C14_spill_* are about Model/DumpProto.v: setitem/getitem) vs MatrixProduct.__setitem__/__getitem__/_array2mt",
                      {"mismatches": sp_bad[:5], "n": len(sp_bad)}, found=repro is not None, repro=repro)
    dist = {"fault_histories": {k: len(v) for k, v in fault_cases.items()}, "process_end_states_compared": n_cmp,
            "processes_killed": n_killed, "spill_store_steps_compared": sp_n, "roundtrip_sequence_steps_run_on_both_objects": seq_steps, "killed_leaving_an_unloadable_file": n_inside, "roundtrip": rt_hist}
    return {"evaluations": n_cmp + rt_n + sp_n,   # unit: process end states compared + round-trip cases + spill store steps
            "distinct_nontrivial": n_killed + rt_nontriv,
            "rule": "fault injection: every process-level history with every crash point of every step (crash points = action counts the real code produced; np.savez counts 2), "
                    "%s; a process end state is non-trivial when the process was killed. Round trips: a case is non-trivial when some bond dimension >= 2. Spill: every store step of random programs compared with the model (files on disk, tensor read back per site)" % (
                        ", ".join("dump_mps=%s: %d process(es) of %d-step jobs" % (c, l, n) for c, l, n in plans)),
            "samples": samples[:3], "exhaustive": True, "input_distribution": dist}
