"""Minimal stand-in for the third-party `print_tree` package (absent offline).
Only what renormalizer.tn needs: a base class whose constructor walks the tree."""


class print_tree:
    def __init__(self, root, *args, **kwargs):
        self.rows = []
        self._walk(root, 0)

    def get_children(self, node):
        raise NotImplementedError

    def get_node_str(self, node):
        return str(node)

    def _walk(self, node, depth):
        self.rows.append("  " * depth + self.get_node_str(node))
        for c in self.get_children(node):
            self._walk(c, depth + 1)
