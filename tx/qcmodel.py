"""Translator: the loop skeletons of renormalizer/model/h_qc.py:qc_model  ->  coq/Gen/QcLoops.v   (fail-closed)

Rendered: which first indices p the stacked branch visits (its iteration domain), under which condition on the numbers of
one- and two-electron entries of p a sub-list is emitted at all (`continue` guards), and the guards around the two inner
loops.  The flat branch must be the two plain loops over pairs1 / pairs2.  Anything else raises TranslateError."""
import ast
import sys

TARGET = "Gen/QcLoops.v"


class TranslateError(Exception):
    pass


def find_func(tree, name):
    for n in tree.body:
        if isinstance(n, ast.FunctionDef) and n.name == name:
            return n
    raise TranslateError("function %s not found" % name)


def u(n):
    return ast.unparse(n)


def size_test(t):
    """condition on q_values.size / qrs_values.size -> Coq bool in nq nqrs"""
    if isinstance(t, ast.BoolOp):
        op = "&&" if isinstance(t.op, ast.And) else "||"
        return "(" + (" %s " % op).join(size_test(v) for v in t.values) + ")"
    if isinstance(t, ast.UnaryOp) and isinstance(t.op, ast.Not):
        return "(negb %s)" % size_test(t.operand)
    if isinstance(t, ast.Compare) and len(t.ops) == 1 and isinstance(t.comparators[0], ast.Constant) and isinstance(t.comparators[0].value, int):
        var = {"q_values.size": "nq", "qrs_values.size": "nqrs"}.get(u(t.left))
        k = t.comparators[0].value
        if var is None or k < 0:
            raise TranslateError("size test %s" % u(t))
        if isinstance(t.ops[0], ast.Gt):
            return "(Nat.ltb %d %s)" % (k, var)
        if isinstance(t.ops[0], ast.Eq):
            return "(Nat.eqb %s %d)" % (var, k)
        if isinstance(t.ops[0], ast.NotEq):
            return "(negb (Nat.eqb %s %d))" % (var, k)
        if isinstance(t.ops[0], ast.GtE):
            return "(Nat.leb %d %s)" % (k, var)
    raise TranslateError("size test %s" % u(t))


def main(repo="/repo"):
    tree = ast.parse(open(repo + "/renormalizer/model/h_qc.py").read())
    fn = find_func(tree, "qc_model")
    src = [u(s) for s in fn.body]
    for need in ("norbs = h1e.shape[0]", "ham_terms = []", "pairs1 = np.argwhere(h1e != 0)", "pairs2 = np.argwhere(h2e != 0)"):
        if need not in src:
            raise TranslateError("qc_model: missing `%s`" % need)
    br = [s for s in fn.body if isinstance(s, ast.If) and u(s.test) == "stacked is False"]
    if len(br) != 1:
        raise TranslateError("qc_model: flat/stacked branch")
    flat, stacked = br[0].body, br[0].orelse
    # ---- flat branch
    exp1 = "for p, q in pairs1:\n    op = process_op(a_dag_ops[p] * a_ops[q])\n    ham_terms.append(op * h1e[p, q])"
    exp2 = ("for p, q, r, s in pairs2:\n    op = process_op(Op.product([a_dag_ops[p], a_dag_ops[q], a_ops[r], a_ops[s]]))\n"
            "    ham_terms.append(op * h2e[p, q, r, s])")
    flat = [s for s in flat if not (isinstance(s, ast.Expr) and isinstance(s.value, ast.Constant))]
    if [u(s) for s in flat] != [exp1, exp2]:
        raise TranslateError("qc_model: flat branch is not the two plain loops")
    # ---- stacked branch: prologue defining the iteration domain, then one loop
    stacked = [s for s in stacked if not (isinstance(s, ast.Expr) and isinstance(s.value, ast.Constant))]
    loops = [s for s in stacked if isinstance(s, ast.For)]
    if len(loops) != 1 or stacked[-1] is not loops[0] or u(loops[0].target) != "p" or loops[0].orelse:
        raise TranslateError("qc_model: stacked branch loop")
    pro = [u(s) for s in stacked[:-1]]
    it = u(loops[0].iter)
    if it == "ps" and pro == ["p_1e = np.unique(pairs1[:, 0])", "p_2e = np.unique(pairs2[:, 0])", "ps = set(p_1e).union(p_2e)"]:
        domain = "nodup Nat.eq_dec (firsts1 ++ firsts2)"
        dom_doc = "set(unique first indices of pairs1) | unique first indices of pairs2"
    elif it == "range(norbs)" and pro == []:
        domain = "seq 0 norbs"
        dom_doc = "range(norbs)"
    else:
        raise TranslateError("qc_model: stacked iteration domain `%s` after %s" % (it, pro))
    body = [s for s in loops[0].body if not (isinstance(s, ast.Expr) and isinstance(s.value, ast.Constant))]
    if len(body) < 5 or [u(s) for s in body[:3]] != ["local_ham_terms = []", "q_values = pairs1[pairs1[:, 0] == p][:, 1]",
                                                    "qrs_values = pairs2[pairs2[:, 0] == p][:, 1:]"]:
        raise TranslateError("qc_model: stacked loop prologue")
    if u(body[-1]) != "ham_terms.append(local_ham_terms)":
        raise TranslateError("qc_model: stacked loop must end with ham_terms.append(local_ham_terms)")
    mid = body[3:-1]
    skips = []
    while mid and isinstance(mid[0], ast.If) and [u(x) for x in mid[0].body] == ["continue"] and not mid[0].orelse:
        skips.append(size_test(mid[0].test))
        mid = mid[1:]
    inner1 = "for q in q_values:\n    op = process_op(a_dag_ops[p] * a_ops[q])\n    local_ham_terms.append(op * h1e[p, q])"
    inner2 = ("for q, r, s in qrs_values:\n    op = process_op(Op.product([a_dag_ops[p], a_dag_ops[q], a_ops[r], a_ops[s]]))\n"
              "    local_ham_terms.append(op * h2e[p, q, r, s])")
    if len(mid) != 2 or not all(isinstance(s, ast.If) and not s.orelse and len(s.body) == 1 for s in mid):
        raise TranslateError("qc_model: stacked loop body")
    if u(mid[0].body[0]) != inner1 or u(mid[1].body[0]) != inner2:
        raise TranslateError("qc_model: stacked inner loops")
    g1, g2 = size_test(mid[0].test), size_test(mid[1].test)
    emitted = "true" if not skips else "negb (%s)" % " || ".join(skips)
    o = ["(* GENERATED by tx/qcmodel.py from renormalizer/model/h_qc.py:qc_model (loop skeletons) -- do not edit *)",
         "From Coq Require Import List Arith Bool.", "Import ListNotations.", "",
         "(* flat branch: for (p,q) in pairs1: term ; for (p,q,r,s) in pairs2: term   (checked shape, nothing to render) *)",
         "(* stacked branch: for p in %s *)" % dom_doc,
         "Definition stacked_domain (norbs : nat) (firsts1 firsts2 : list nat) : list nat := %s." % domain,
         "(* a sub-list for p is appended unless a `continue` guard fires; nq = number of pairs1 rows starting with p, nqrs likewise for pairs2 *)",
         "Definition stacked_group_emitted (nq nqrs : nat) : bool := %s." % emitted,
         "Definition stacked_one_guard (nq nqrs : nat) : bool := %s." % g1,
         "Definition stacked_two_guard (nq nqrs : nat) : bool := %s." % g2, ""]
    return "\n".join(o), {"domain": dom_doc, "emitted": emitted}


if __name__ == "__main__":
    sys.stdout.write(main(sys.argv[1] if len(sys.argv) > 1 else "/repo")[0])
