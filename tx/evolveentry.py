"""Translator: evolution entry points of /repo  ->  coq/Gen/EvolveEntry.v   (fail-closed)

Scans, with a small flow-sensitive abstract interpreter over the python `ast`,
  * every `_evolve_*` method, `evolve`, `evolve_exact` of `Mps` (mps/mps.py), the `adaptive_tdvp` wrapper,
    `MpDm.evolve_exact` (mps/mpdm.py),
  * `TTNS.evolve` (tn/tree.py) and every function registered in `EVOLVE_METHODS` (tn/time_evolution.py),
  * `compressed_sum` / `_sum` (mps/lib.py) and the `batchsize` of every `compressed_sum(` call in the package,
and records per function
  * the ENTRY KIND: how the object that is finally returned (the working state) is first obtained from the
    input (`self.copy()`, `self.to_complex()`, `self.metacopy()`, a derived object, plain alias `self`),
  * every WRITE TO THE INPUT: attribute / subscript stores and augmented assignments whose target is the
    input or reached through it, every known in-place method called on the input or on a name that may
    alias it at that program point, the input handed to an in-place helper, and every use the scanner does
    not understand (`escape`, which the Coq side rejects),
  * the alias status of the RETURN value.

Abstract values are sets of tags:  in (the input object), in0:<i> (the input iff loop index <i> is 0),
inlist / inlist0 (container that may hold the input / holds it at index 0 only), sub:<attr> (object reached
from the input through attribute <attr>), site (a site matrix / node of the input), copy, to_complex,
metacopy, derived, entry (result of another entry point), helper (result of an in-place helper),
entrydict, helpertable.

Anything outside the statement subset handled here raises TranslateError.
Limitations (also in notes/C13.md): buffer-level aliasing through locals (`q = self.qntot; q += 1`) is not
tracked (left to the observation harness); callee purity lists below are part of the trusted translator.
"""
import ast
import os
import sys


class TranslateError(Exception):
    pass


CONFIG_ATTRS = {"compress_config", "evolve_config", "optimize_config", "model", "basis"}
GAUGE = {"canonicalise", "ensure_left_canonical", "ensure_right_canonical"}
DESTRUCTIVE = {"compress", "normalize", "move_qnidx", "_switch_direction", "_push_cano", "_update_ms", "_update_mps",
               "build_empty_qn", "build_none_qn", "build_empty_mp", "try_swap_site", "update_2site",
               "push_cano_to_parent", "push_cano_to_child", "merge_to_parent", "merge_to_child", "compress_node",
               "decompose_to_parent", "decompose_to_child", "merge_with_parent_inplace", "append", "__setitem__",
               "expand_bond_dimension"}
INPLACE_KW = {"scale", "to_complex"}          # in place iff inplace=True
# methods of the input that neither write to it nor return it
PURE_FRESH = {"copy": "copy", "metacopy": "metacopy", "conj": "derived", "conj_trans": "derived",
              "evolve": "entry", "evolve_exact": "entry", "apply": "derived", "contract": "derived"}
PURE_FOLD = {"add", "distance"}               # Mps.add / Mps.distance fold the prefactors of both operands
PURE_SCALAR = {"todense", "dot", "dot_ob", "angle", "expectation", "expectations", "iter_idx_list", "_get_big_qn",
               "check_left_canonical", "check_right_canonical", "check_canonical", "check_shape", "is_canonical",
               "_get_sigmaqn", "_expectation_conj", "_expectation_path", "get_qnmask", "get_qnmat",
               "postorder_list", "calc_1site_rdm", "calc_2site_rdm", "calc_edof_rdm", "calc_entropy",
               "calc_bond_entropy", "calc_bond_singular_values", "get_node_indices", "to_contract_args",
               "merge_with_parent", "print_shape"}
SITE_PURE = {"copy", "conj", "ravel", "reshape", "to_complex", "any", "all", "l_combine", "r_combine",
             "check_lortho", "check_rortho", "norm", "abs", "nearly_zero", "transpose", "flatten", "sum", "min",
             "max", "conjugate", "item", "var"}
SUB_PURE = SITE_PURE | {"check_valid_dt", "compute_m_trunc", "get", "keys", "values", "items", "index", "format"}
# receivers that are not the input: methods that do not write to (or retain) an input passed as argument
ARG_PURE = {"contract": "derived", "apply": "derived", "add": "derived", "distance": None, "dot": None,
            "angle": None, "expectation": None, "expectations": None, "update": None, "debug": None,
            "info": None, "warning": None, "format": None, "read": None, "GetLR": None, "index": None,
            "build_children_environ": None, "build_parent_environ": None, "get_child_indices": None,
            "get_parent_indices": None, "from_tensors": "derived"}
PURE_FUNCS = {"Environ", "TTNEnviron", "len", "isinstance", "range", "enumerate", "zip", "min", "max", "abs",
              "print", "transferMat", "hop_expr", "hop_expr0", "hop_expr1", "hop_expr2", "asxp", "asnumpy",
              "callable", "min_abs", "type", "id", "str", "int", "float", "complex", "bool", "get_qn_mask",
              "cvec2cmat", "integrand_func_factory", "_mu_regularize", "solve_ivp", "expm_krylov",
              "multi_tensor_contract", "contract_one_site", "tensordot", "TypeError", "ValueError", "factorial",
              "time_derivative_vmf", "sum", "any", "all", "repr", "hasattr"}
LIST_FUNCS = {"deque", "list", "tuple", "reversed", "sorted"}
INPLACE_FUNCS = {"normalize"}                  # module-level functions that overwrite their first argument
FRESH = {"copy", "to_complex", "metacopy", "derived", "entry", "helper"}
ORIGIN_COQ = {"in": "OIn", "copy": "OCopy", "to_complex": "OToComplex", "metacopy": "OMetacopy",
              "derived": "ODerived", "entry": "OEntry", "helper": "OHelper"}
WKIND_COQ = {"value_store": "WValue", "config_store": "WConfig", "config_share": "WConfig", "gauge": "WGauge",
             "fold": "WFold", "scale_identity": "WScaleIdentity", "destructive": "WDestructive",
             "helper_inplace": "WHelperInplace", "escape": "WEscape"}


def fs(*xs):
    return frozenset(xs)


EMPTY = fs()


def is_obj(t):
    """tags under which a value may be the input object itself"""
    return any(x == "in" or x.startswith("in0:") for x in t)


def has_list(t):
    return "inlist" in t or "inlist0" in t


def flat(v):
    if isinstance(v, tuple):
        r = set()
        for x in v:
            r |= flat(x)
        return frozenset(r)
    return v


def elem(t, idxvar=None):
    """tags of an element obtained by indexing / iterating a value with tags t"""
    t = flat(t)
    r = set()
    if "inlist" in t:
        r |= {"in", "derived"}
    if "inlist0" in t:
        r |= {("in0:" + idxvar) if idxvar else "in", "derived"}
    if is_obj(t):
        r.add("site")
    for x in t:
        if x.startswith("sub:") or x == "site":
            r.add(x)
        if x in ("entrydict", "helpertable"):
            r.add(x)
    return frozenset(r)


class Scan:
    def __init__(self, fn_label, role, module_funcs=None):
        self.fn = fn_label
        self.role = role
        self.module_funcs = module_funcs or {}     # module-level functions of the same file (followed when the input is passed)
        self.followed = set()
        self.writes = []           # dicts kind/what/line
        self.rets = set()
        self.first = {}            # name -> (line, tags) of first binding (source order)
        self.ret_names = set()
        self.helper_args = set()
        self.entry_names = set()   # names in a dispatcher dict
        self.funcs = {}
        self.stack = []
        self.xrefs = set()
        self.depth = 0             # > 0 while scanning a nested def / an inlined call
        self.first_all = {}        # name -> union of the tags of all object-valued top-level bindings
        self.ret_exprs = []        # (source, tags) of return expressions that are not a plain name

    # ------------------------------------------------------------------ recording
    def write(self, kind, what, node):
        w = {"kind": kind, "what": what, "line": getattr(node, "lineno", 0)}
        if w not in self.writes:
            self.writes.append(w)

    def store_through(self, base_tags, attr, node, what):
        """a store `X.attr = ...` / `X[i] = ...` / augmented; X has base_tags; attr None for subscript"""
        bt = flat(base_tags)
        if is_obj(bt):
            if attr is not None and attr in CONFIG_ATTRS:
                self.write("config_store", what, node)
            else:
                self.write("value_store", what, node)
        for x in bt:
            if x.startswith("sub:"):
                a = x[4:]
                self.write("config_store" if a in CONFIG_ATTRS else "value_store", what, node)
            if x == "site":
                self.write("value_store", what, node)

    # ------------------------------------------------------------------ expressions
    def ev(self, n, env):
        m = getattr(self, "ev_" + type(n).__name__, None)
        if m is None:
            raise TranslateError("%s: expression %s at line %s" % (self.fn, type(n).__name__, getattr(n, "lineno", "?")))
        return m(n, env)

    def ev_Constant(self, n, env):
        return EMPTY

    def ev_Name(self, n, env):
        if n.id == "EVOLVE_METHODS" and n.id not in env:
            return fs("helpertable")
        return env.get(n.id, EMPTY)

    def ev_JoinedStr(self, n, env):
        for v in n.values:
            self.ev(v, env)
        return EMPTY

    def ev_FormattedValue(self, n, env):
        self.ev(n.value, env)
        return EMPTY

    def ev_Attribute(self, n, env):
        b = flat(self.ev(n.value, env))
        r = set()
        if is_obj(b):
            r.add("sub:" + n.attr)
        for x in b:
            if x.startswith("sub:") or x == "site":
                r.add(x)
        return frozenset(r)

    def ev_Subscript(self, n, env):
        b = self.ev(n.value, env)
        self.ev(n.slice, env)
        if isinstance(b, tuple):
            if isinstance(n.slice, ast.Constant) and isinstance(n.slice.value, int) and -len(b) <= n.slice.value < len(b):
                return b[n.slice.value]
            b = flat(b)
        if isinstance(n.slice, ast.Slice) and has_list(b):
            return frozenset(x for x in b if x in ("inlist", "inlist0"))
        return elem(b)

    def ev_Slice(self, n, env):
        for x in (n.lower, n.upper, n.step):
            if x is not None:
                self.ev(x, env)
        return EMPTY

    def ev_Starred(self, n, env):
        return self.ev(n.value, env)

    def ev_BinOp(self, n, env):
        l = flat(self.ev(n.left, env))
        r = flat(self.ev(n.right, env))
        if has_list(l) or has_list(r):
            if "inlist0" in l and not has_list(r) and not is_obj(r):
                return fs("inlist0")
            return fs("inlist")
        if is_obj(l) or is_obj(r):
            if isinstance(n.op, (ast.Add, ast.Sub)):
                self.write("fold", ast.unparse(n)[:60], n)
            elif not isinstance(n.op, (ast.Mult, ast.MatMult)):
                self.write("escape", "operator on input: " + ast.unparse(n)[:60], n)
            return fs("derived")
        if (l | r) & FRESH:
            return fs("derived")
        return EMPTY

    def ev_UnaryOp(self, n, env):
        self.ev(n.operand, env)
        return EMPTY

    def ev_BoolOp(self, n, env):
        r = set()
        for v in n.values:
            r |= flat(self.ev(v, env))
        return frozenset(r)

    def ev_Compare(self, n, env):
        self.ev(n.left, env)
        for c in n.comparators:
            self.ev(c, env)
        return EMPTY

    def ev_IfExp(self, n, env):
        self.ev(n.test, env)
        return flat(self.ev(n.body, env)) | flat(self.ev(n.orelse, env))

    def ev_Tuple(self, n, env):
        return tuple(flat(self.ev(e, env)) for e in n.elts)

    def ev_List(self, n, env):
        ts = [flat(self.ev(e, env)) for e in n.elts]
        if any(is_obj(t) or has_list(t) for t in ts):
            if ts and ts[0] == fs("in") and not any(is_obj(t) or has_list(t) for t in ts[1:]):
                return fs("inlist0")
            return fs("inlist")
        return EMPTY

    ev_Set = ev_List

    def ev_Dict(self, n, env):
        names = []
        ok = bool(n.values)
        any_in = False
        for k, v in zip(n.keys, n.values):
            if k is not None:
                self.ev(k, env)
            if isinstance(v, ast.Attribute) and isinstance(v.value, ast.Name) and is_obj(env.get(v.value.id, EMPTY)) \
                    and v.attr.startswith("_evolve_"):
                names.append(v.attr)
                continue
            ok = False
            t = flat(self.ev(v, env))
            any_in = any_in or is_obj(t) or has_list(t)
        if ok:
            self.entry_names |= set(names)
            return fs("entrydict")
        if names:
            raise TranslateError("%s: mixed dispatcher dict" % self.fn)
        return fs("inlist") if any_in else EMPTY

    def _comp(self, n, env, elts):
        env = dict(env)
        for g in n.generators:
            it = self.ev(g.iter, env)
            self.bind_loop_target(g.target, g.iter, it, env)
            for c in g.ifs:
                self.ev(c, env)
        r = set()
        for e in elts:
            r |= flat(self.ev(e, env))
        return fs("inlist") if (is_obj(r) or has_list(r)) else EMPTY

    def ev_ListComp(self, n, env):
        return self._comp(n, env, [n.elt])

    ev_GeneratorExp = ev_ListComp
    ev_SetComp = ev_ListComp

    def ev_DictComp(self, n, env):
        return self._comp(n, env, [n.key, n.value])

    def ev_Lambda(self, n, env):
        env2 = dict(env)
        for a in n.args.args:
            env2[a.arg] = EMPTY
        self.ev(n.body, env2)
        return EMPTY

    def ev_Yield(self, n, env):
        if n.value is not None:
            self.ev(n.value, env)
        return EMPTY

    def ev_NamedExpr(self, n, env):
        v = self.ev(n.value, env)
        env[n.target.id] = flat(v)
        return v

    # ------------------------------------------------------------------ calls
    def kw_inplace(self, n):
        for k in n.keywords:
            if k.arg == "inplace":
                if isinstance(k.value, ast.Constant):
                    return bool(k.value.value)
                return None            # not a literal
        return False

    def scale_identity_pattern(self, n, tags):
        """`term.scale(<X> ** i * c[i], inplace=True)` or `... ** i / factorial(i)` where term is the input iff i == 0"""
        idx = [x[4:] for x in tags if x.startswith("in0:")]
        if "in" in tags or len(idx) != 1 or len(n.args) != 1:
            return False
        i = idx[0]
        a = n.args[0]
        if not (isinstance(a, ast.BinOp) and isinstance(a.op, (ast.Mult, ast.Div)) and isinstance(a.left, ast.BinOp)
                and isinstance(a.left.op, ast.Pow) and isinstance(a.left.right, ast.Name) and a.left.right.id == i):
            return False
        r = a.right
        if isinstance(a.op, ast.Mult):
            return isinstance(r, ast.Subscript) and isinstance(r.slice, ast.Name) and r.slice.id == i
        return isinstance(r, ast.Call) and isinstance(r.func, ast.Name) and r.func.id == "factorial" \
            and len(r.args) == 1 and isinstance(r.args[0], ast.Name) and r.args[0].id == i

    def ev_Call(self, n, env):
        f = n.func
        # receiver first (python evaluation order), then arguments
        recv = None
        is_super = False
        if isinstance(f, ast.Attribute):
            if isinstance(f.value, ast.Call) and isinstance(f.value.func, ast.Name) and f.value.func.id == "super":
                is_super = True
                recv = env.get("self", EMPTY)
            else:
                recv = flat(self.ev(f.value, env))
        args = [flat(self.ev(a, env)) for a in n.args]
        kws = [flat(self.ev(k.value, env)) for k in n.keywords]
        allargs = args + kws
        arg_obj = any(is_obj(t) for t in allargs)
        arg_list = any(has_list(t) for t in allargs)
        arg_part = any(("site" in t) or any(x.startswith("sub:") for x in t) for t in allargs)
        src = ast.unparse(n)[:70]

        if isinstance(f, ast.Attribute):
            m = f.attr
            # ---- list / deque mutation on a local container
            if isinstance(f.value, ast.Name) and not is_obj(recv) and m in ("append", "extend", "appendleft", "insert"):
                if arg_obj or arg_list:
                    env[f.value.id] = frozenset((env.get(f.value.id, EMPTY) - {"inlist0"}) | {"inlist"}) \
                        if "inlist0" not in env.get(f.value.id, EMPTY) or arg_obj or arg_list else env[f.value.id]
                return EMPTY
            if has_list(recv) and m in ("pop", "popleft"):
                return elem(recv)
            if has_list(recv) and m in ("clear", "copy", "index", "count"):
                return EMPTY
            # ---- the receiver may be the input object
            if is_obj(recv):
                if m in GAUGE:
                    self.write("gauge", src, n)
                    return recv
                if m in INPLACE_KW:
                    ip = self.kw_inplace(n)
                    if ip is False:
                        return fs("copy" if m == "scale" else "to_complex")
                    if ip is True and m == "scale" and self.scale_identity_pattern(n, recv):
                        self.write("scale_identity", src, n)
                        return recv
                    self.write("destructive", src, n)
                    return recv
                if m in DESTRUCTIVE:
                    self.write("destructive", src, n)
                    return recv
                if m in PURE_FOLD:
                    self.write("fold", src, n)
                    return fs("derived") if m == "add" else EMPTY
                if m.startswith("_evolve_"):
                    return fs("entry")
                if m in PURE_FRESH:
                    return fs(PURE_FRESH[m])
                if m in PURE_SCALAR:
                    return EMPTY
                self.write("escape", "unknown method on input: " + src, n)
                return EMPTY
            # ---- the receiver is reached from the input
            if recv is not None and any(x.startswith("sub:") for x in recv):
                subs = [x[4:] for x in recv if x.startswith("sub:")]
                if m in SUB_PURE:
                    return EMPTY
                for a in subs:
                    self.write("config_store" if a in CONFIG_ATTRS else "escape",
                               "method on input.%s: %s" % (a, src), n)
                return EMPTY
            if recv is not None and "site" in recv:
                if m not in SITE_PURE:
                    self.write("escape", "method on a site of the input: " + src, n)
                return EMPTY
            # ---- the receiver is not the input
            if arg_obj or arg_list:
                if m in ARG_PURE:
                    if m == "add" or m == "distance":
                        self.write("fold", src, n)
                    return fs(ARG_PURE[m]) if ARG_PURE[m] else EMPTY
                self.write("escape", "input passed to unknown method: " + src, n)
                return EMPTY
            if recv is not None and recv & FRESH:
                if m in GAUGE or m in DESTRUCTIVE or m in INPLACE_KW:
                    return frozenset(recv & FRESH)
                return fs("derived") if (m in PURE_FRESH or m in PURE_FOLD or m.startswith("_evolve_")) else EMPTY
            return EMPTY

        if isinstance(f, ast.Name):
            name = f.id
            ft = env.get(name, EMPTY)
            if name in self.funcs:
                return self.inline(name, n, args, env)
            if "entrydict" in ft or name == "fun":
                return fs("entry")
            if "helpertable" in ft:
                if arg_obj:
                    self.write("helper_inplace", src, n)
                r = {"helper"}
                if args:
                    r |= {x for x in args[0] if x in FRESH or x == "in" or x.startswith("in0:")}
                for a in args[:1]:
                    self.helper_args |= set(a)
                return frozenset(r)
            if name == "compressed_sum":
                self.xrefs.add("compressed_sum")
                if arg_obj or arg_list:
                    self.write("fold", src, n)
                return fs("derived")
            if name == "_sum":
                self.xrefs.add("_sum")
                return fs("derived")
            if name == "reduce":
                # reduce(lambda a, b: a.add(b), L): the element itself when L is a singleton
                r = {"derived"}
                for t in args[1:]:
                    if has_list(t):
                        r.add("in")
                return frozenset(r)
            if name in LIST_FUNCS:
                r = set()
                for t in args:
                    r |= {x for x in t if x in ("inlist", "inlist0")}
                    if is_obj(t):
                        r.add("site")
                return frozenset(r)
            if name in INPLACE_FUNCS and args and is_obj(args[0]):
                self.write("destructive", src, n)
                return args[0]
            if name in self.module_funcs and name not in env and (arg_obj or arg_list or arg_part):
                # a module-level helper of the same file that receives the input: its body is analysed with the same
                # rules (parameters bound to the argument tags, no closure), fail-closed on anything unknown
                if name in self.stack:
                    self.write("escape", "input passed to a recursive helper: " + src, n)
                    return fs("derived")
                self.followed.add(name)
                return self.inline(name, n, args, env, module=True)
            if name in PURE_FUNCS or name[:1].isupper():
                return EMPTY
            if arg_obj or arg_list or arg_part:
                self.write("escape", "input passed to unknown function: " + src, n)
            return EMPTY
        # any other callee expression
        ft = flat(self.ev(f, env))
        if "entrydict" in ft:
            return fs("entry")
        if arg_obj or arg_list:
            self.write("escape", "input passed to computed callee: " + src, n)
        return EMPTY

    def inline(self, name, call, args, env, module=False):
        node = self.module_funcs[name] if module else self.funcs[name]
        if name in self.stack:
            return fs("derived")
        self.stack.append(name)
        if module and (node.args.vararg or node.args.kwarg or node.args.kwonlyargs):
            raise TranslateError("%s: helper %s has *args / **kwargs" % (self.fn, name))
        env2 = {} if module else dict(env)
        params = [a.arg for a in node.args.args]
        for i, p in enumerate(params):
            env2[p] = args[i] if i < len(args) else EMPTY
        for k in call.keywords:
            if k.arg in params:
                env2[k.arg] = flat(self.ev(k.value, env))
        rlist = []
        self.depth += 1
        self.block(node.body, env2, rlist)
        self.depth -= 1
        self.stack.pop()
        if rlist and all(isinstance(r, tuple) for r in rlist) and len({len(r) for r in rlist}) == 1:
            k = len(rlist[0])
            return tuple(frozenset().union(*[r[i] for r in rlist]) for i in range(k))
        out = set()
        for r in rlist:
            out |= flat(r)
        return frozenset(out)

    # ------------------------------------------------------------------ statements
    def bind(self, target, val, env, node):
        if isinstance(target, ast.Name):
            v = val if isinstance(val, tuple) else flat(val)
            env[target.id] = flat(v)
            if self.depth == 0 and flat(v):
                src = ast.unparse(node.value)[:60] if getattr(node, "value", None) is not None else ""
                if target.id not in self.first:
                    self.first[target.id] = (node.lineno, flat(v), src)
                self.first_all.setdefault(target.id, []).append((flat(v), src))
            return
        if isinstance(target, (ast.Tuple, ast.List)):
            if isinstance(val, tuple) and len(val) == len(target.elts):
                for t, v in zip(target.elts, val):
                    self.bind(t, v, env, node)
            else:
                v = flat(val)
                ev_ = elem(v) if has_list(v) else frozenset(x for x in v if x not in ("inlist", "inlist0"))
                for t in target.elts:
                    self.bind(t, ev_, env, node)
            return
        if isinstance(target, ast.Starred):
            self.bind(target.value, val, env, node)
            return
        if isinstance(target, ast.Attribute):
            b = self.ev(target.value, env)
            self.store_through(b, target.attr, node, ast.unparse(target) + " = ...")
            v = flat(val)
            if any(x.startswith("sub:") for x in v) and not is_obj(flat(b)) and target.attr in CONFIG_ATTRS:
                self.write("config_share", ast.unparse(node)[:60], node)
            elif is_obj(v) or has_list(v):
                self.write("escape", "input stored into an attribute: " + ast.unparse(node)[:60], node)
            return
        if isinstance(target, ast.Subscript):
            b = flat(self.ev(target.value, env))
            self.ev(target.slice, env)
            if has_list(b) and not is_obj(b):
                if isinstance(target.value, ast.Name) and (is_obj(flat(val)) or has_list(flat(val))):
                    env[target.value.id] = frozenset((b - {"inlist0"}) | {"inlist"})
                return
            self.store_through(b, None, node, ast.unparse(target) + " = ...")
            return
        raise TranslateError("%s: assignment target %s" % (self.fn, type(target).__name__))

    def bind_loop_target(self, target, iter_node, it, env):
        it = flat(it)
        # enumerate(X): (i, t)
        if isinstance(iter_node, ast.Call) and isinstance(iter_node.func, ast.Name) and iter_node.func.id == "enumerate" \
                and isinstance(target, ast.Tuple) and len(target.elts) == 2 and isinstance(target.elts[0], ast.Name) \
                and iter_node.args:
            src = flat(self.ev(iter_node.args[0], env))
            env[target.elts[0].id] = EMPTY
            self._bind_simple(target.elts[1], elem(src, target.elts[0].id), env)
            return
        if isinstance(iter_node, ast.Call) and isinstance(iter_node.func, ast.Name) and iter_node.func.id == "zip" \
                and isinstance(target, ast.Tuple) and len(target.elts) == len(iter_node.args):
            for t, a in zip(target.elts, iter_node.args):
                self._bind_simple(t, elem(flat(self.ev(a, env))), env)
            return
        # generic: every name occurring in the iterable contributes
        src = set(it)
        for sub in ast.walk(iter_node):
            if isinstance(sub, ast.Name):
                src |= flat(env.get(sub.id, EMPTY))
        self._bind_simple(target, elem(frozenset(src)), env)

    def _bind_simple(self, target, tags, env):
        if isinstance(target, ast.Name):
            env[target.id] = tags
        elif isinstance(target, (ast.Tuple, ast.List)):
            for t in target.elts:
                self._bind_simple(t, tags, env)
        elif isinstance(target, ast.Starred):
            self._bind_simple(target.value, tags, env)
        else:
            raise TranslateError("%s: loop target %s" % (self.fn, type(target).__name__))

    @staticmethod
    def join(e1, e2):
        out = {}
        for k in set(e1) | set(e2):
            out[k] = frozenset(flat(e1.get(k, EMPTY)) | flat(e2.get(k, EMPTY)))
        return out

    def block(self, stmts, env, rlist):
        """Executes stmts abstractly, mutating env.  Returns 'fall' | 'stop' (return/raise/break/continue on all paths);
        break states are appended to self._breaks."""
        for s in stmts:
            r = self.stmt(s, env, rlist)
            if r == "stop":
                return "stop"
        return "fall"

    def stmt(self, s, env, rlist):
        if isinstance(s, ast.Expr):
            if not (isinstance(s.value, ast.Constant) and isinstance(s.value.value, str)):
                self.ev(s.value, env)
            return "fall"
        if isinstance(s, ast.Assign):
            v = self.ev(s.value, env)
            for t in s.targets:
                self.bind(t, v, env, s)
            return "fall"
        if isinstance(s, ast.AnnAssign):
            if s.value is not None:
                self.bind(s.target, self.ev(s.value, env), env, s)
            return "fall"
        if isinstance(s, ast.AugAssign):
            self.ev(s.value, env)
            t = s.target
            if isinstance(t, ast.Name):
                cur = flat(env.get(t.id, EMPTY))
                if is_obj(cur) or "site" in cur or any(x.startswith("sub:") for x in cur):
                    self.store_through(cur if not is_obj(cur) else fs("in"), None, s, ast.unparse(s)[:60])
                return "fall"
            if isinstance(t, ast.Attribute):
                self.store_through(self.ev(t.value, env), t.attr, s, ast.unparse(s)[:60])
                return "fall"
            if isinstance(t, ast.Subscript):
                b = flat(self.ev(t.value, env))
                self.ev(t.slice, env)
                if not (has_list(b) and not is_obj(b)):
                    self.store_through(b, None, s, ast.unparse(s)[:60])
                return "fall"
            raise TranslateError("%s: augmented target" % self.fn)
        if isinstance(s, ast.Return):
            v = self.ev(s.value, env) if s.value is not None else EMPTY
            rlist.append(v if isinstance(v, tuple) else flat(v))
            if s.value is not None and self.depth == 0:
                e = s.value
                while isinstance(e, ast.Call) and isinstance(e.func, ast.Attribute) and \
                        (e.func.attr in GAUGE or e.func.attr in DESTRUCTIVE):
                    e = e.func.value          # `return mps.canonicalise()` returns mps itself
                if isinstance(e, ast.Name):
                    self.ret_names.add(e.id)
                else:
                    self.ret_exprs.append((ast.unparse(e)[:60], flat(v)))
            return "stop"
        if isinstance(s, ast.If):
            self.ev(s.test, env)
            e1, e2 = dict(env), dict(env)
            r1 = self.block(s.body, e1, rlist)
            r2 = self.block(s.orelse, e2, rlist)
            if r1 == "stop" and r2 == "stop":
                return "stop"
            new = e2 if r1 == "stop" else e1 if r2 == "stop" else self.join(e1, e2)
            env.clear()
            env.update(new)
            return "fall"
        if isinstance(s, (ast.While, ast.For)):
            return self.loop(s, env, rlist)
        if isinstance(s, (ast.Break, ast.Continue)):
            (self._breaks if isinstance(s, ast.Break) else self._conts).append(dict(env))
            return "stop"
        if isinstance(s, ast.FunctionDef):
            self.funcs[s.name] = s
            env2 = dict(env)
            for a in s.args.args:
                env2[a.arg] = EMPTY
            saved_b, saved_c = getattr(self, "_breaks", []), getattr(self, "_conts", [])
            self.depth += 1
            self.block(s.body, env2, [])            # callbacks: scanned once with unknown arguments
            self.depth -= 1
            self._breaks, self._conts = saved_b, saved_c
            return "fall"
        if isinstance(s, ast.Delete):
            for t in s.targets:
                if isinstance(t, ast.Name):
                    env.pop(t.id, None)
                elif isinstance(t, (ast.Tuple, ast.List)):
                    for e in t.elts:
                        if isinstance(e, ast.Name):
                            env.pop(e.id, None)
                        else:
                            raise TranslateError("%s: del target" % self.fn)
                else:
                    self.store_through(self.ev(t.value, env), getattr(t, "attr", None), s, ast.unparse(s)[:60])
            return "fall"
        if isinstance(s, ast.Assert):
            self.ev(s.test, env)
            return "fall"
        if isinstance(s, ast.Raise):
            if s.exc is not None:
                self.ev(s.exc, env)
            return "stop"
        if isinstance(s, ast.Pass):
            return "fall"
        if isinstance(s, ast.With):
            for it in s.items:
                self.ev(it.context_expr, env)
            return self.block(s.body, env, rlist)
        if isinstance(s, ast.Try):
            e0 = dict(env)
            self.block(s.body, env, rlist)
            joined = self.join(e0, env)
            for h in s.handlers:
                eh = dict(joined)
                if h.name:
                    eh[h.name] = EMPTY
                self.block(h.body, eh, rlist)
                joined = self.join(joined, eh)
            env.clear()
            env.update(joined)
            self.block(s.orelse, env, rlist)
            self.block(s.finalbody, env, rlist)
            return "fall"
        if isinstance(s, (ast.Global, ast.Nonlocal, ast.Import, ast.ImportFrom)):
            return "fall"
        raise TranslateError("%s: statement %s at line %s" % (self.fn, type(s).__name__, s.lineno))

    def loop(self, s, env, rlist):
        saved_b, saved_c = getattr(self, "_breaks", []), getattr(self, "_conts", [])
        infinite = isinstance(s, ast.While) and isinstance(s.test, ast.Constant) and s.test.value is True
        head = dict(env)
        exits = []
        for _ in range(4):
            self._breaks, self._conts = [], []
            e = dict(head)
            if isinstance(s, ast.While):
                self.ev(s.test, e)
            else:
                it = self.ev(s.iter, e)
                self.bind_loop_target(s.target, s.iter, it, e)
            r = self.block(s.body, e, rlist)
            back = list(self._conts) + ([e] if r == "fall" else [])
            exits = list(self._breaks)
            new_head = dict(head)
            for b in back:
                new_head = self.join(new_head, b)
            if new_head == head:
                break
            head = new_head
        self._breaks, self._conts = saved_b, saved_c
        out = None
        if not infinite:
            out = dict(head)
        for b in exits:
            out = b if out is None else self.join(out, b)
        if out is None:
            return "stop"           # `while True` left only through return
        if s.orelse:
            self.block(s.orelse, out, rlist)
        env.clear()
        env.update(out)
        return "fall"


# ---------------------------------------------------------------------------------------------------
def find_class(tree, name):
    for n in tree.body:
        if isinstance(n, ast.ClassDef) and n.name == name:
            return n
    raise TranslateError("class %s not found" % name)


def find_func(body, name):
    for n in body:
        if isinstance(n, ast.FunctionDef) and n.name == name:
            return n
    raise TranslateError("function %s not found" % name)


def module_functions(tree):
    return {n.name: n for n in tree.body if isinstance(n, ast.FunctionDef)}


def scan_function(label, node, role, inputs, list_inputs=(), module_funcs=None):
    sc = Scan(label, role, module_funcs)
    env = {}
    for a in node.args.args:
        env[a.arg] = EMPTY
    for p in inputs:
        if p not in env:
            raise TranslateError("%s: parameter %s missing" % (label, p))
        env[p] = fs("in")
    for p in list_inputs:
        if p not in env:
            raise TranslateError("%s: parameter %s missing" % (label, p))
        env[p] = fs("inlist")
    sc._breaks, sc._conts = [], []
    rlist = []
    sc.block(node.body, env, rlist)
    ret = set()
    for r in rlist:
        ret |= flat(r[0] if isinstance(r, tuple) and r else r) if isinstance(r, tuple) else flat(r)
    # entry kind: first binding (source order) of every name that occurs in a return expression / helper call
    first = set()
    first_src = []
    for nm in sorted(sc.ret_names):
        if nm in sc.first_all:
            for tags, src in sc.first_all[nm]:
                first |= tags
                first_src.append("%s = %s" % (nm, src))
        elif nm in inputs:
            first.add("in")
            first_src.append(nm)
    for src, tags in sc.ret_exprs:
        first |= tags
        first_src.append("return " + src)
    first |= sc.helper_args
    first_src = list(dict.fromkeys(first_src))
    if not first:
        first = set(ret)
    norm = lambda t: sorted({("in" if x.startswith("in0:") or x in ("inlist", "inlist0") else x) for x in t
                             if x in ORIGIN_COQ or x.startswith("in0:") or x in ("inlist", "inlist0")})
    return {"fn": label, "role": role, "first": norm(first), "first_src": first_src, "ret": norm(ret),
            "writes": sc.writes, "entry_names": sorted(sc.entry_names), "xrefs": sorted(sc.xrefs),
            "followed": sorted(sc.followed)}


CSUM_TEMPLATE = '''
def compressed_sum(mps_list, batchsize=5, temp_m_trunc=None):
    assert len(mps_list) != 0
    mps_queue = deque(mps_list)
    if len(mps_queue) > 1:
        while len(mps_queue) != 1:
            term_to_sum = []
            for i in range(min(batchsize, len(mps_queue))):
                term_to_sum.append(mps_queue.popleft())
            s = _sum(term_to_sum, temp_m_trunc=temp_m_trunc)
            mps_queue.append(s)
        return mps_queue[0]
    else:
        pass
'''
SUM_TEMPLATE = '''
def _sum(mps_list, compress=True, temp_m_trunc=None):
    new_mps = reduce(lambda mps1, mps2: mps1.add(mps2), mps_list)
    if compress:
        new_mps.canonicalise()
        new_mps.compress(temp_m_trunc=temp_m_trunc)
    return new_mps
'''


def scan_lib(repo):
    """compressed_sum: the queue branch must match the template literally (its freshness is the theorem
    csum_queue_fresh of the model); the single-element branch is scanned like any entry point."""
    src = open(os.path.join(repo, "renormalizer/mps/lib.py")).read()
    tree = ast.parse(src)
    cs = find_func(tree.body, "compressed_sum")
    tmpl = ast.parse(CSUM_TEMPLATE).body[0]
    if ast.dump(cs.args) != ast.dump(tmpl.args):
        raise TranslateError("compressed_sum signature changed")
    if len(cs.body) != 3 or not isinstance(cs.body[2], ast.If):
        raise TranslateError("compressed_sum body shape changed")
    for a, b in zip(cs.body[:2], tmpl.body[:2]):
        if ast.dump(a) != ast.dump(b):
            raise TranslateError("compressed_sum prologue changed: " + ast.unparse(a))
    iff, tif = cs.body[2], tmpl.body[2]
    if ast.dump(iff.test) != ast.dump(tif.test) or [ast.dump(x) for x in iff.body] != [ast.dump(x) for x in tif.body]:
        raise TranslateError("compressed_sum queue branch changed")
    # single-element branch: a function with the same parameters whose body is the else branch
    fake = ast.FunctionDef(name="compressed_sum", args=cs.args, body=iff.orelse, decorator_list=[], lineno=cs.lineno)
    row = scan_function("compressed_sum", fake, "Public", [], ["mps_list"])
    default_batch = cs.args.defaults[0].value
    sm = find_func(tree.body, "_sum")
    if ast.dump(sm) != ast.dump(ast.parse(SUM_TEMPLATE).body[0]):
        # not the template: scan it generically (a singleton list then returns its element)
        srow = scan_function("_sum", sm, "Public", [], ["mps_list"])
    else:
        srow = {"fn": "_sum", "role": "SumHelper", "first": ["derived"], "first_src": ["new_mps = reduce(add, mps_list)"],
                "ret": ["derived"], "writes": [], "entry_names": [], "xrefs": [], "followed": []}
    return row, srow, default_batch


def scan_batchsizes(repo, default_batch):
    """batchsize of every compressed_sum( call (literal or default) and every caller of _sum"""
    out = []
    sum_callers = []
    root = os.path.join(repo, "renormalizer")
    for dp, dn, fnames in os.walk(root):
        dn[:] = sorted(d for d in dn if d != "tests")
        for fn in sorted(fnames):
            if not fn.endswith(".py"):
                continue
            path = os.path.join(dp, fn)
            try:
                tree = ast.parse(open(path).read())
            except SyntaxError as e:
                raise TranslateError("cannot parse %s: %s" % (path, e))
            for n in ast.walk(tree):
                if isinstance(n, ast.Call):
                    nm = n.func.id if isinstance(n.func, ast.Name) else n.func.attr if isinstance(n.func, ast.Attribute) else None
                    if nm == "compressed_sum":
                        b = default_batch
                        if len(n.args) >= 2:
                            raise TranslateError("positional batchsize in %s:%d" % (path, n.lineno))
                        for k in n.keywords:
                            if k.arg == "batchsize":
                                if not (isinstance(k.value, ast.Constant) and isinstance(k.value.value, int)):
                                    raise TranslateError("non-literal batchsize in %s:%d" % (path, n.lineno))
                                b = k.value.value
                            if k.arg is None:
                                raise TranslateError("**kwargs in compressed_sum call %s:%d" % (path, n.lineno))
                        out.append((os.path.relpath(path, repo), n.lineno, b))
                    if nm == "_sum":
                        sum_callers.append((os.path.relpath(path, repo), n.lineno))
    return out, sum_callers


def extract(repo):
    rows = []
    # ---- chains
    p = os.path.join(repo, "renormalizer/mps/mps.py")
    tree = ast.parse(open(p).read())
    mps_cls = find_class(tree, "Mps")
    mf = module_functions(tree)
    names = [n.name for n in mps_cls.body if isinstance(n, ast.FunctionDef) and n.name.startswith("_evolve_")]
    if not names:
        raise TranslateError("no _evolve_* methods found")
    for nm in names + ["evolve_exact", "evolve"]:
        r = scan_function("Mps." + nm, find_func(mps_cls.body, nm), "Public", ["self"], module_funcs=mf)
        r["file"] = "mps/mps.py"
        rows.append(r)
    disp = rows[-1]
    if sorted(disp["entry_names"]) != sorted(set(disp["entry_names"])) or not set(disp["entry_names"]) <= set(names):
        raise TranslateError("Mps.evolve dispatches to unknown methods: %s" % disp["entry_names"])
    missing = set(names) - set(disp["entry_names"])
    # adaptive wrapper
    ad = find_func(tree.body, "adaptive_tdvp")
    inner = find_func(ad.body, "adaptive_fun")
    r = scan_function("adaptive_tdvp.adaptive_fun", inner, "Public", ["self"], module_funcs=mf)
    r["file"] = "mps/mps.py"
    rows.append(r)
    decorated = []
    for n in mps_cls.body:
        if isinstance(n, ast.FunctionDef) and n.name.startswith("_evolve_"):
            for d in n.decorator_list:
                if ast.unparse(d) != "adaptive_tdvp":
                    raise TranslateError("unknown decorator %s on %s" % (ast.unparse(d), n.name))
                decorated.append(n.name)
    # ---- density operators
    p = os.path.join(repo, "renormalizer/mps/mpdm.py")
    tree = ast.parse(open(p).read())
    cls = find_class(tree, "MpDm")
    for n in cls.body:
        if isinstance(n, ast.FunctionDef) and (n.name.startswith("_evolve_") or n.name in ("evolve_exact", "evolve")):
            r = scan_function("MpDm." + n.name, n, "Public", ["self"], module_funcs=module_functions(tree))
            r["file"] = "mps/mpdm.py"
            rows.append(r)
    if not any(r["fn"] == "MpDm.evolve_exact" for r in rows):
        raise TranslateError("MpDm.evolve_exact not found")
    # ---- trees
    p = os.path.join(repo, "renormalizer/tn/tree.py")
    tree = ast.parse(open(p).read())
    cls = find_class(tree, "TTNS")
    r = scan_function("TTNS.evolve", find_func(cls.body, "evolve"), "Public", ["self"], module_funcs=module_functions(tree))
    r["file"] = "tn/tree.py"
    rows.append(r)
    p = os.path.join(repo, "renormalizer/tn/time_evolution.py")
    tree = ast.parse(open(p).read())
    reg = []
    for n in tree.body:
        if isinstance(n, ast.Assign) and isinstance(n.targets[0], ast.Subscript) \
                and ast.unparse(n.targets[0].value) == "EVOLVE_METHODS":
            if not isinstance(n.value, ast.Name):
                raise TranslateError("EVOLVE_METHODS entry is not a plain function name")
            reg.append(n.value.id)
    if not reg:
        raise TranslateError("EVOLVE_METHODS registrations not found")
    for nm in reg:
        f = find_func(tree.body, nm)
        if not f.args.args or f.args.args[0].arg != "ttns":
            raise TranslateError("helper %s: first parameter is not ttns" % nm)
        r = scan_function("tn." + nm, f, "Helper", ["ttns"])
        r["file"] = "tn/time_evolution.py"
        rows.append(r)
    # ---- compressed_sum
    crow, srow, default_batch = scan_lib(repo)
    crow["file"] = srow["file"] = "mps/lib.py"
    rows += [crow, srow]
    batches, sum_callers = scan_batchsizes(repo, default_batch)
    bad_sum = [c for c in sum_callers if c[0] != "renormalizer/mps/lib.py"]
    if bad_sum:
        raise TranslateError("_sum called outside mps/lib.py: %s" % bad_sum)
    return {"rows": rows, "batches": batches, "default_batch": default_batch, "undispatched": sorted(missing),
            "decorated": decorated}


def cs(s):
    return '"' + s.replace('"', "'").replace("\n", " ") + '"'


def render(tab):
    o = ["(* GENERATED by tx/evolveentry.py from renormalizer/mps/{mps,mpdm,lib}.py, tn/{tree,time_evolution}.py -- do not edit *)",
         "From Coq Require Import List String.", "Import ListNotations.", "Local Open Scope string_scope.", "",
         "Inductive role := Public | Helper | SumHelper.",
         "Inductive origin := OIn | OCopy | OToComplex | OMetacopy | ODerived | OEntry | OHelper.",
         "Inductive wkind := WValue | WConfig | WGauge | WFold | WScaleIdentity | WDestructive | WHelperInplace | WEscape.",
         "Record write := mkW { w_kind : wkind; w_what : string; w_line : nat }.",
         "Record entry := mkE { e_file : string; e_fn : string; e_role : role; e_first : list origin;",
         "                      e_ret : list origin; e_writes : list write }.", ""]
    names = []
    for i, r in enumerate(tab["rows"]):
        nm = "ent_%d" % i
        names.append(nm)
        o.append("(* %s :: %s   first binding of the returned state: %s%s *)" % (
            r["file"], r["fn"], "; ".join(r["first_src"]) or "-",
            ("   [module-level helpers followed: %s]" % ", ".join(r["followed"])) if r.get("followed") else ""))
        o.append("Definition %s : entry := mkE %s %s %s" % (nm, cs(r["file"]), cs(r["fn"]), r["role"]))
        o.append("  [" + "; ".join(ORIGIN_COQ[x] for x in r["first"]) + "]")
        o.append("  [" + "; ".join(ORIGIN_COQ[x] for x in r["ret"]) + "]")
        ws = ["mkW %s %s %d" % (WKIND_COQ[w["kind"]], cs(w["what"]), w["line"]) for w in r["writes"]]
        o.append("  [" + (";\n   ".join(ws)) + "].")
        o.append("")
    o.append("Definition entries : list entry := [" + "; ".join(names) + "].")
    o.append("")
    o.append("(* batchsize of every compressed_sum( call in the package (default %d) *)" % tab["default_batch"])
    o.append("Definition csum_batches : list nat := [" + "; ".join("%d" % b[2] for b in tab["batches"]) + "].")
    o.append("(* the queue branch of compressed_sum and _sum matched their templates literally *)")
    o.append("Definition csum_queue_template_ok : bool := true.")
    o.append("")
    return "\n".join(o)


def main(repo="/repo"):
    tab = extract(repo)
    return render(tab), tab


if __name__ == "__main__":
    text, tab = main(sys.argv[1] if len(sys.argv) > 1 else "/repo")
    sys.stdout.write(text)
