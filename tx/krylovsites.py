"""Translator: every `expm_krylov(` call of renormalizer/mps/mps.py and renormalizer/tn/time_evolution.py
->  coq/Gen/KrylovSites.v   (fail-closed)

expm_krylov(Afunc, dt, vstart) assumes a Hermitian operator.  For every call site the operator
expression and the dt expression are classified:

  operator   OpHop         lambda y: <h>(y.reshape(<shape>)).ravel()   with <h> bound only by hop_expr*( ... )
             OpRealScaled  a local function that returns integrand_func_factory(..., coef, ...)(0, y), where the
                           factory's inner function returns `<...>.ravel() / coef` and every assignment to `coef`
                           in the calling function is a real constant
             OpDivImag     the same, but some assignment to `coef` is an imaginary constant (H / 1j is anti-Hermitian)
             OpCoefCancelled  lambda y: <f>(y) * <c>  (or <c> * <f>(y)) where <f> is such a local function whose factory call passes
                           the SAME name <c> as `coef`, and every assignment to <c> is a non-zero numeric literal:
                           (H_eff y / c) * c = H_eff y, the Hermitian effective Hamiltonian
             OpUnknown     anything else
  dt         DtOverCoef    <name> / <c> with the same <c> as in OpCoefCancelled (the factor 1/coef sits in dt)
             DtImagConst   (+-1j) * <name> / <int>
             DtCoeffTau    coeff * tau
             DtName        <name>
             DtUnknown     anything else

Anything that prevents a complete scan (a reference to expm_krylov that is not a plain call or the import,
keyword/star arguments, a different number of textual occurrences than call nodes) raises TranslateError.
"""
import ast
import re
import sys

TARGET = "Gen/KrylovSites.v"
FILES = ["renormalizer/mps/mps.py", "renormalizer/tn/time_evolution.py"]
HOP_BUILDERS = {"hop_expr", "hop_expr0", "hop_expr1", "hop_expr2"}


class TranslateError(Exception):
    pass


def _parents(tree):
    par = {}
    for node in ast.walk(tree):
        for ch in ast.iter_child_nodes(node):
            par[ch] = node
    return par


def _enclosing_funcs(node, par):
    out = []
    while node in par:
        node = par[node]
        if isinstance(node, (ast.FunctionDef, ast.AsyncFunctionDef)):
            out.append(node)
    return out          # innermost first


def _assignments(func, name):
    """All values assigned to the plain name `name` inside func (any nesting); tuple targets give ('tuple', value)."""
    vals = []
    for n in ast.walk(func):
        if isinstance(n, ast.Assign):
            for t in n.targets:
                if isinstance(t, ast.Name) and t.id == name:
                    vals.append(n.value)
                elif isinstance(t, (ast.Tuple, ast.List)):
                    for i, e in enumerate(t.elts):
                        if isinstance(e, ast.Name) and e.id == name:
                            vals.append(("tuple", i, n.value))
        elif isinstance(n, (ast.AugAssign, ast.AnnAssign)):
            t = n.target
            if isinstance(t, ast.Name) and t.id == name:
                vals.append(("aug", n))
        elif isinstance(n, (ast.For, ast.comprehension)):
            for e in ast.walk(n.target):
                if isinstance(e, ast.Name) and e.id == name:
                    vals.append(("loop", n))
        elif isinstance(n, (ast.FunctionDef, ast.Lambda)) and n is not func:
            args = n.args
            for a in args.args + args.kwonlyargs + args.posonlyargs:
                if a.arg == name:
                    vals.append(("param", n))
    return vals


def _is_hop_builder_call(v):
    return isinstance(v, ast.Call) and isinstance(v.func, ast.Name) and v.func.id in HOP_BUILDERS


def _const_kind(v):
    """'real' / 'imag' / None for a (possibly negated) numeric literal."""
    if isinstance(v, ast.UnaryOp) and isinstance(v.op, (ast.USub, ast.UAdd)):
        return _const_kind(v.operand)
    if isinstance(v, ast.Constant) and not isinstance(v.value, bool):
        if isinstance(v.value, (int, float)):
            return "real"
        if isinstance(v.value, complex):
            return "imag" if v.value.real == 0 and v.value.imag != 0 else None
    return None


def _factory_divides_by_coef(module):
    """integrand_func_factory(..., coef, ...): position of `coef` and whether every return of the inner function is
    `<expr>.ravel() / coef`."""
    for n in module.body:
        if isinstance(n, ast.FunctionDef) and n.name == "integrand_func_factory":
            names = [a.arg for a in n.args.args]
            if "coef" not in names:
                raise TranslateError("integrand_func_factory has no parameter `coef`")
            pos = names.index("coef")
            inner = [m for m in n.body if isinstance(m, ast.FunctionDef)]
            rets_outer = [m for m in n.body if isinstance(m, ast.Return)]
            if len(inner) != 1 or len(rets_outer) != 1 or not (isinstance(rets_outer[0].value, ast.Name) and rets_outer[0].value.id == inner[0].name):
                raise TranslateError("integrand_func_factory: unexpected shape")
            rets = [m for m in ast.walk(inner[0]) if isinstance(m, ast.Return)]
            if not rets:
                raise TranslateError("integrand_func_factory: inner function has no return")
            for r in rets:
                v = r.value
                ok = (isinstance(v, ast.BinOp) and isinstance(v.op, ast.Div) and isinstance(v.right, ast.Name)
                      and v.right.id == "coef" and isinstance(v.left, ast.Call)
                      and isinstance(v.left.func, ast.Attribute) and v.left.func.attr == "ravel")
                if not ok:
                    raise TranslateError("integrand_func_factory: a return is not `<expr>.ravel() / coef`")
            if _assignments(n, "coef") != []:
                raise TranslateError("integrand_func_factory rebinds coef")
            return pos, inner[0].args.args
    return None


def _nonzero_literal(v):
    if isinstance(v, ast.UnaryOp) and isinstance(v.op, (ast.USub, ast.UAdd)):
        return _nonzero_literal(v.operand)
    return isinstance(v, ast.Constant) and not isinstance(v.value, bool) and isinstance(v.value, (int, float, complex)) and v.value != 0


def _factory_local(outer, fname_local, module):
    """`fname_local` must be a unique local def of `outer` of the shape
           def f(y): func = integrand_func_factory(..., <c>, ...); return func(0, y)
       with the factory's inner function returning `<expr>.ravel() / coef`.  Returns (c, kinds of the literals bound to c, their nodes)
       or a string saying why not."""
    defs = [n for n in ast.walk(outer) if isinstance(n, ast.FunctionDef) and n.name == fname_local and n is not outer]
    if len(defs) != 1 or _assignments(outer, fname_local):
        return "%s is not a unique local def" % fname_local
    d = defs[0]
    if len(d.args.args) != 1 or d.args.vararg or d.args.kwarg or d.args.kwonlyargs or d.args.defaults:
        return "local def signature"
    y = d.args.args[0].arg
    body = [s for s in d.body if not (isinstance(s, ast.Expr) and isinstance(s.value, ast.Constant))]
    if not (len(body) == 2 and isinstance(body[0], ast.Assign) and len(body[0].targets) == 1
            and isinstance(body[0].targets[0], ast.Name) and isinstance(body[1], ast.Return)):
        return "local def body"
    fname = body[0].targets[0].id
    call = body[0].value
    ret = body[1].value
    if not (isinstance(call, ast.Call) and isinstance(call.func, ast.Name) and call.func.id == "integrand_func_factory"):
        return "local def does not use integrand_func_factory"
    if not (isinstance(ret, ast.Call) and isinstance(ret.func, ast.Name) and ret.func.id == fname and len(ret.args) == 2
            and isinstance(ret.args[1], ast.Name) and ret.args[1].id == y and not ret.keywords):
        return "local def return"
    fac = _factory_divides_by_coef(module)
    if fac is None:
        return "integrand_func_factory not found in module"
    pos, _ = fac
    coef_arg = None
    if pos < len(call.args):
        coef_arg = call.args[pos]
    for kw in call.keywords:
        if kw.arg == "coef":
            coef_arg = kw.value
    if not isinstance(coef_arg, ast.Name):
        return "coef argument is not a name"
    if _assignments(d, coef_arg.id) or coef_arg.id == y:
        return "coef rebound inside the local def"
    vals = _assignments(outer, coef_arg.id)
    if not vals:
        return "coef unbound"
    kinds = set()
    for v in vals:
        k = None if isinstance(v, tuple) else _const_kind(v)
        if k is None or not _nonzero_literal(v):
            return "coef bound to something that is not a non-zero literal"
        kinds.add(k)
    return coef_arg.id, kinds, vals


def classify_op(node, funcs, module):
    if isinstance(node, ast.Lambda):
        a = node.args
        if len(a.args) != 1 or a.vararg or a.kwarg or a.kwonlyargs or a.defaults:
            return "OpUnknown", "lambda signature"
        y = a.args[0].arg
        b = node.body
        # <f>(y) * <c>   or   <c> * <f>(y)
        if isinstance(b, ast.BinOp) and isinstance(b.op, ast.Mult):
            for fcall, cn in ((b.left, b.right), (b.right, b.left)):
                if (isinstance(fcall, ast.Call) and isinstance(fcall.func, ast.Name) and len(fcall.args) == 1 and not fcall.keywords
                        and isinstance(fcall.args[0], ast.Name) and fcall.args[0].id == y and isinstance(cn, ast.Name) and cn.id != y):
                    if not funcs:
                        return "OpUnknown", "call outside a function"
                    info = _factory_local(funcs[0], fcall.func.id, module)
                    if isinstance(info, str):
                        return "OpUnknown", info
                    cname, kinds, vals = info
                    if cname != cn.id:
                        return "OpUnknown", "multiplies by %s but the factory divides by %s" % (cn.id, cname)
                    return "OpCoefCancelled", "coef=" + cname
            return "OpUnknown", "product is not <f>(y) * <c>"
        # <h>(y.reshape(<shape>)).ravel()
        if not (isinstance(b, ast.Call) and not b.args and not b.keywords and isinstance(b.func, ast.Attribute)
                and b.func.attr == "ravel"):
            return "OpUnknown", "lambda body is not <..>.ravel()"
        inner = b.func.value
        if not (isinstance(inner, ast.Call) and isinstance(inner.func, ast.Name) and len(inner.args) == 1 and not inner.keywords):
            return "OpUnknown", "lambda body is not h(<arg>).ravel()"
        arg = inner.args[0]
        if not (isinstance(arg, ast.Call) and isinstance(arg.func, ast.Attribute) and arg.func.attr == "reshape"
                and isinstance(arg.func.value, ast.Name) and arg.func.value.id == y and len(arg.args) == 1):
            return "OpUnknown", "argument is not y.reshape(shape)"
        h = inner.func.id
        if not funcs:
            return "OpUnknown", "call outside a function"
        vals = _assignments(funcs[0], h)
        if not vals:
            return "OpUnknown", "%s is not bound in %s" % (h, funcs[0].name)
        for v in vals:
            if isinstance(v, tuple):
                if v[0] == "tuple" and v[1] == 0 and _is_hop_builder_call(v[2]) and v[2].func.id == "hop_expr2":
                    continue            # hop, _ = hop_expr2(...)
                return "OpUnknown", "%s bound by %s" % (h, v[0])
            if not _is_hop_builder_call(v):
                return "OpUnknown", "%s bound by %s" % (h, ast.unparse(v)[:40])
        return "OpHop", h
    if isinstance(node, ast.Name):
        if not funcs:
            return "OpUnknown", "call outside a function"
        info = _factory_local(funcs[0], node.id, module)
        if isinstance(info, str):
            return "OpUnknown", info
        cname, kinds, vals = info
        if "imag" in kinds:
            return "OpDivImag", "coef in {%s}" % ", ".join(sorted(ast.unparse(v) for v in vals))
        return "OpRealScaled", "coef real"
    return "OpUnknown", type(node).__name__


def classify_dt(node, coef_name=None):
    # <name> / <c>  with the very coefficient name whose cancellation was verified for the operator
    if coef_name is not None and isinstance(node, ast.BinOp) and isinstance(node.op, ast.Div) and isinstance(node.left, ast.Name) \
            and isinstance(node.right, ast.Name) and node.right.id == coef_name and node.left.id != coef_name:
        return "DtOverCoef"
    # (+-1j) * name / int
    if isinstance(node, ast.BinOp) and isinstance(node.op, ast.Div) and isinstance(node.right, ast.Constant) \
            and isinstance(node.right.value, int) and not isinstance(node.right.value, bool) and node.right.value != 0:
        l = node.left
        if isinstance(l, ast.BinOp) and isinstance(l.op, ast.Mult) and isinstance(l.right, ast.Name) and _const_kind(l.left) == "imag":
            return "DtImagConst"
        return "DtUnknown"
    if isinstance(node, ast.BinOp) and isinstance(node.op, ast.Mult) and isinstance(node.left, ast.Name) \
            and isinstance(node.right, ast.Name) and node.left.id == "coeff" and node.right.id == "tau":
        return "DtCoeffTau"
    if isinstance(node, ast.Name):
        return "DtName"
    return "DtUnknown"


def scan(repo):
    sites = []
    for rel in FILES:
        src = open(repo + "/" + rel).read()
        tree = ast.parse(src)
        par = _parents(tree)
        calls = []
        for n in ast.walk(tree):
            if isinstance(n, ast.Name) and n.id == "expm_krylov":
                p = par.get(n)
                if isinstance(p, ast.Call) and p.func is n:
                    calls.append(p)
                else:
                    raise TranslateError("%s:%d: expm_krylov used other than as a direct call" % (rel, n.lineno))
            if isinstance(n, ast.Attribute) and n.attr == "expm_krylov":
                raise TranslateError("%s:%d: attribute reference to expm_krylov" % (rel, n.lineno))
            if isinstance(n, ast.alias) and n.name.endswith("expm_krylov") and n.asname not in (None, "expm_krylov"):
                raise TranslateError("%s: expm_krylov imported under another name" % rel)
        textual = len(re.findall(r"\bexpm_krylov\s*\(", src))
        if textual != len(calls):
            raise TranslateError("%s: %d textual occurrences of `expm_krylov(` but %d call nodes" % (rel, textual, len(calls)))
        for c in sorted(calls, key=lambda c: (c.lineno, c.col_offset)):
            if c.keywords or any(isinstance(a, ast.Starred) for a in c.args) or len(c.args) not in (3, 4):
                raise TranslateError("%s:%d: unsupported argument form" % (rel, c.lineno))
            funcs = _enclosing_funcs(c, par)
            op, why = classify_op(c.args[0], funcs, tree)
            dt = classify_dt(c.args[1], why[len("coef="):] if op == "OpCoefCancelled" else None)
            sites.append({"file": rel, "line": c.lineno, "func": funcs[-1].name if funcs else "<module>",
                          "op": op, "dt": dt, "why": why, "op_src": ast.unparse(c.args[0])[:80], "dt_src": ast.unparse(c.args[1])[:60]})
    if not sites:
        raise TranslateError("no expm_krylov call found")
    return sites


def render(sites):
    out = ["(* GENERATED by tx/krylovsites.py from renormalizer/mps/mps.py and renormalizer/tn/time_evolution.py -- do not edit *)",
           "From Coq Require Import List String.", "From RV Require Import Model.Krylov.", "Import ListNotations.",
           "Local Open Scope string_scope.", ""]
    rows = []
    for s in sites:
        out.append("(* %s:%d in %s : operator  %s  [%s] ; dt  %s *)" % (s["file"], s["line"], s["func"], s["op_src"].replace("*)", "* )"), s["why"].replace("*)", "* )"), s["dt_src"]))
        rows.append('  {| s_file := "%s"; s_line := %d; s_func := "%s"; s_op := %s; s_dt := %s |}' % (s["file"], s["line"], s["func"], s["op"], s["dt"]))
    out.append("Definition sites : list site := [")
    out.append(";\n".join(rows))
    out.append("].")
    out.append("")
    return "\n".join(out)


def main(repo="/repo"):
    sites = scan(repo)
    return render(sites), sites


if __name__ == "__main__":
    text, sites = main(sys.argv[1] if len(sys.argv) > 1 else "/repo")
    sys.stdout.write(text)
